"""C24 helper: description of every create pair (single / batch) for the behavioural comparison:
argument domains, node arguments, state generator; runs both ways on deep copies of one base net and
returns canonicalised new rows + rejection flags."""
import copy, math
import numpy as np, pandas as pd
import pandapower as pp

NAN = np.nan


# ------------------------------------------------------------------ value domains (short dyadic grids)
def g_num(rng):
    return rng.choice([0.0, 0.125, 0.25, 0.5, 0.75, 1.0, 1.5, 2.0, 2.5, 3.0, 4.5, 10.0, -0.5, -1.0, 12.25])


def g_pos(rng):
    return rng.choice([0.125, 0.25, 0.5, 0.75, 1.0, 1.5, 2.0, 2.5, 3.0, 4.5, 10.0, 12.25])


def g_int(rng):
    return rng.choice([-2, -1, 0, 1, 2, 3])


def g_pint(rng):
    return rng.choice([1, 1, 2, 3])


def g_bool(rng):
    return rng.random() < 0.5


def g_str(choices):
    return lambda rng: rng.choice(choices)


# argument spec: (name, generator, kind) kind: "req" always passed; "opt" may be omitted / NaN-like; nanlike = NAN or None
def A(name, gen, kind="opt", nanlike=NAN, p_nan=0.35, p_omit=0.45):
    return dict(name=name, gen=gen, kind=kind, nanlike=nanlike, p_nan=p_nan, p_omit=p_omit)


LIMS = [A("max_p_mw", g_num), A("min_p_mw", g_num), A("max_q_mvar", g_num), A("min_q_mvar", g_num),
        A("controllable", g_bool)]

TRAFO_STD = {"sn_mva": 25.5, "vn_hv_kv": 110.0, "vn_lv_kv": 20.0, "vk_percent": 12.25, "vkr_percent": 0.4375, "pfe_kw": 14.5,
             "i0_percent": 0.0625, "shift_degree": 150, "vector_group": "YNd5", "tap_side": "hv", "tap_neutral": 1, "tap_min": -9,
             "tap_max": 8, "tap_step_percent": 1.5, "tap_step_degree": 0.25, "tap_changer_type": "Ratio",
             "vk0_percent": 11.0, "vkr0_percent": 0.375, "mag0_percent": 95.0, "mag0_rx": 0.3125, "si0_hv_partial": 0.875,
             "tap2_side": "lv", "tap2_neutral": 2, "tap2_min": -3, "tap2_max": 4, "tap2_step_percent": 0.75,
             "tap2_step_degree": 0.5, "tap2_changer_type": "Ideal"}
TRAFO_REQ = ["sn_mva", "vn_hv_kv", "vn_lv_kv", "vk_percent", "vkr_percent", "pfe_kw", "i0_percent"]
LINE_STD = {"r_ohm_per_km": 0.125, "x_ohm_per_km": 0.3125, "c_nf_per_km": 210.0, "max_i_ka": 0.4375, "g_us_per_km": 0.75,
            "type": "cs", "q_mm2": 95, "alpha": 0.00390625, "r0_ohm_per_km": 0.5, "x0_ohm_per_km": 1.25, "c0_nf_per_km": 111.0,
            "endtemp_degree": 70.0}
LINE_REQ = ["r_ohm_per_km", "x_ohm_per_km", "c_nf_per_km", "max_i_ka"]
T3_STD = {"sn_hv_mva": 63., "sn_mv_mva": 25., "sn_lv_mva": 38., "vn_hv_kv": 110., "vn_mv_kv": 20., "vn_lv_kv": 10.,
          "vk_hv_percent": 10.5, "vk_mv_percent": 10.25, "vk_lv_percent": 10.75, "vkr_hv_percent": 0.25, "vkr_mv_percent": 0.3125,
          "vkr_lv_percent": 0.375, "pfe_kw": 35., "i0_percent": 0.875, "shift_mv_degree": 30, "shift_lv_degree": 150,
          "vector_group": "YN0yn0yn0", "tap_side": "hv", "tap_neutral": 1, "tap_min": -10, "tap_max": 11, "tap_step_percent": 1.25,
          "tap_step_degree": 0.5, "tap_changer_type": "Ratio"}
T3_REQ = ["sn_hv_mva", "sn_mv_mva", "sn_lv_mva", "vn_hv_kv", "vn_mv_kv", "vn_lv_kv", "vk_hv_percent", "vk_mv_percent",
          "vk_lv_percent", "vkr_hv_percent", "vkr_mv_percent", "vkr_lv_percent", "pfe_kw", "i0_percent"]


GROUPS = [("r0_ohm_per_km", "x0_ohm_per_km", "c0_nf_per_km")]
ALWAYS = {"shift_degree", "shift_mv_degree", "shift_lv_degree"}      # required by create_std_type


def rand_std(rng, full, req):
    """a std type: all required parameters, a random subset of the optional ones, distinctive values"""
    d = {}
    mode = rng.random()
    keep = {}
    for k in full:
        keep[k] = k in req or k in ALWAYS or mode < 0.4 or (mode < 0.8 and rng.random() < 0.6)
    for g in GROUPS:
        for k in g:
            if k in keep:
                keep[k] = keep[g[0]]
    for k, v in full.items():
        if keep[k]:
            if isinstance(v, str):
                d[k] = v
            elif isinstance(v, int) and not isinstance(v, bool):
                d[k] = v + rng.choice([0, 0, 1])
            else:
                d[k] = v * rng.choice([1.0, 0.5, 2.0])
    return d


KINDS = {
    "bus": dict(table="bus", single="create_bus", batch="create_buses", nodes=[], count_arg="nr_buses",
                args=[A("vn_kv", g_pos, "req"), A("type", g_str(["b", "n", "m"]), p_nan=0.0), A("zone", g_str(["z1", "z2"]), nanlike=None),
                      A("in_service", g_bool, p_nan=0.0), A("max_vm_pu", g_pos), A("min_vm_pu", g_pos)]),
    "load": dict(table="load", single="create_load", batch="create_loads", nodes=[("bus", "buses", "bus")],
                 args=[A("p_mw", g_num, "req"), A("q_mvar", g_num, p_nan=0.0), A("const_z_p_percent", g_num, p_nan=0.0), A("const_i_p_percent", g_num, p_nan=0.0),
                       A("const_z_q_percent", g_num, p_nan=0.0), A("const_i_q_percent", g_num, p_nan=0.0), A("sn_mva", g_pos), A("scaling", g_pos, p_nan=0.0),
                       A("in_service", g_bool, p_nan=0.0), A("type", g_str(["wye", "delta"]), p_nan=0.0)] + LIMS),
    "sgen": dict(table="sgen", single="create_sgen", batch="create_sgens", nodes=[("bus", "buses", "bus")],
                 args=[A("p_mw", g_num, "req"), A("q_mvar", g_num, p_nan=0.0), A("sn_mva", g_pos), A("scaling", g_pos, p_nan=0.0), A("in_service", g_bool, p_nan=0.0),
                       A("type", g_str(["wye", "PV"]), p_nan=0.0), A("k", g_pos), A("rx", g_pos), A("current_source", g_bool, p_nan=0.0),
                       A("generator_type", g_str(["current_source", "async", "async_doubly_fed"]), nanlike=None),
                       A("max_ik_ka", g_pos), A("lrc_pu", g_pos)] + LIMS),
    "gen": dict(table="gen", single="create_gen", batch="create_gens", nodes=[("bus", "buses", "bus")],
                args=[A("p_mw", g_num, "req"), A("vm_pu", g_pos, p_nan=0.0), A("sn_mva", g_pos), A("scaling", g_pos, p_nan=0.0), A("in_service", g_bool, p_nan=0.0),
                      A("slack", g_bool, p_nan=0.0), A("slack_weight", g_pos, p_nan=0.0), A("type", g_str(["sync", "async"]), nanlike=None, p_nan=0.35),
                      A("max_vm_pu", g_pos), A("min_vm_pu", g_pos), A("vn_kv", g_pos), A("xdss_pu", g_pos), A("rdss_ohm", g_pos),
                      A("cos_phi", g_pos), A("pg_percent", g_num)] + LIMS),
    "storage": dict(table="storage", single="create_storage", batch="create_storages", nodes=[("bus", "buses", "bus")],
                    args=[A("p_mw", g_num, "req"), A("max_e_mwh", g_pos, "req"), A("q_mvar", g_num, p_nan=0.0), A("sn_mva", g_pos),
                          A("soc_percent", g_pos), A("min_e_mwh", g_pos, p_nan=0.0), A("scaling", g_pos, p_nan=0.0), A("in_service", g_bool, p_nan=0.0),
                          A("type", g_str(["bat", "x"]), nanlike=None, p_nan=0.35)] + LIMS),
    "shunt": dict(table="shunt", single="create_shunt", batch="create_shunts", nodes=[("bus", "buses", "bus")],
                  args=[A("q_mvar", g_num, "req"), A("p_mw", g_num, p_nan=0.0), A("vn_kv", g_pos, nanlike=None, p_nan=0.0), A("step", g_pint, p_nan=0.0),
                        A("max_step", g_pint, p_nan=0.0), A("in_service", g_bool, p_nan=0.0)]),
    "ward": dict(table="ward", single="create_ward", batch="create_wards", nodes=[("bus", "buses", "bus")],
                 args=[A("ps_mw", g_num, "req"), A("qs_mvar", g_num, "req"), A("pz_mw", g_num, "req"), A("qz_mvar", g_num, "req"),
                       A("in_service", g_bool, p_nan=0.0)]),
    "impedance": dict(table="impedance", single="create_impedance", batch="create_impedances",
                      nodes=[("from_bus", "from_buses", "bus"), ("to_bus", "to_buses", "bus")],
                      args=[A("rft_pu", g_num, "req"), A("xft_pu", g_pos, "req"), A("sn_mva", g_pos, "req"),
                            A("rtf_pu", g_num, nanlike=None, p_nan=0.0), A("xtf_pu", g_pos, nanlike=None, p_nan=0.0),
                            A("gf_pu", g_num, p_nan=0.0), A("bf_pu", g_num, p_nan=0.0), A("gt_pu", g_num, nanlike=None, p_nan=0.0),
                            A("bt_pu", g_num, nanlike=None, p_nan=0.0), A("in_service", g_bool, p_nan=0.0),
                            A("rft0_pu", g_num, nanlike=None, p_nan=0.0, p_omit=0.85), A("xft0_pu", g_pos, nanlike=None, p_nan=0.0, p_omit=0.5),
                            A("rtf0_pu", g_num, nanlike=None, p_nan=0.0, p_omit=0.9), A("gf0_pu", g_num, nanlike=None, p_nan=0.0, p_omit=0.9),
                            A("bf0_pu", g_num, nanlike=None, p_nan=0.0, p_omit=0.7)]),
    "line": dict(table="line", single="create_line", batch="create_lines",
                 nodes=[("from_bus", "from_buses", "bus"), ("to_bus", "to_buses", "bus")], std=("line", LINE_STD, LINE_REQ),
                 args=[A("length_km", g_pos, "req"), A("df", g_pos, p_nan=0.0), A("parallel", g_pint, p_nan=0.0), A("in_service", g_bool, p_nan=0.0),
                       A("max_loading_percent", g_pos)]),
    "line_par": dict(table="line", single="create_line_from_parameters", batch="create_lines_from_parameters",
                     nodes=[("from_bus", "from_buses", "bus"), ("to_bus", "to_buses", "bus")],
                     args=[A("length_km", g_pos, "req"), A("r_ohm_per_km", g_pos, "req"), A("x_ohm_per_km", g_pos, "req"),
                           A("c_nf_per_km", g_pos, "req"), A("max_i_ka", g_pos, "req"), A("type", g_str(["cs", "ol"]), nanlike=None, p_nan=0.35),
                           A("df", g_pos, p_nan=0.0), A("parallel", g_pint, p_nan=0.0), A("in_service", g_bool, p_nan=0.0), A("g_us_per_km", g_pos, p_nan=0.0),
                           A("max_loading_percent", g_pos), A("alpha", g_pos), A("temperature_degree_celsius", g_pos),
                           A("r0_ohm_per_km", g_pos), A("x0_ohm_per_km", g_pos), A("c0_nf_per_km", g_pos), A("g0_us_per_km", g_pos)]),
    "trafo": dict(table="trafo", single="create_transformer", batch="create_transformers",
                  nodes=[("hv_bus", "hv_buses", "bus"), ("lv_bus", "lv_buses", "bus")], std=("trafo", TRAFO_STD, TRAFO_REQ),
                  args=[A("tap_pos", g_int), A("in_service", g_bool, p_nan=0.0), A("max_loading_percent", g_pos), A("parallel", g_pint, p_nan=0.0),
                        A("df", g_pos, p_nan=0.0), A("pt_percent", g_pos), A("oltc", g_bool, p_nan=0.0), A("xn_ohm", g_pos), A("tap2_pos", g_int)]),
    "trafo_par": dict(table="trafo", single="create_transformer_from_parameters", batch="create_transformers_from_parameters",
                      nodes=[("hv_bus", "hv_buses", "bus"), ("lv_bus", "lv_buses", "bus")],
                      args=[A(k, g_pos, "req") for k in TRAFO_REQ] +
                           [A("shift_degree", g_str([0, 30, 150]), p_nan=0.0), A("tap_side", g_str(["hv", "lv"]), nanlike=None),
                            A("tap_neutral", g_int), A("tap_max", g_int), A("tap_min", g_int), A("tap_step_percent", g_pos),
                            A("tap_step_degree", g_pos), A("tap_pos", g_int),
                            A("tap_changer_type", g_str(["Ratio", "Symmetrical", "Ideal"]), nanlike=None),
                            A("in_service", g_bool, p_nan=0.0), A("max_loading_percent", g_pos), A("parallel", g_pint, p_nan=0.0), A("df", g_pos, p_nan=0.0),
                            A("vk0_percent", g_pos), A("vkr0_percent", g_pos), A("mag0_percent", g_pos), A("mag0_rx", g_pos),
                            A("si0_hv_partial", g_pos), A("pt_percent", g_pos), A("oltc", g_bool, p_nan=0.0), A("xn_ohm", g_pos),
                            A("vector_group", g_str(["Dyn5", "Dyn5", "YNyn0"]), nanlike=None, p_nan=0.0),
                            A("tap2_side", g_str(["hv", "hv", "lv"]), nanlike=None, p_nan=0.0), A("tap2_neutral", g_int),
                            A("tap2_min", g_int), A("tap2_max", g_int), A("tap2_step_percent", g_pos), A("tap2_step_degree", g_pos),
                            A("tap2_pos", g_int), A("tap2_changer_type", g_str(["Ratio", "Ratio", "Ideal"]), nanlike=None, p_nan=0.0)]),
    "trafo3w_par": dict(table="trafo3w", single="create_transformer3w_from_parameters", batch="create_transformers3w_from_parameters",
                        nodes=[("hv_bus", "hv_buses", "bus"), ("mv_bus", "mv_buses", "bus"), ("lv_bus", "lv_buses", "bus")],
                        args=[A(k, g_pos, "req") for k in T3_REQ] +
                             [A("shift_mv_degree", g_str([0, 30, 150]), p_nan=0.0), A("shift_lv_degree", g_str([0, 30, 150]), p_nan=0.0),
                              A("tap_side", g_str(["hv", "mv", "lv"]), nanlike=None), A("tap_step_percent", g_pos), A("tap_step_degree", g_pos),
                              A("tap_pos", g_int), A("tap_neutral", g_int), A("tap_max", g_int), A("tap_min", g_int),
                              A("tap_changer_type", g_str(["Ratio", "Ratio", "Ideal"]), nanlike=None, p_nan=0.0),
                              A("in_service", g_bool, p_nan=0.0), A("max_loading_percent", g_pos), A("tap_at_star_point", g_bool, p_nan=0.0),
                              A("vk0_hv_percent", g_pos), A("vkr0_mv_percent", g_pos), A("vector_group", g_str(["YN0yn0yn0", "Yyd"]), nanlike=None)]),
    "bus_dc": dict(table="bus_dc", single="create_bus_dc", batch="create_buses_dc", nodes=[], count_arg="nr_buses_dc",
                   args=[A("vn_kv", g_pos, "req"), A("type", g_str(["b", "n", "m"]), p_nan=0.0), A("zone", g_str(["z1", "z2"]), nanlike=None),
                         A("in_service", g_bool, p_nan=0.0), A("max_vm_pu", g_pos), A("min_vm_pu", g_pos)]),
    "trafo3w": dict(table="trafo3w", single="create_transformer3w", batch="create_transformers3w",
                    nodes=[("hv_bus", "hv_buses", "bus"), ("mv_bus", "mv_buses", "bus"), ("lv_bus", "lv_buses", "bus")],
                    std=("trafo3w", T3_STD, T3_REQ),
                    args=[A("tap_pos", g_int), A("in_service", g_bool, p_nan=0.0), A("max_loading_percent", g_pos),
                          A("tap_at_star_point", g_bool, p_nan=0.0)]),
}

BUS_IDS = [0, 1, 2, 3, 7, 9]
SKIP_COLS = {"name", "geo"}


_TEMPLATE = []


def base_net(rng):
    if not _TEMPLATE:
        net = pp.create_empty_network()
        pp.create_buses(net, len(BUS_IDS), [110., 110., 20., 20., 10., 10.], index=BUS_IDS)
        _TEMPLATE.append(net)
    return copy.deepcopy(_TEMPLATE[0])


def canon_cell(v):
    """value-level canonical form: absent = None; numbers as float; bool as bool; str as str ('' = absent)"""
    if v is None or v is pd.NA:
        return None
    if isinstance(v, (bool, np.bool_)):
        return bool(v)
    if isinstance(v, (int, float, np.integer, np.floating)):
        f = float(v)
        return None if math.isnan(f) else f
    if isinstance(v, str):
        return None if v in ("", "nan", "None") else v      # astype(str) of a missing value
    return repr(v)


def new_rows(net, table, before_len):
    df = net[table]
    sub = df.iloc[before_len:]
    return [int(i) for i in sub.index], {c: [canon_cell(v) for v in sub[c].values] for c in df.columns if c not in SKIP_COLS}


def gen_case(rng, kind, n=None):
    """returns a JSON-able case description"""
    K = KINDS[kind]
    n = n if n is not None else rng.choice([1, 2, 2, 3, 3, 4])
    case = {"kind": kind, "n": n}
    if "std" in K:
        el, full, req = K["std"]
        case["std"] = rand_std(rng, full, req)
        if kind == "line" and rng.random() < 0.45:
            # create_lines also takes a list of std types: second type with its own optional parameters, mixed per element
            case["std2"] = rand_std(rng, full, req)
            if rng.random() < 0.5:                       # make the zero-sequence data differ between the two types
                for k in GROUPS[0]:
                    case["std2"].pop(k, None) if "r0_ohm_per_km" in case["std"] else case["std2"].__setitem__(k, full[k] * 2)
            case["std_names"] = [rng.choice(["S", "S2"]) for _ in range(n)]
    # arguments
    args = {}
    for a in K["args"]:
        if a["kind"] == "opt" and rng.random() < a.get("p_omit", 0.45):
            continue
        mode = rng.random()
        vals = []
        for i in range(n):
            if a["kind"] == "opt" and a["p_nan"] > 0 and (mode < 0.15 or (mode < 0.6 and rng.random() < a["p_nan"])):
                vals.append("NANLIKE_NONE" if a["nanlike"] is None else "NANLIKE_NAN")
            else:
                vals.append(a["gen"](rng))
        if rng.random() < 0.3:
            vals = [vals[0]] * n
        args[a["name"]] = vals
    case["args"] = args
    # nodes
    bad_node = rng.random() < 0.06
    nodes = {}
    for sname, bname, tab in K["nodes"]:
        nodes[sname] = [rng.choice(BUS_IDS) for _ in range(n)]
    if bad_node and nodes:
        k = rng.choice(list(nodes))
        nodes[k][rng.randrange(n)] = rng.choice([4, 5, 11])
    case["nodes"] = nodes
    # pre-existing elements (created with single calls).  Each gets its own random subset of the optional arguments,
    # independent of what this case passes, so that optional columns exist / do not exist in the target table before
    # the calls under test (column present + argument omitted, column absent + argument passed, ...)
    case["pre"] = rng.choice([0, 0, 1, 1, 2])
    case["pre_opt"] = True
    case["pre_args"] = []
    for _j in range(case["pre"]):
        d = {}
        for a in K["args"]:
            if a["kind"] == "opt" and a["p_nan"] > 0 and rng.random() < 0.35:
                d[a["name"]] = a["gen"](rng)
        case["pre_args"].append(d)
    case["pre_index"] = rng.choice([None, None, [5, 2][:case["pre"]]])
    # sibling tables: one element each in some of load / sgen / storage / gen with a random subset of the OPF limit
    # columns, so that the same optional column exists in another table but not in the target table (or vice versa)
    case["siblings"] = {}
    if rng.random() < 0.5:
        for sib in ("load", "sgen", "storage", "gen"):
            if sib != kind and rng.random() < 0.5:
                case["siblings"][sib] = {a["name"]: a["gen"](rng) for a in LIMS if rng.random() < 0.5}
    # storage rows (the table create_wards looks at)
    case["pre_storage"] = rng.choice([0, 0, 0, 1, 3]) if kind == "ward" else 0
    # index
    r = rng.random()
    if r < 0.5:
        case["index"] = None
    else:
        pool = [0, 1, 3, 4, 6, 8, 12, 13] if r < 0.9 else [0, 1, 2, 3, 4, 5, 6]     # pre-existing ids: 5, 2 or 0, 1
        idx = rng.sample(pool, n)
        if r > 0.93 and n > 1:
            idx[-1] = idx[0]                      # duplicate inside the vector
        case["index"] = idx
    return case


def _val(v):
    if isinstance(v, str) and v == "NANLIKE_NAN":
        return NAN
    if isinstance(v, str) and v == "NANLIKE_NONE":
        return None
    return v


def build_base(case, rng_unused=None):
    K = KINDS[case["kind"]]
    net = base_net(None)
    if "std" in K:
        pp.create_std_type(net, case["std"], "S", K["std"][0])
        if "std2" in case:
            pp.create_std_type(net, case["std2"], "S2", K["std"][0])
    # sibling tables first (their optional columns must not influence the target table)
    for sib, lim in case.get("siblings", {}).items():
        if sib == "load":
            pp.create_load(net, BUS_IDS[0], 1.0, **lim)
        elif sib == "sgen":
            pp.create_sgen(net, BUS_IDS[1], 1.0, **lim)
        elif sib == "storage":
            pp.create_storage(net, BUS_IDS[2], 1.0, 2.0, **lim)
        elif sib == "gen":
            pp.create_gen(net, BUS_IDS[3], 1.0, **lim)
    # pre-existing rows
    single = getattr(pp, K["single"])
    for j in range(case["pre"]):
        kw = {}
        for sname, bname, tab in K["nodes"]:
            kw[sname] = BUS_IDS[(j + len(kw)) % len(BUS_IDS)]
        for a in K["args"]:
            if a["kind"] == "req":
                kw[a["name"]] = 1.0
        pre_args = case.get("pre_args")
        if pre_args is not None:
            kw.update(pre_args[j])
        elif case["pre_opt"] and j == 0:                  # older corpus cases
            for a in K["args"]:
                if a["kind"] != "req" and a["name"] in case["args"]:
                    v = [x for x in case["args"][a["name"]] if not (isinstance(x, str) and x.startswith("NANLIKE"))]
                    if v:
                        kw[a["name"]] = v[0]
        if "std" in K:
            kw["std_type"] = "S"
        if case["pre_index"]:
            kw["index"] = case["pre_index"][j]
        single(net, **kw)
    for j in range(case.get("pre_storage", 0)):
        pp.create_storage(net, BUS_IDS[j], 1.0, 2.0)
    return net


def run_both(case, base=None):
    """-> dict(single=(rejected, exc_class, idx, cols), batch=(...), base info)"""
    K = KINDS[case["kind"]]
    n = case["n"]
    base = build_base(case) if base is None else base
    before = len(base[K["table"]])
    info = {"cols_before": [c for c in base[K["table"]].columns], "idx_before": [int(i) for i in base[K["table"]].index],
            "storage_idx": [int(i) for i in base.storage.index]}
    # --- singles
    a = copy.deepcopy(base)
    single = getattr(pp, K["single"])
    rej_s = None
    for i in range(n):
        kw = {k: _val(v[i]) for k, v in case["args"].items()}
        for sname, bname, tab in K["nodes"]:
            kw[sname] = case["nodes"][sname][i]
        if "std" in K:
            kw["std_type"] = case["std_names"][i] if "std_names" in case else "S"
        if case["index"] is not None:
            kw["index"] = case["index"][i]
        try:
            single(a, **kw)
        except Exception as e:
            rej_s = (i, type(e).__name__, str(e)[:120])
            break
    # --- batch
    b = copy.deepcopy(base)
    batch = getattr(pp, K["batch"])
    kw = {}
    for k, v in case["args"].items():
        vv = [_val(x) for x in v]
        scalar = all(repr(x) == repr(vv[0]) for x in vv) and case.get("scalar_" + k, True)
        kw[k] = vv[0] if scalar else vv
    for sname, bname, tab in K["nodes"]:
        kw[bname] = case["nodes"][sname]
    if "count_arg" in K:
        kw[K["count_arg"]] = n
    if "std" in K:
        kw["std_type"] = list(case["std_names"]) if "std_names" in case else "S"
    if case["index"] is not None:
        kw["index"] = case["index"]
    rej_b = None
    try:
        batch(b, **kw)
    except Exception as e:
        rej_b = (type(e).__name__, str(e)[:120])
    res = {"info": info, "rej_single": rej_s, "rej_batch": rej_b}
    if rej_s is None:
        res["single"] = new_rows(a, K["table"], before)
        res["single_cols"] = list(a[K["table"]].columns)
    if rej_b is None:
        res["batch"] = new_rows(b, K["table"], before)
        res["batch_cols"] = list(b[K["table"]].columns)
    return res


def diff_rows(rs, rb):
    """columns on which the new rows differ (value level; missing column = absent values)"""
    (ia, ca), (ib, cb) = rs, rb
    out = {}
    if ia != ib:
        out["INDEX"] = (ia, ib)
    n = len(ia)
    for c in sorted(set(ca) | set(cb)):
        va = ca.get(c, [None] * n)
        vb = cb.get(c, [None] * n)
        if va != vb:
            out[c] = (va, vb)
    return out
