"""C08 fault injection from outside the source: function-level (monkeypatched module attributes) and line-level
(sys.settrace raising at the k-th line event inside pandapower frames).  Nothing here edits /repo."""
import sys, os, types, importlib, inspect

REPO_PP = os.path.join(os.environ.get("VERIF_REPO", "/repo"), "pandapower") + os.sep

MODULES = [
    "pandapower.run", "pandapower.powerflow", "pandapower.optimal_powerflow", "pandapower.auxiliary", "pandapower.pd2ppc",
    "pandapower.pd2ppc_zero", "pandapower.build_bus", "pandapower.build_branch", "pandapower.build_gen",
    "pandapower.results", "pandapower.results_bus", "pandapower.results_branch", "pandapower.results_gen",
    "pandapower.pf.runpp_3ph", "pandapower.pf.run_newton_raphson_pf", "pandapower.pf.run_dc_pf", "pandapower.pf.ppci_variables",
    "pandapower.shortcircuit.calc_sc", "pandapower.shortcircuit.ppc_conversion", "pandapower.shortcircuit.impedance",
    "pandapower.shortcircuit.currents", "pandapower.shortcircuit.results", "pandapower.shortcircuit.kappa",
    "pandapower.estimation.state_estimation", "pandapower.estimation.ppc_conversion", "pandapower.estimation.results",
    "pandapower.estimation.algorithm.base", "pandapower.contingency.contingency", "pandapower.opf.make_objective",
    "pandapower.pypower.opf", "pandapower.create.gen_create", "pandapower.create.vsc_create", "pandapower.create._utils",
]
# never inject into the cleanup itself or what it calls (double fault), nor into pure helpers that are called thousands of times
EXCLUDE = {"_clean_up", "get_b2b_vsc_names", "reset_bb_switch_impedance"}


class InjectedFault(Exception):
    pass


class InjectedInterrupt(BaseException):
    """not derived from Exception: what a KeyboardInterrupt / SystemExit looks like to the pipeline"""
    pass


def _modules():
    out = []
    for m in MODULES:
        try:
            out.append(importlib.import_module(m))
        except Exception:
            pass
    return out


def candidates():
    """function object -> list of (module, attribute name) under which pipeline modules look it up"""
    table = {}
    for mod in _modules():
        for name, f in list(vars(mod).items()):
            if not isinstance(f, types.FunctionType):
                continue
            fm = getattr(f, "__module__", "") or ""
            if not fm.startswith("pandapower") or name in EXCLUDE or f.__name__ in EXCLUDE:
                continue
            table.setdefault(f, []).append((mod, name))
    return table


class Patch:
    """wrap every candidate function; mode 'count' records call counts and order, mode 'inject' raises at
    (function key, call number, when)"""

    def __init__(self, target=None, exc=InjectedFault):
        self.target = target          # (key, call_no, 'before'|'after') or None
        self.exc = exc
        self.calls = {}               # key -> count
        self.order = []               # keys in first-call order
        self.fired = None
        self._saved = []
        self.depth_cleanup = 0

    @staticmethod
    def key(f):
        return "%s.%s" % (f.__module__, f.__qualname__)

    def __enter__(self):
        for f, places in candidates().items():
            k = self.key(f)
            w = self._wrap(f, k)
            for mod, name in places:
                self._saved.append((mod, name, f))
                setattr(mod, name, w)
        return self

    def _wrap(self, f, k):
        patch = self

        def w(*a, **kw):
            n = patch.calls.get(k, 0) + 1
            patch.calls[k] = n
            if n == 1:
                patch.order.append(k)
            t = patch.target
            if t is not None and patch.fired is None and t[0] == k and t[1] == n and t[2] == "before":
                patch.fired = (k, n, "before")
                raise patch.exc("injected before %s call %d" % (k, n))
            r = f(*a, **kw)
            if t is not None and patch.fired is None and t[0] == k and t[1] == n and t[2] == "after":
                patch.fired = (k, n, "after")
                raise patch.exc("injected after %s call %d" % (k, n))
            return r
        w.__wrapped__ = f
        w.__name__ = getattr(f, "__name__", "w")
        return w

    def __exit__(self, *a):
        for mod, name, f in self._saved:
            setattr(mod, name, f)
        self._saved = []


class LineInjector:
    """raise `exc` at the k-th 'line' event in frames of /repo/pandapower files (k=None: only count).
    Events are not counted while _clean_up is on the stack; `double_fault` tells whether the injection point lies inside
    an except block (a fault while another one is being handled).  Records the function stack at the injection point."""

    def __init__(self, k=None, exc=InjectedFault, skip_names=("_clean_up",)):
        self.k, self.exc = k, exc
        self.count = 0
        self.fired_at = None
        self.stack = None
        self.skip = set(skip_names)
        self.double_fault = False
        self.in_skip = 0

    def _local(self, frame, event, arg):
        if event != "line" or self.fired_at is not None:
            return self._local
        self.count += 1
        if self.k is not None and self.count == self.k:
            # an exception is being handled right now (we are inside an except block): a fault here is a double fault
            self.double_fault = sys.exc_info()[0] is not None
            self.fired_at = (frame.f_code.co_filename[len(REPO_PP):], frame.f_lineno, frame.f_code.co_name)
            st, f = [], frame
            while f is not None:
                if f.f_code.co_filename.startswith(REPO_PP):
                    st.append(f.f_code.co_name)
                f = f.f_back
            self.stack = st
            raise self.exc("injected at line event %d (%s:%d in %s)" % ((self.k,) + self.fired_at))
        return self._local

    def _global(self, frame, event, arg):
        if event != "call":
            return None
        co = frame.f_code
        if not co.co_filename.startswith(REPO_PP):
            return None
        if co.co_name in self.skip:
            return None      # neither this frame nor (for counting purposes) its pandapower callees: see below
        # callees of a skipped frame: walk up (cheap: cleanup is shallow)
        f = frame.f_back
        d = 0
        while f is not None and d < 6:
            if f.f_code.co_name in self.skip and f.f_code.co_filename.startswith(REPO_PP):
                return None
            f = f.f_back
            d += 1
        return self._local

    def __enter__(self):
        self._old = sys.gettrace()
        sys.settrace(self._global)
        return self

    def __exit__(self, *a):
        sys.settrace(self._old)
