"""C12 helper: derive the dependency table deps(element, variable) -> cached ppc parts MECHANICALLY from the real code.

Two independent derivations on one fixed test net that has rows in every element table of the Coq `domain`:
 (1) access trace  - pandas column reads on the net's element tables during pd2ppc._pd2ppc, attributed to the innermost
                     enclosing ppc build function (FUNC_PART maps build function -> parts);
 (2) perturbation  - change one cell, rebuild the ppc with a fresh _pd2ppc, diff the power-flow-relevant ppc columns.
Plus: which build functions run in a recycled power flow for each of the 8 recycle flag combinations.
Nothing here knows the Coq table; harness/props/c12.py compares."""
import sys, warnings, copy
import numpy as np, pandas as pd
import pandapower as pp
from pandapower.pd2ppc import _pd2ppc
from pandapower.pypower.idx_bus import BUS_I, BUS_TYPE, PD, QD, GS, BS, VM, VA, CID_P, CZD_P, CID_Q, CZD_Q
from pandapower.pypower.idx_gen import GEN_BUS, PG, QG, QMAX, QMIN, VG, GEN_STATUS
from pandapower.pypower.idx_brch import (F_BUS, T_BUS, BR_R, BR_X, BR_B, TAP, SHIFT, BR_STATUS, BR_R_ASYM, BR_X_ASYM, BR_G,
                                         BR_G_ASYM, BR_B_ASYM)

ELEMS = ["load", "sgen", "storage", "gen", "ext_grid", "trafo", "trafo3w", "line", "shunt", "ward", "impedance", "bus", "switch"]
BASE_PARTS = ["PBusPQ", "PGen", "PBrTrafo", "PBrLine", "PBrOther", "PShunt", "PTopo"]
ALLP = tuple(BASE_PARTS)
BRANCH_TOPO = ("PBrTrafo", "PBrLine", "PBrOther", "PTopo")

# ---- the ONLY hand-written piece: ppc build function -> the ppc parts it writes (over-approximated for the shared
# bus / in-service / switch stages whose output every later builder reads through ppc["bus"], the bus lookup or
# net._is_elements).  The access trace is only used as a superset witness, so over-approximation is sound.
FUNC_PART = {
    "_select_is_elements_numba": ALLP,            # in_service of every table -> net._is_elements, read by every builder
    "_build_bus_ppc": ALLP,                       # bus rows, BASE_KV, bus lookup (fusing by switches, aux buses): read by every builder
    "_calc_pq_elements_and_add_on_ppc": ("PBusPQ",),
    "_calc_shunts_and_add_on_ppc": ("PShunt",),
    "_build_gen_ppc": ("PGen", "PTopo"),          # gen rows, VM/VA setpoints, bus types REF/PV
    "_calc_line_parameter": ("PBrLine", "PTopo"),           # the builders write F_BUS/T_BUS/BR_STATUS, too
    "_calc_trafo_parameter": ("PBrTrafo", "PTopo"),
    "_calc_trafo3w_parameter": ("PBrTrafo", "PTopo"),
    "_calc_impedance_parameter": ("PBrOther", "PTopo"),
    "_calc_xward_parameter": ("PBrOther", "PTopo"),
    "_calc_switch_parameter": ("PBrOther", "PTopo"),
    "_initialize_branch_lookup": BRANCH_TOPO,
    "_build_branch_ppc": BRANCH_TOPO,
    "_switch_branches": BRANCH_TOPO,              # open switches: aux buses, BR_STATUS of the switched branch
    "_branches_with_oos_buses": BRANCH_TOPO,
    "_check_connectivity": ("PTopo",),
    "_set_isolated_buses_out_of_service": ("PTopo",),
}
# for the recycled power flow: which function (re)builds which part; a part counts as rebuilt when every one of its
# builders that runs in a full _pd2ppc runs in the recycled power flow
REBUILDER = {
    "_calc_pq_elements_and_add_on_ppc": "PBusPQ", "_calc_shunts_and_add_on_ppc": "PShunt", "_build_gen_ppc": "PGen",
    "_calc_line_parameter": "PBrLine", "_calc_trafo_parameter": "PBrTrafo", "_calc_trafo3w_parameter": "PBrTrafo",
    "_calc_impedance_parameter": "PBrOther", "_calc_switch_parameter": "PBrOther",
    "_build_bus_ppc": "PTopo", "_switch_branches": "PTopo", "_branches_with_oos_buses": "PTopo", "_check_connectivity": "PTopo",
    "makeYbus": "PYbus", "makeSbus": "PSbus",
}
PF_KW = dict(calculate_voltage_angles=True, init="flat", numba=False, check_connectivity=True)


# ---------------------------------------------------------------- the test net
def full_net():
    """fixed net with >= 2 rows in every element table of the domain; every gen / ext_grid sits on a ring so that no single
    outage isolates it"""
    net = pp.create_empty_network()
    h = [pp.create_bus(net, 110.) for _ in range(4)]
    m = [pp.create_bus(net, 20.) for _ in range(10)]
    l = [pp.create_bus(net, 10.) for _ in range(6)]
    x = [pp.create_bus(net, 20.) for _ in range(2)]
    pp.create_ext_grid(net, h[0], vm_pu=1.02, va_degree=0.5)
    pp.create_ext_grid(net, h[2], vm_pu=1.02, va_degree=0.25)
    for a, b, km in ((0, 1, 12.), (1, 2, 9.), (2, 3, 14.), (3, 0, 11.)):
        pp.create_line(net, h[a], h[b], km, "149-AL1/24-ST1A 110.0")
    for k in range(10):
        pp.create_line(net, m[k], m[(k + 1) % 10], 1.5 + 0.25 * k, "NA2XS2Y 1x240 RM/25 12/20 kV")
    pp.create_line(net, m[2], m[7], 3.25, "NA2XS2Y 1x240 RM/25 12/20 kV", parallel=2)
    for k in range(6):
        pp.create_line(net, l[k], l[(k + 1) % 6], 0.5 + 0.125 * k, "NA2XS2Y 1x240 RM/25 6/10 kV")
    net.line["g_us_per_km"] = [0.5 + 0.25 * (k % 3) for k in range(len(net.line))]
    net.line["df"] = 0.875
    pp.create_transformer(net, h[1], m[0], "25 MVA 110/20 kV", tap_pos=1)
    pp.create_transformer(net, h[1], m[0], "25 MVA 110/20 kV", tap_pos=1, parallel=2)
    pp.create_transformer(net, h[3], m[5], "40 MVA 110/20 kV", tap_pos=-1)
    pp.create_transformer(net, h[3], m[5], "40 MVA 110/20 kV", tap_pos=2)
    pp.create_transformer(net, h[2], m[8], "25 MVA 110/20 kV", tap_pos=1)
    pp.create_transformer(net, h[0], m[9], "25 MVA 110/20 kV", tap_pos=1)
    net.trafo["shift_degree"] = 0.0
    net.trafo["tap_step_degree"] = [0.25, 0.25, 0.0, 0.25, 0.5, 0.0]
    net.trafo.loc[2, "tap_changer_type"] = "Ideal"            # ideal phase shifter given by tap_step_percent
    net.trafo.loc[3, "tap_changer_type"] = "Symmetrical"
    net.trafo.loc[4, "tap_changer_type"] = "Ideal"            # ideal phase shifter given by tap_step_degree
    net.trafo.loc[4, "tap_step_percent"] = 0.0
    net.trafo["df"] = 0.875
    # transformer 5 takes its ratio / vk / vkr from the characteristic table (two characteristics to switch between)
    net["trafo_characteristic_table"] = pd.DataFrame(
        {"id_characteristic": [0] * 5 + [1] * 5, "step": [-2, -1, 0, 1, 2] * 2,
         "voltage_ratio": [0.95, 0.975, 1, 1.025, 1.05, 0.96, 0.98, 1, 1.02, 1.04], "angle_deg": [0.] * 5 + [-0.5, -0.25, 0, 0.25, 0.5],
         "vk_percent": [11.5, 11.8, 12, 12.2, 12.5, 11., 11.5, 12, 12.5, 13.], "vkr_percent": [0.40, 0.41, 0.42, 0.43, 0.44] * 2,
         "vk_hv_percent": np.nan, "vkr_hv_percent": np.nan, "vk_mv_percent": np.nan, "vkr_mv_percent": np.nan,
         "vk_lv_percent": np.nan, "vkr_lv_percent": np.nan})
    net.trafo["id_characteristic_table"] = pd.array([pd.NA] * 5 + [0], dtype="Int64")
    net.trafo["tap_dependency_table"] = [False] * 5 + [True]
    pp.create_transformer3w(net, h[1], m[2], l[0], "63/25/38 MVA 110/20/10 kV", tap_pos=1)
    pp.create_transformer3w(net, h[3], m[7], l[3], "63/25/38 MVA 110/20/10 kV", tap_pos=-1)
    pp.create_transformer3w(net, h[2], m[4], l[5], "63/25/38 MVA 110/20/10 kV", tap_pos=1)
    net.trafo3w.loc[0, "tap_at_star_point"] = True
    net.trafo3w["tap_step_degree"] = [0.25, 0.0, 0.0]
    net.trafo3w.loc[1, "tap_changer_type"] = "Ideal"
    net.trafo3w["shift_mv_degree"] = 0.0
    net.trafo3w["shift_lv_degree"] = 0.0
    # 3W transformer 2 takes ratio / vk / vkr from the characteristic table (ids 2 and 3)
    t3c = pd.DataFrame({"id_characteristic": [2] * 5 + [3] * 5, "step": [-2, -1, 0, 1, 2] * 2,
                        "voltage_ratio": [0.97, 0.985, 1, 1.015, 1.03, 0.96, 0.98, 1, 1.02, 1.04], "angle_deg": [0.] * 5 + [-0.5, -0.25, 0, 0.25, 0.5],
                        "vk_hv_percent": [10.2, 10.3, 10.4, 10.5, 10.6, 10., 10.2, 10.4, 10.6, 10.8], "vkr_hv_percent": [0.27, 0.275, 0.28, 0.285, 0.29] * 2,
                        "vk_mv_percent": [10.3, 10.35, 10.4, 10.45, 10.5] * 2, "vkr_mv_percent": [0.31, 0.315, 0.32, 0.325, 0.33] * 2,
                        "vk_lv_percent": [10.3, 10.35, 10.4, 10.45, 10.5] * 2, "vkr_lv_percent": [0.34, 0.345, 0.35, 0.355, 0.36] * 2})
    net["trafo_characteristic_table"] = pd.concat([net["trafo_characteristic_table"], t3c], ignore_index=True)
    net.trafo3w["id_characteristic_table"] = pd.array([pd.NA, pd.NA, 2], dtype="Int64")
    net.trafo3w["tap_dependency_table"] = [False, False, True]
    pp.create_impedance(net, m[1], m[6], 0.011, 0.021, 25., rtf_pu=0.012, xtf_pu=0.022, gf_pu=0.001, bf_pu=0.002, gt_pu=0.0015, bt_pu=0.0025)
    pp.create_impedance(net, m[3], m[8], 0.013, 0.023, 30.)
    for k, (b, p, q) in enumerate(((m[1], 2.0, 0.5), (m[3], 1.5, 0.25), (m[6], 2.5, 0.75), (m[8], 1.0, 0.5), (l[1], 1.25, 0.25),
                                   (l[4], 0.75, 0.125), (x[0], 0.5, 0.125), (x[1], 0.25, 0.125))):
        pp.create_load(net, b, p, q, scaling=1.0 - 0.125 * (k % 2), sn_mva=3.0 + k,
                       const_z_p_percent=10. * (k % 3), const_i_p_percent=5. * (k % 2) + 5, const_z_q_percent=8. * (k % 3) + 2, const_i_q_percent=4. + k)
    net.load.loc[3, "in_service"] = False
    pp.create_sgen(net, m[4], 1.0, 0.25, sn_mva=2.0, scaling=0.75, min_q_mvar=-0.5, max_q_mvar=0.5)
    pp.create_sgen(net, l[5], 0.5, 0.125, sn_mva=1.0, min_q_mvar=-0.25, max_q_mvar=0.25)
    pp.create_storage(net, m[9], 0.5, 1.0, q_mvar=0.125, sn_mva=1.0, scaling=0.875)
    pp.create_storage(net, l[2], -0.25, 1.0, q_mvar=0.0625, sn_mva=0.5)
    pp.create_gen(net, m[4], 2.0, vm_pu=1.01, sn_mva=5., min_q_mvar=-2., max_q_mvar=2., scaling=0.875)
    pp.create_gen(net, l[2], 1.0, vm_pu=1.005, sn_mva=3., min_q_mvar=-1., max_q_mvar=1.)
    pp.create_shunt(net, m[3], q_mvar=0.5, p_mw=0.125, step=2, max_step=3, vn_kv=20.5)
    pp.create_shunt(net, l[4], q_mvar=-0.25, p_mw=0.0625, step=1, max_step=2)
    pp.create_ward(net, m[8], 0.125, 0.0625, 0.25, 0.125)
    pp.create_ward(net, l[1], 0.0625, 0.03125, 0.125, 0.0625)
    pp.create_switch(net, m[0], 4, "l", closed=True)          # line m0-m1
    pp.create_switch(net, m[9], 13, "l", closed=False)        # line m9-m0 open at m9: the ring stays connected
    pp.create_switch(net, h[1], 0, "t", closed=True)
    pp.create_switch(net, h[3], 1, "t3", closed=True)
    pp.create_switch(net, m[2], x[0], "b", closed=True)       # fused buses
    pp.create_switch(net, m[5], x[1], "b", closed=True, z_ohm=0.05)   # bus-bus switch with an impedance: a branch row
    return net


def reset_lookups(net):
    # what powerflow._powerflow does before _pd2ppc
    net._pd2ppc_lookups = {"bus": np.array([], dtype=np.int64), "bus_dc": np.array([], dtype=np.int64),
                           "ext_grid": np.array([], dtype=np.int64), "gen": np.array([], dtype=np.int64),
                           "branch": np.array([], dtype=np.int64), "branch_dc": np.array([], dtype=np.int64)}


def fresh_ppc(net):
    reset_lookups(net)
    ppc, ppci = _pd2ppc(net)
    return ppc, ppci


# ---------------------------------------------------------------- (2) perturbation
# Columns of the ppc that the Newton-Raphson power flow reads (everything else - RATE_A, BASE_KV, limits, results columns -
# only feeds result extraction / OPF):  makeYbus: bus GS BS, branch F_BUS T_BUS BR_STATUS BR_R BR_X BR_B BR_G TAP SHIFT and the
# *_ASYM columns;  makeSbus: bus PD QD (+ CID/CZD with voltage dependent loads), gen GEN_BUS GEN_STATUS PG QG;
# bustypes / _get_pf_variables_from_ppci: bus BUS_TYPE VM VA, gen VG GEN_STATUS GEN_BUS;  enforce_q_lims: gen QMIN QMAX.
BUS_PQ_COLS = [PD, QD, CID_P, CZD_P, CID_Q, CZD_Q]
BUS_SH_COLS = [GS, BS]
BUS_V_COLS = [VM, VA]
GEN_COLS = [GEN_BUS, PG, QG, QMAX, QMIN, VG, GEN_STATUS]
BR_PAR_COLS = [BR_R, BR_X, BR_B, BR_G, TAP, SHIFT, BR_R_ASYM, BR_X_ASYM, BR_G_ASYM, BR_B_ASYM, BR_STATUS]
BR_TOPO_COLS = [F_BUS, T_BUS, BR_STATUS]
BR_RANGE_PART = {"line": "PBrLine", "trafo": "PBrTrafo", "trafo3w": "PBrTrafo", "impedance": "PBrOther", "xward": "PBrOther",
                 "switch": "PBrOther"}


def snapshot(net, ppc, ppci):
    lk = np.array(net._pd2ppc_lookups["bus"]).copy()
    bidx = net.bus.index.values
    rows = lk[bidx]
    bus = ppc["bus"]
    snap = {
        "PBusPQ": bus[rows][:, BUS_PQ_COLS].copy(),
        "PShunt": bus[rows][:, BUS_SH_COLS].copy(),
        "PGen": (ppc["gen"][:, GEN_COLS].copy(), bus[rows][:, BUS_V_COLS].copy()),
        "PTopo": (lk, bus[:, [BUS_I, BUS_TYPE]].copy(), ppc["branch"][:, BR_TOPO_COLS].copy(), ppci["bus"].shape[0],
                  ppci["branch"].shape[0], ppci["gen"].shape[0]),
    }
    br = {}
    for name, (f, t) in net._pd2ppc_lookups["branch"].items():
        part = BR_RANGE_PART.get(name)
        if part is not None:
            br.setdefault(part, []).append(ppc["branch"][f:t][:, BR_PAR_COLS].copy())
    for p in ("PBrLine", "PBrTrafo", "PBrOther"):
        snap[p] = br.get(p, [])
    return snap


def _same(a, b):
    if isinstance(a, (tuple, list)):
        return len(a) == len(b) and all(_same(x, y) for x, y in zip(a, b))
    if isinstance(a, np.ndarray):
        return a.shape == b.shape and bool(np.array_equal(a, b, equal_nan=True))
    return a == b


def diff_parts(s0, s1):
    return [p for p in BASE_PARTS if not _same(s0[p], s1[p])]


BUSREF = {"bus", "hv_bus", "mv_bus", "lv_bus", "from_bus", "to_bus"}
STR_ALT = {"tap_side": ["hv", "mv", "lv"], "tap_changer_type": ["Ratio", "Symmetrical", "Ideal"], "et": ["l", "t", "t3", "b"]}


def alternatives(net, e, c, i):
    """perturbed values for the cell net[e].at[i, c] (values that change the physics where the column means anything)"""
    col = net[e][c]
    v = col.at[i]
    if e == "switch" and c == "element":
        return [int(v) + 1]
    if c in BUSREF and e != "bus":
        vn = net.bus.vn_kv
        same = [b for b in net.bus.index if b != v and vn.at[b] == vn.at[v]]
        other = [b for b in net.bus.index if vn.at[b] != vn.at[v]]
        return [same[(int(v) + 3) % len(same)]] + other[:1]
    if c in STR_ALT:
        return [a for a in STR_ALT[c] if a != v and not (a == "mv" and e != "trafo3w")]
    if col.dtype == bool or isinstance(v, (bool, np.bool_)):
        return [not bool(v)]
    if pd.api.types.is_integer_dtype(col.dtype):
        return [0 if e == "trafo" else 2] if v is pd.NA else [int(v) + 1]
    if pd.api.types.is_float_dtype(col.dtype):
        if v != v:
            return [1.0]
        return [float(v) * 1.37 if v != 0 else 0.37]
    if v is None or v is pd.NA or (isinstance(v, float) and v != v):
        return [1.0, "x"]
    if isinstance(v, str):
        return [v + "x"]
    return []


def _rows(base, read, cap=8):
    idx = list(base.index)
    if not read:
        return idx[:1]            # a column no code reads during _pd2ppc (access trace): one probe is enough
    if len(idx) <= cap:
        return idx
    return sorted({idx[round(k * (len(idx) - 1) / (cap - 1))] for k in range(cap)})


def _probe_value(net, c):
    """value for a column that the table does not have (a ConstControl writing it would create the column): typed like the
    column of the same name in another element table, else a float"""
    for e in ELEMS:
        if c in net[e].columns and len(net[e]):
            v = net[e][c].iloc[0]
            if isinstance(v, (bool, np.bool_)):
                return [True, False]
            if isinstance(v, str):
                return [v]
            if isinstance(v, (int, np.integer)):
                return [int(v) + 1]
    return [1.37]


def perturbation_table(net, reads, extra_pairs=()):
    """{(element, column): list of parts} for every column of the 13 element tables (union over the probed rows and all
    alternative values) and for every pair of extra_pairs whose column does not exist (the column is created);
    errors / tried: {(element, column): n} perturbed nets that pd2ppc rejected / converted"""
    ppc, ppci = fresh_ppc(net)
    s0 = snapshot(net, ppc, ppci)
    table, errors, tried = {}, {}, {}

    def probe(e, c, df, base):
        net[e] = df
        try:
            with warnings.catch_warnings():
                warnings.simplefilter("ignore")
                p1, pi1 = fresh_ppc(net)
            tried[(e, c)] = tried.get((e, c), 0) + 1
            return diff_parts(s0, snapshot(net, p1, pi1))
        except Exception:
            errors[(e, c)] = errors.get((e, c), 0) + 1
            return []
        finally:
            net[e] = base

    for e in ELEMS:
        base = net[e]
        for c in base.columns:
            parts = set()
            for i in _rows(base, (e, c) in reads):
                for new in alternatives(net, e, c, i):
                    df = base.copy()
                    with warnings.catch_warnings():
                        warnings.simplefilter("ignore")
                        if df[c].dtype != object and not isinstance(new, (bool, np.bool_, int, float)):
                            df[c] = df[c].astype(object)
                        df.at[i, c] = new
                    parts.update(probe(e, c, df, base))
            table[(e, c)] = [p for p in BASE_PARTS if p in parts]
    for (e, c) in extra_pairs:
        if (e, c) in table or e not in ELEMS:
            continue
        base = net[e]
        parts = set()
        for new in _probe_value(net, c):
            df = base.copy()
            df[c] = new
            parts.update(probe(e, c, df, base))
        table[(e, c)] = [p for p in BASE_PARTS if p in parts]
    fresh_ppc(net)
    return table, errors, tried


# ---------------------------------------------------------------- (1) access trace
class AccessTrace:
    """records (element, column, build function) for every pandas column read on the net's element tables (and on frames
    derived from them by row selection / copy) while active"""

    def __init__(self, net):
        self.reg = {}          # id(frame) -> (element, frame)  (the reference keeps the id alive)
        for e in ELEMS:
            self.reg[id(net[e])] = (e, net[e])
        self.reads = {}        # (element, column) -> set of function names
        self.funcs = set()
        self._saved = []

    def _where(self):
        f = sys._getframe(2)
        first = None
        while f is not None:
            fn = f.f_code.co_filename
            if "/pandapower/" in fn:
                name = f.f_code.co_name
                if first is None:
                    first = name
                if name in FUNC_PART:
                    return name
            f = f.f_back
        return "other:%s" % first

    def _rec(self, frame, cols):
        ent = self.reg.get(id(frame))
        if ent is None:
            return
        e = ent[0]
        if cols is None:
            cols = list(frame.columns)
        w = self._where()
        for c in cols:
            if isinstance(c, str):
                self.reads.setdefault((e, c), set()).add(w)

    def _derive(self, frame, res):
        ent = self.reg.get(id(frame))
        if ent is not None and isinstance(res, pd.DataFrame) and id(res) not in self.reg:
            self.reg[id(res)] = (ent[0], res)

    @staticmethod
    def _cols_of(key, frame):
        """column labels named by a __getitem__ key; [] = a row selection"""
        if isinstance(key, str):
            return [key]
        if isinstance(key, (list, tuple, pd.Index)) and len(key) and all(isinstance(k, str) for k in key):
            return list(key)
        return []

    def __enter__(self):
        T = self
        DF = pd.DataFrame
        from pandas.core import indexing as ix

        def patch(owner, name, new):
            T._saved.append((owner, name, owner.__dict__[name]))
            setattr(owner, name, new)

        o_get = DF.__getitem__

        def getitem(self, key):
            if id(self) in T.reg:
                T._rec(self, T._cols_of(key, self))
            res = o_get(self, key)
            T._derive(self, res)
            return res
        patch(DF, "__getitem__", getitem)

        def idx_getitem(orig):
            def g(self, key):
                obj = self.obj
                if isinstance(obj, DF) and id(obj) in T.reg:
                    if isinstance(key, tuple) and len(key) == 2:
                        c = key[1]
                        cols = [c] if isinstance(c, str) else (list(c) if isinstance(c, (list, pd.Index, np.ndarray)) and all(isinstance(k, str) for k in c) else None)
                        T._rec(obj, cols)
                    else:
                        T._rec(obj, None)
                res = orig(self, key)
                if isinstance(obj, DF):
                    T._derive(obj, res)
                return res
            return g
        for cls in (ix._LocationIndexer, ix._ScalarAccessIndexer):
            patch(cls, "__getitem__", idx_getitem(cls.__dict__["__getitem__"]))

        def whole(orig):
            def g(self, *a, **k):
                if id(self) in T.reg:
                    T._rec(self, None)
                return orig(self, *a, **k)
            return g
        for name in ("to_numpy", "itertuples", "iterrows", "to_dict", "items", "query", "groupby", "sort_values", "apply", "isin", "merge", "join"):
            patch(DF, name, whole(DF.__dict__[name]))
        o_values = DF.__dict__["values"]

        def values(self):
            if id(self) in T.reg:
                T._rec(self, None)
            return o_values.fget(self)
        patch(DF, "values", property(values))

        def deriving(orig):
            def g(self, *a, **k):
                res = orig(self, *a, **k)
                T._derive(self, res)
                return res
            return g
        for name in ("copy", "reindex", "drop", "reset_index"):
            owner = DF if name in DF.__dict__ else pd.core.generic.NDFrame
            patch(owner, name, deriving(owner.__dict__[name]))
        return self

    def __exit__(self, *exc):
        for owner, name, old in reversed(self._saved):
            setattr(owner, name, old)
        self._saved = []
        return False


def access_trace(net):
    """{(element, column): set(build functions)} of one full _pd2ppc"""
    fresh_ppc(net)
    tr = AccessTrace(net)
    with tr:
        with warnings.catch_warnings():
            warnings.simplefilter("ignore")
            fresh_ppc(net)
    return tr.reads


def trace_parts(fs):
    out = set()
    for f in fs:
        out.update(FUNC_PART.get(f, ()))
    return out


# ---------------------------------------------------------------- recycled power flow: which builders run
class CallTrace:
    def __init__(self, names):
        self.names = set(names)
        self.called = set()

    def __enter__(self):
        def prof(frame, event, arg):
            if event == "call":
                n = frame.f_code.co_name
                if n in self.names and "/pandapower/" in frame.f_code.co_filename:
                    if n in ("makeSbus", "makeYbus"):
                        # only the (re)build before the iteration counts: _get_Sbus / _get_Y_bus decide whether the cached
                        # matrix is reused (newtonpf / pfsoln call makeSbus again for voltage dependent loads)
                        back = frame.f_back
                        if back is None or back.f_code.co_name not in ("_get_Sbus", "_get_Y_bus"):
                            return
                    self.called.add(n)
        self._old = sys.getprofile()
        sys.setprofile(prof)
        return self

    def __exit__(self, *exc):
        sys.setprofile(self._old)
        return False


def rebuilt_by_flags(net):
    """{(trafo, gen, bus_pq): {part: bool}}: parts whose every builder runs in runpp(recycle=flags) on stored internals;
    also returns the builders seen in the full run"""
    names = set(REBUILDER) | {"_recycled_powerflow", "_pd2ppc"}
    with warnings.catch_warnings():
        warnings.simplefilter("ignore")
        with CallTrace(names) as full:
            pp.runpp(net, **PF_KW)
        builders = {}
        for f in full.called:
            if f in REBUILDER:
                builders.setdefault(REBUILDER[f], set()).add(f)
        out = {}
        for t in (False, True):
            for g in (False, True):
                for b in (False, True):
                    pp.runpp(net, **PF_KW)
                    with CallTrace(names) as ct:
                        pp.runpp(net, recycle=dict(trafo=t, gen=g, bus_pq=b), **PF_KW)
                    out[(t, g, b)] = {"recycled": "_recycled_powerflow" in ct.called and "_pd2ppc" not in ct.called,
                                      "parts": {p: fs <= ct.called for p, fs in builders.items()}, "called": sorted(ct.called)}
        pp.runpp(net, **PF_KW)
    return out, {p: sorted(fs) for p, fs in builders.items()}
