"""C06 helpers: correspondence of the three pfsoln variants / their selection guard (C06.Pfsoln) and of the bfsw phase-shift
post-rotation (C06.Shift) with the real code.

pfsoln: the real `_get_numba_functions` is wrapped (module attribute of pandapower.pf.run_newton_raphson_pf) and records
for every call the ppci facts it looks at, what it returns and (once the solution is stored) the arrays the returned
function is applied to.  The three real functions are then called directly on short-dyadic roundings of these arrays
(they are pure functions of their arguments), so that the comparison with the exact rational model is tight.
"""
import copy
from fractions import Fraction
import numpy as np
import pandapower as pp
from scipy.sparse import csr_matrix, csgraph
from vf import coqrun as cq

_sel = {"on": False, "calls": []}


def install_select_wrapper():
    import pandapower.pf.run_newton_raphson_pf as m
    if getattr(m, "_c06sel", False):
        return
    orig = m._get_numba_functions

    def wrapped(ppci, options):
        r = orig(ppci, options)
        if _sel["on"]:
            from pandapower.pypower.idx_bus import GS, BS
            it = ppci["internal"]
            rec = {"numba": bool(options["numba"] and m.numba_installed), "ngen": int(ppci["gen"].shape[0]),
                   "vdl": bool(options["voltage_depend_loads"]), "dist": bool(options["distributed_slack"]),
                   "gs": ppci["bus"][:, GS].real.copy(), "bs": ppci["bus"][:, BS].real.copy(),
                   "impl": r[1].__name__ + "@" + r[1].__module__.split(".")[-1]}
            if "V" in it and getattr(it.get("Yf", None), "shape", (0,))[0] == it["branch"].shape[0] and len(it["V"]) == it["bus"].shape[0]:
                rec["arrays"] = {k: copy.deepcopy(it[k]) for k in ("baseMVA", "bus", "gen", "branch", "svc", "tcsc", "ssc", "vsc",
                                                                   "Ybus", "Yf", "Yt", "V", "ref", "ref_gens")}
            _sel["calls"].append(rec)
        return r
    m._get_numba_functions, m._c06sel = wrapped, True


IMPL_NAME = {"pfsoln@pfsoln": "pfsoln_pypower", "pfsoln@pfsoln_numba": "pfsoln_numba",
             "pf_solution_single_slack@pfsoln_numba": "pf_solution_single_slack"}


def _rnd(x, bits):
    return np.round(np.asarray(x, dtype=float) * (1 << bits)) / (1 << bits)


def _crnd(z, bits):
    z = np.asarray(z, dtype=complex)
    return _rnd(z.real, bits) + 1j * _rnd(z.imag, bits)


def cterm(z):
    return "(mkC %s %s)" % (cq.q(float(np.real(z))), cq.q(float(np.imag(z))))


def busrow_term(pd, qd, gs, bs, cip=0.0, czp=0.0, ciq=0.0, czq=0.0):
    return "{| pd := %s; qd := %s; gs := %s; bs := %s; ci_p := %s; cz_p := %s; ci_q := %s; cz_q := %s |}" % tuple(
        cq.q(float(x)) for x in (pd, qd, gs, bs, cip, czp, ciq, czq))


def rounded_problem(arr):
    """short-dyadic copy of the captured arrays with Ybus rebuilt as Cf.T*Yf + Ct.T*Yt + diag(Ysh) (makeYbus.py:63-64)"""
    from pandapower.pypower.idx_bus import PD, QD, GS, BS, CID_P, CZD_P, CID_Q, CZD_Q
    from pandapower.pypower.idx_brch import F_BUS, T_BUS
    bus, gen, branch = arr["bus"].copy(), arr["gen"].copy(), arr["branch"].copy()
    base = float(arr["baseMVA"])
    nb_, nl = bus.shape[0], branch.shape[0]
    for c in (PD, QD, GS, BS, CID_P, CZD_P, CID_Q, CZD_Q):
        bus[:, c] = _rnd(bus[:, c].real, 16)
    V = _crnd(arr["V"], 20)
    f = branch[:, F_BUS].real.astype(np.int64)
    t = branch[:, T_BUS].real.astype(np.int64)
    Yf0, Yt0 = csr_matrix(arr["Yf"]).toarray(), csr_matrix(arr["Yt"]).toarray()
    rows = []
    for k in range(nl):
        if f[k] == t[k]:
            return None
        rows.append([_crnd(Yf0[k, f[k]], 14), _crnd(Yf0[k, t[k]], 14), _crnd(Yt0[k, f[k]], 14), _crnd(Yt0[k, t[k]], 14)])
    rows = np.array(rows, dtype=complex).reshape(nl, 4)
    i = np.hstack([np.arange(nl), np.arange(nl)])
    Yf = csr_matrix((np.hstack([rows[:, 0], rows[:, 1]]), (i, np.hstack([f, t]))), (nl, nb_))
    Yt = csr_matrix((np.hstack([rows[:, 2], rows[:, 3]]), (i, np.hstack([f, t]))), (nl, nb_))
    Cf = csr_matrix((np.ones(nl), (range(nl), f)), (nl, nb_))
    Ct = csr_matrix((np.ones(nl), (range(nl), t)), (nl, nb_))
    Ysh = (bus[:, GS] + 1j * bus[:, BS]) / base
    Ybus = Cf.T * Yf + Ct.T * Yt + csr_matrix((Ysh, (range(nb_), range(nb_))), (nb_, nb_))
    return {"base": base, "bus": bus, "gen": gen, "branch": branch, "V": V, "f": f, "t": t, "y": rows, "Yf": Yf, "Yt": Yt,
            "Ybus": Ybus, "ref": arr["ref"], "ref_gens": arr["ref_gens"], "svc": arr["svc"], "tcsc": arr["tcsc"], "ssc": arr["ssc"],
            "vsc": arr["vsc"]}


def ybus_structure_error(arr):
    """max |Ybus - (Cf.T*Yf + Ct.T*Yt + diag(Ysh))| on the real (unrounded) matrices"""
    from pandapower.pypower.idx_bus import GS, BS
    from pandapower.pypower.idx_brch import F_BUS, T_BUS
    bus, branch = arr["bus"], arr["branch"]
    nb_, nl = bus.shape[0], branch.shape[0]
    f = branch[:, F_BUS].real.astype(np.int64)
    t = branch[:, T_BUS].real.astype(np.int64)
    Cf = csr_matrix((np.ones(nl), (range(nl), f)), (nl, nb_))
    Ct = csr_matrix((np.ones(nl), (range(nl), t)), (nl, nb_))
    Ysh = (bus[:, GS] + 1j * bus[:, BS]) / float(arr["baseMVA"])
    Y = Cf.T * arr["Yf"] + Ct.T * arr["Yt"] + csr_matrix((Ysh, (range(nb_), range(nb_))), (nb_, nb_))
    d = abs(Y - arr["Ybus"])
    return float(d.max()) if d.nnz else 0.0, float(abs(arr["Ybus"]).max())


def ppc_term(pr, slack):
    from pandapower.pypower.idx_bus import PD, QD, GS, BS, CID_P, CZD_P, CID_Q, CZD_Q
    bus = pr["bus"]
    rows = cq.lst([busrow_term(*(bus[k, c].real for c in (PD, QD, GS, BS, CID_P, CZD_P, CID_Q, CZD_Q))) for k in range(bus.shape[0])])
    brs = cq.lst(["{| b_f := %s; b_t := %s; yff := %s; yft := %s; ytf := %s; ytt := %s |}" % (
        cq.nat(pr["f"][k]), cq.nat(pr["t"][k]), cterm(pr["y"][k, 0]), cterm(pr["y"][k, 1]), cterm(pr["y"][k, 2]), cterm(pr["y"][k, 3]))
        for k in range(len(pr["f"]))])
    V = cq.lst([cterm(v) for v in pr["V"]])
    vm = cq.lst([cq.q(float(abs(v))) for v in pr["V"]])
    return "{| p_base := %s; p_bus := %s; p_br := %s; p_V := %s; p_vm := %s; p_slack := %s |}" % (
        cq.q(pr["base"]), rows, brs, V, vm, cq.nat(slack))


def call_variants(pr, vdl):
    """the three real functions on the rounded problem: {name: (PG, QG, [[PF, QF, PT, QT]...])}"""
    from pandapower.pypower.pfsoln import pfsoln as p1
    from pandapower.pf.pfsoln_numba import pfsoln as p2, pf_solution_single_slack as p3
    from pandapower.pypower.idx_gen import PG, QG
    from pandapower.pypower.idx_brch import PF, QF, PT, QT
    out = {}
    for name, fn in (("VPypower", p1), ("VNumba", p2), ("VSingle", p3)):
        bus, gen, branch = pr["bus"].copy(), pr["gen"].copy(), pr["branch"].copy()
        try:
            bus, gen, branch = fn(pr["base"], bus, gen, branch, pr["svc"], pr["tcsc"], pr["ssc"], pr["vsc"], pr["Ybus"], pr["Yf"], pr["Yt"],
                                  pr["V"].copy(), pr["ref"], pr["ref_gens"], voltage_depend_loads=vdl)
            out[name] = (float(gen[0, PG].real), float(gen[0, QG].real), branch[:, [PF, QF, PT, QT]].real.astype(float).tolist())
        except Exception as e:                                   # pragma: no cover
            out[name] = cq.Err(type(e).__name__)
    return out


# ------------------------------------------------------------------ nets for the selection guard
def pfsoln_net(rng):
    """single ext_grid MV net, optionally with gens / shunts / wards / ZIP loads / a second ext_grid"""
    net = pp.create_empty_network()
    n = rng.randint(2, 5)
    B = [pp.create_bus(net, 20.0) for _ in range(n)]
    pp.create_ext_grid(net, B[0], vm_pu=rng.choice([1.0, 1.02, 1.05]), slack_weight=1.0)
    edges = [(B[rng.randrange(0, i)], B[i]) for i in range(1, n)]
    if n > 2 and rng.random() < 0.4:
        a, b = rng.sample(B, 2)
        if (a, b) not in edges and (b, a) not in edges:
            edges.append((a, b))
    for a, b in edges:
        pp.create_line_from_parameters(net, a, b, length_km=rng.randint(2, 16) / 8, r_ohm_per_km=rng.randint(8, 32) / 64,
                                       x_ohm_per_km=rng.randint(8, 24) / 64, c_nf_per_km=rng.choice([0, 16, 160]), max_i_ka=0.5)
    feat = {"gen": False, "shunt_g": False, "shunt_b": False, "zip": False, "dist": False, "eg2": False}
    r = rng.random()
    if r < 0.15:
        pp.create_gen(net, rng.choice(B[1:]), p_mw=rng.randint(1, 8) / 16, vm_pu=1.02, slack_weight=0.0)
        feat["gen"] = True
    elif r < 0.22:
        pp.create_ext_grid(net, rng.choice(B[1:]), vm_pu=1.0, slack_weight=0.0)
        feat["eg2"] = True
    r = rng.random()
    if r < 0.2:
        pp.create_shunt(net, rng.choice(B), q_mvar=0.0, p_mw=rng.randint(1, 8) / 16)
        feat["shunt_g"] = True
    elif r < 0.35:
        pp.create_shunt(net, rng.choice(B), q_mvar=rng.choice([-4, -2, 2, 4]) / 16, p_mw=0.0)
        feat["shunt_b"] = True
    elif r < 0.45:
        pp.create_ward(net, rng.choice(B), ps_mw=rng.randint(0, 4) / 32, qs_mvar=0.0, pz_mw=rng.randint(1, 8) / 16, qz_mvar=rng.choice([0, 0, 2]) / 16)
        feat["shunt_g"] = True
    for b in B[1:] + ([B[0]] if rng.random() < 0.3 else []):
        if rng.random() < 0.8:
            kw = {}
            if rng.random() < 0.25:
                kw = dict(const_z_p_percent=rng.choice([0, 50, 100]), const_i_p_percent=rng.choice([0, 0, 50]),
                          const_z_q_percent=rng.choice([0, 50, 100]), const_i_q_percent=rng.choice([0, 0, 50]))
                if any(kw.values()):
                    feat["zip"] = True
            pp.create_load(net, b, p_mw=rng.randint(1, 16) / 32, q_mvar=rng.randint(0, 8) / 32, **kw)
    opts = {}
    if rng.random() < 0.15:
        opts["distributed_slack"] = True
        feat["dist"] = True
    if feat["zip"] and rng.random() < 0.3:
        opts["voltage_depend_loads"] = False
    opts["numba"] = rng.random() < 0.8
    opts["lightsim2grid"] = False if rng.random() < 0.7 else "auto"
    return net, feat, opts


# ------------------------------------------------------------------ bfsw phase-shift post-rotation
def install_shift_wrappers(cap):
    import pandapower.pf.run_bfswpf as m
    if getattr(m, "_c06shift", False):
        return
    orig_bf, orig_pfsoln = m._bfswpf, m.pfsoln

    def bf(*a, **kw):
        r = orig_bf(*a, **kw)
        if cap.get("on"):
            cap["V_before"] = np.array(r[0], dtype=complex).copy()           # V_final is rotated in place afterwards
        return r

    def pfs(baseMVA, bus, gen, branch, svc, tcsc, ssc, vsc, Ybus, Yf, Yt, V, ref, ref_gens, *a, **kw):
        if cap.get("on"):
            from pandapower.pypower.idx_brch import F_BUS, T_BUS, SHIFT
            cap["V_after"] = np.array(V, dtype=complex).copy()
            cap["ref"] = [int(x) for x in ref]
            cap["branch_sh"] = branch[:, [F_BUS, T_BUS, SHIFT]].real.astype(float).copy()
        return orig_pfsoln(baseMVA, bus, gen, branch, svc, tcsc, ssc, vsc, Ybus, Yf, Yt, V, ref, ref_gens, *a, **kw)
    m._bfswpf, m.pfsoln, m._c06shift = bf, pfs, True


def shift_case(cap):
    """tree branches (parent, child) in BFS order, shifting branches, observed rotation per bus; None when not applicable"""
    if not all(k in cap for k in ("V_before", "V_after", "branch_sh", "args", "ref")) or len(cap["ref"]) != 1:
        return None
    sh = [(int(f), int(t), float(s)) for f, t, s in cap["branch_sh"] if s != 0]
    if not sh:
        return None
    _, _, G = cap["args"]
    root = cap["ref"][0]
    order, pred = csgraph.breadth_first_order(G, root, directed=False, return_predecessors=True)
    edges = [(int(pred[c]), int(c)) for c in order[1:]]
    with np.errstate(all="ignore"):
        rot = np.degrees(np.angle(cap["V_after"] / cap["V_before"]))
    return {"root": int(root), "edges": edges, "trafos": sh, "obs": {int(b): float(rot[b]) for b in order}}


def guard_g06t(sc):
    E = set(sc["edges"])
    keys = set((f, t) for f, t, _ in sc["trafos"])
    return all((f, t) in E or (t, f) in E for f, t in keys)


def shift_term(sc):
    es = cq.lst(["(%s, %s)" % (cq.nat(p), cq.nat(c)) for p, c in sc["edges"]])
    tr = cq.lst(["(%s, %s, %s)" % (cq.nat(f), cq.nat(t), cq.q(s)) for f, t, s in sc["trafos"]])
    return "run_shift %s %s %s" % (cq.nat(sc["root"]), es, tr)


def ang_close(a, b, tol=1e-6):
    return abs((float(a) - float(b) + 180.0) % 360.0 - 180.0) <= tol


def shiftmesh_net(rng):
    """single island, ext_grid at the first bus row; two transformers with the same phase shift from two different HV buses
    to the LV side, so that one of them closes a loop of the BFS tree"""
    net = pp.create_empty_network()
    slack_hv = rng.random() < 0.6
    hv = [pp.create_bus(net, 110.0) for _ in range(2)] if slack_hv else None
    lv = [pp.create_bus(net, 20.0) for _ in range(rng.randint(1, 2))]
    if hv is None:
        hv = [pp.create_bus(net, 110.0) for _ in range(2)]
    first = hv[0] if slack_hv else lv[0]
    pp.create_ext_grid(net, first, vm_pu=rng.choice([1.0, 1.01]))
    lp = lambda: dict(length_km=rng.randint(2, 16) / 8, r_ohm_per_km=rng.randint(8, 32) / 64, x_ohm_per_km=rng.randint(8, 24) / 64,
                      c_nf_per_km=rng.choice([0, 16]), max_i_ka=0.5)
    pp.create_line_from_parameters(net, hv[0], hv[1], **lp())
    for i in range(1, len(lv)):
        pp.create_line_from_parameters(net, lv[0], lv[i], **lp())
    sh = rng.choice([30.0, 150.0, -30.0, 330.0])
    for h in hv:
        pp.create_transformer_from_parameters(net, h, lv[0], sn_mva=25, vn_hv_kv=110.0, vn_lv_kv=20.0, vkr_percent=0.4, vk_percent=10.0,
                                              pfe_kw=10.0, i0_percent=0.05, shift_degree=sh)
    for b in lv + hv:
        if b != first and rng.random() < 0.8:
            pp.create_load(net, b, p_mw=rng.randint(1, 16) / 16, q_mvar=rng.randint(0, 8) / 32)
    return net, {"islands": 1, "eg_first": True, "chords": 1, "flavor": "shiftmesh", "shift": [sh, sh]}, {"calculate_voltage_angles": True}
