"""C22 helper: drive the real pandapower toolbox on relational test nets, observe key / foreign-key
tables, evaluate the referential-integrity invariant on the real net.

The *relational view* of a net (what `observe` returns and what coq/C22/Model.v models):
  bus      : [[id, in_service]]
  el[kind] : [[id, [bus refs in column order], id_characteristic_table|None, in_service]]
  sw       : [[id, bus, et, element, closed]]
  meas     : [[id, element_type, element, side, measurement_type]]         side: None | str | int(bus)
  pcost / wcost : [[id, et, element]]
  grp      : [[gid, element_type, [members], reference_column|None]]
  ctrl     : [[id, element, [element_index], single]]
  tchar    : [id_characteristic ...]  (trafo_characteristic_table rows)
  res[kind|bus] : [ids]
All lists are in table row order."""
import copy, math
import numpy as np, pandas as pd
import pandapower as pp
import pandapower.toolbox as tb
import pandapower.control as ctl

# element kinds and their bus columns, in the order used everywhere (Coq: ekind)
KINDS = ["load", "sgen", "gen", "ext_grid", "shunt", "ward", "xward", "storage",
         "line", "impedance", "trafo", "trafo3w", "dcline", "svc"]
BUSCOLS = {"load": ["bus"], "sgen": ["bus"], "gen": ["bus"], "ext_grid": ["bus"], "shunt": ["bus"], "ward": ["bus"],
           "xward": ["bus"], "storage": ["bus"], "line": ["from_bus", "to_bus"], "impedance": ["from_bus", "to_bus"],
           "trafo": ["hv_bus", "lv_bus"], "trafo3w": ["hv_bus", "mv_bus", "lv_bus"], "dcline": ["from_bus", "to_bus"],
           "svc": ["bus"]}
SWET = {"b": "bus", "l": "line", "t": "trafo", "t3": "trafo3w"}
GROUP_TYPES = ["bus", "switch"] + KINDS
NAMECOL = "name"


def _i(x):
    return None if x is None or (isinstance(x, float) and math.isnan(x)) or x is pd.NA else int(x)


def _side(x):
    if x is None or (isinstance(x, float) and math.isnan(x)):
        return None
    if isinstance(x, str):
        try:
            return int(x)
        except ValueError:
            return x
    return int(x)


def observe(net):
    st = {"bus": [[int(i), bool(s)] for i, s in zip(net.bus.index, net.bus.in_service.values)], "el": {}, "res": {}}
    for k in KINDS:
        df = net[k]
        rows = []
        has_char = "id_characteristic_table" in df.columns
        for pos in range(len(df)):
            rows.append([int(df.index[pos]), [_i(df[c].values[pos]) for c in BUSCOLS[k]],
                         _i(df["id_characteristic_table"].values[pos]) if has_char else None,
                         bool(df["in_service"].values[pos])])
        st["el"][k] = rows
        r = "res_" + k
        st["res"][k] = [int(i) for i in net[r].index] if r in net and isinstance(net[r], pd.DataFrame) else []
    st["res"]["bus"] = [int(i) for i in net.res_bus.index]
    st["sw"] = [[int(i), _i(b), str(et), _i(e), bool(c)] for i, b, et, e, c in
                zip(net.switch.index, net.switch.bus.values, net.switch.et.values, net.switch.element.values,
                    net.switch.closed.values)]
    m = net.measurement
    st["meas"] = [[int(i), str(t), _i(e), _side(s), str(mt)] for i, t, e, s, mt in
                  zip(m.index, m.element_type.values, m.element.values, m.side.values, m.measurement_type.values)]
    for ct, key in (("poly_cost", "pcost"), ("pwl_cost", "wcost")):
        c = net[ct]
        st[key] = [[int(i), str(et), _i(e)] for i, et, e in zip(c.index, c.et.values, c.element.values)]
    g = net.group
    st["grp"] = []
    for pos in range(len(g)):
        mem = g.element_index.values[pos]
        mem = list(mem) if hasattr(mem, "__iter__") and not isinstance(mem, str) else [mem]
        rc = g.reference_column.values[pos]
        rc = None if rc is None or (isinstance(rc, float) and math.isnan(rc)) or rc is pd.NA else str(rc)
        st["grp"].append([int(g.index[pos]), str(g.element_type.values[pos]),
                          [m_ if isinstance(m_, str) else int(m_) for m_ in mem], rc])
    st["ctrl"] = []
    for i in net.controller.index:
        d = net.controller.at[i, "object"].__dict__
        ei = d.get("element_index")
        single = not hasattr(ei, "__iter__")
        st["ctrl"].append([int(i), str(d.get("element")), [int(ei)] if single else [int(x) for x in ei], single])
    if "trafo_characteristic_table" in net and isinstance(net["trafo_characteristic_table"], pd.DataFrame):
        st["tchar"] = [_i(x) for x in net["trafo_characteristic_table"].id_characteristic.values]
    else:
        st["tchar"] = []
    st["names"] = {k: [None if (n is None or (isinstance(n, float) and math.isnan(n))) else str(n) for n in net[k][NAMECOL].values]
                   for k in KINDS + ["bus", "switch"] if NAMECOL in net[k].columns}
    return st


def dangling(st):
    """the invariant of C22 evaluated on an observed state: list of (class, detail)."""
    bad = []
    buses = {r[0] for r in st["bus"]}
    ids = {k: {r[0] for r in st["el"][k]} for k in KINDS}
    ids["bus"] = buses
    ids["switch"] = {r[0] for r in st["sw"]}
    for k in KINDS:
        for r in st["el"][k]:
            for col, b in zip(BUSCOLS[k], r[1]):
                if b not in buses:
                    bad.append(("bus-ref:%s" % k, "%s %d.%s -> bus %r" % (k, r[0], col, b)))
            if k in ("trafo", "trafo3w") and r[2] is not None and r[2] not in set(st["tchar"]):
                bad.append(("char-ref:%s" % k, "%s %d id_characteristic_table %r" % (k, r[0], r[2])))
        extra = set(st["res"][k]) - ids[k]
        if extra:
            bad.append(("res-index:%s" % k, "res_%s has %s" % (k, sorted(extra))))
    extra = set(st["res"]["bus"]) - buses
    if extra:
        bad.append(("res-index:bus", "res_bus has %s" % sorted(extra)))
    for sid, b, et, e, _closed in st["sw"]:
        if b not in buses:
            bad.append(("switch-bus", "switch %d bus %r" % (sid, b)))
        tgt = SWET.get(et)
        if tgt is None or e not in ids[tgt]:
            bad.append(("switch-element:%s" % et, "switch %d et=%s element %r" % (sid, et, e)))
    for mid, t, e, s, _mt in st["meas"]:
        if t not in ids or e not in ids[t]:
            bad.append(("meas-element:%s" % t, "measurement %d %s %r" % (mid, t, e)))
        if isinstance(s, int) and s not in buses:
            bad.append(("meas-side", "measurement %d side bus %r" % (mid, s)))
    for key in ("pcost", "wcost"):
        for cid, et, e in st[key]:
            if et not in ids or e not in ids[et]:
                bad.append(("cost-element:%s" % et, "%s %d %s %r" % (key, cid, et, e)))
    for gid, et, mem, rc in st["grp"]:
        if rc is None:
            miss = [m for m in mem if et not in ids or m not in ids[et]]
        else:
            names = set(st["names"].get(et, []))
            miss = [m for m in mem if m not in names]
        if miss:
            bad.append(("group-member:%s" % et, "group %d %s members %s" % (gid, et, miss)))
    for cid, et, ei, single in st["ctrl"]:
        miss = [m for m in ei if et not in ids or m not in ids[et]]
        if miss:
            bad.append(("controller-target:%s" % et, "controller %d %s %s" % (cid, et, miss)))
    return bad


# ------------------------------------------------------------------ network generator
def _free(rng, used, hi):
    while True:
        i = rng.randrange(hi)
        if i not in used:
            used.add(i)
            return i


def gen_net(rng, nb=None, rich=True, with_res=True, facts=False, name_groups=True, groups=True, tchar=True):
    """small net with shuffled, gapped indices containing every reference kind"""
    nb = nb or rng.randint(4, 7)
    net = pp.create_empty_network()
    used = set()
    buses = [pp.create_bus(net, vn_kv=20.0, index=_free(rng, used, 3 * nb + 4), name="b%d" % k) for k in range(nb)]
    hv = pp.create_bus(net, vn_kv=110.0, index=_free(rng, used, 3 * nb + 4), name="hv")
    mv = pp.create_bus(net, vn_kv=10.0, index=_free(rng, used, 3 * nb + 4), name="mv")
    pp.create_ext_grid(net, hv, index=rng.randrange(5), name="eg")
    ul = set()
    edges = [(buses[rng.randrange(i)], buses[i]) for i in range(1, nb)]
    if nb > 2:
        edges.append(tuple(rng.sample(buses, 2)))
    for k, (a, b) in enumerate(edges):
        pp.create_line_from_parameters(net, a, b, length_km=rng.randint(1, 16) / 8, r_ohm_per_km=0.25, x_ohm_per_km=0.125,
                                       c_nf_per_km=rng.choice([0, 0, 8]), max_i_ka=0.5, index=_free(rng, ul, 3 * len(edges) + 3),
                                       name="l%d" % k, in_service=rng.random() > 0.15)
    ut = set()
    for k in range(rng.randint(1, 2)):
        pp.create_transformer(net, hv, buses[k], std_type="25 MVA 110/20 kV", index=_free(rng, ut, 8), name="t%d" % k,
                              in_service=(k == 0) or rng.random() > 0.2)
    ut3 = set()
    for k in range(rng.randint(1, 2)):
        pp.create_transformer3w(net, hv, buses[rng.randrange(nb)], mv, std_type="63/25/38 MVA 110/20/10 kV",
                                index=_free(rng, ut3, 8), name="tw%d" % k)
    ui = set()
    for k in range(rng.randint(0, 2)):
        a, b = rng.sample(buses, 2)
        pp.create_impedance(net, a, b, rft_pu=0.0625, xft_pu=0.125, sn_mva=10, index=_free(rng, ui, 6), name="imp%d" % k,
                            in_service=rng.random() > 0.2)
    if rng.random() < 0.5:
        a, b = rng.sample(buses, 2)
        pp.create_dcline(net, a, b, p_mw=0.25, loss_percent=1.0, loss_mw=0.0, vm_from_pu=1.0, vm_to_pu=1.0,
                         index=rng.randrange(4), name="dc0", max_p_mw=1.0, min_q_from_mvar=-1, max_q_from_mvar=1,
                         min_q_to_mvar=-1, max_q_to_mvar=1)
    names = {}
    for kind, fn, kw in (("load", pp.create_load, dict(p_mw=0.25, q_mvar=0.125)),
                         ("sgen", pp.create_sgen, dict(p_mw=0.125, q_mvar=0.0)),
                         ("gen", pp.create_gen, dict(p_mw=0.25, vm_pu=1.0)),
                         ("shunt", pp.create_shunt, dict(q_mvar=0.0625, p_mw=0.0)),
                         ("ward", pp.create_ward, dict(ps_mw=0.125, qs_mvar=0.0, pz_mw=0.0625, qz_mvar=0.0)),
                         ("xward", pp.create_xward, dict(ps_mw=0.125, qs_mvar=0.0, pz_mw=0.0625, qz_mvar=0.0, r_ohm=1.0,
                                                         x_ohm=2.0, vm_pu=1.0)),
                         ("storage", pp.create_storage, dict(p_mw=0.0625, max_e_mwh=1.0))):
        u = set()
        n = rng.choice([1, 2, 3]) if kind in ("load", "sgen", "gen") else rng.choice([0, 1, 1, 2])
        for k in range(n):
            nm = "%s%d" % (kind, k if rng.random() > 0.15 else 0)      # occasionally duplicated names
            fn(net, rng.choice(buses + [mv]), index=_free(rng, u, 9), name=nm, in_service=rng.random() > 0.2, **kw)
    if facts:
        pp.create_svc(net, rng.choice(buses), x_l_ohm=1.0, x_cvar_ohm=-10.0, set_vm_pu=1.0, thyristor_firing_angle_degree=90.0,
                      index=rng.randrange(4), name="svc0")
    # switches of all four kinds
    us = set()
    for k in range(rng.randint(1, 2)):
        a, b = rng.sample(buses, 2)
        pp.create_switch(net, a, b, et="b", closed=rng.random() > 0.3, index=_free(rng, us, 30))
    for li in rng.sample(list(net.line.index), min(len(net.line), rng.randint(1, 3))):
        pp.create_switch(net, int(net.line.at[li, rng.choice(["from_bus", "to_bus"])]), li, et="l",
                         closed=rng.random() > 0.3, index=_free(rng, us, 30))
    for ti in net.trafo.index:
        if rng.random() < 0.7:
            pp.create_switch(net, int(net.trafo.at[ti, rng.choice(["hv_bus", "lv_bus"])]), ti, et="t",
                             closed=rng.random() > 0.2, index=_free(rng, us, 30))
    for ti in net.trafo3w.index:
        if rng.random() < 0.8:
            pp.create_switch(net, int(net.trafo3w.at[ti, rng.choice(["hv_bus", "mv_bus", "lv_bus"])]), ti, et="t3",
                             closed=rng.random() > 0.2, index=_free(rng, us, 30))
    if not rich:
        return net
    # measurements
    um = set()
    for k in range(rng.randint(1, 3)):
        pp.create_measurement(net, "v", "bus", 1.0, 0.01, rng.choice(buses), index=_free(rng, um, 30))
    for k in range(rng.randint(1, 3)):
        t = rng.choice(["line", "trafo", "trafo3w"])
        e = int(rng.choice(list(net[t].index)))
        cols = BUSCOLS[t]
        c = rng.choice(cols)
        side = c.split("_")[0] if rng.random() < 0.5 else int(net[t].at[e, c])
        pp.create_measurement(net, "p", t, 0.5, 0.01, e, side=side, index=_free(rng, um, 30))
    if len(net.load) and rng.random() < 0.5:
        pp.create_measurement(net, "p", "load", 0.5, 0.01, int(rng.choice(list(net.load.index))), index=_free(rng, um, 30))
    # costs
    uc = set()
    for k in ("gen", "sgen", "ext_grid", "load", "storage", "dcline"):
        for e in net[k].index:
            if rng.random() < 0.5:
                if rng.random() < 0.6:
                    pp.create_poly_cost(net, int(e), k, cp1_eur_per_mw=1.0, index=_free(rng, uc, 30))
                else:
                    pp.create_pwl_cost(net, int(e), k, [[0, 1, 1.0]], index=_free(rng, uc, 30))
    # groups (index based and name based)
    for g in range(rng.randint(1, 3) if groups else 0):
        ets = rng.sample(["bus", "line", "trafo", "trafo3w", "load", "sgen", "gen", "switch", "impedance", "ext_grid", "ward", "xward"],
                         rng.randint(1, 4))
        ets = [e for e in ets if len(net[e])]
        if not ets:
            continue
        byname = name_groups and rng.random() < 0.3 and all(e != "switch" for e in ets)
        mem = []
        for e in ets:
            ids = rng.sample(list(net[e].index), rng.randint(1, min(3, len(net[e]))))
            mem.append(sorted({str(net[e].at[i, "name"]) for i in ids}) if byname else [int(i) for i in ids])
        pp.create_group(net, ets, mem, name="g%d" % g, reference_columns="name" if byname else None,
                        index=rng.choice([None, rng.randrange(3, 9) + 10 * g]))
    # controllers
    if len(net.load):
        ids = [int(i) for i in rng.sample(list(net.load.index), rng.randint(1, len(net.load)))]
        ctl.ConstControl(net, "load", "p_mw", ids if rng.random() < 0.7 or len(ids) > 1 else ids[0])
    if len(net.sgen) and rng.random() < 0.6:
        ctl.ConstControl(net, "sgen", "p_mw", [int(i) for i in net.sgen.index])
    for ti in net.trafo.index:
        if rng.random() < 0.6:
            ctl.ContinuousTapControl(net, int(ti), 1.0)
    for ti in net.trafo3w.index:
        if rng.random() < 0.5:
            ctl.DiscreteTapControl(net, int(ti), 0.98, 1.02, element="trafo3w", side="mv")
    # tap characteristic table
    if tchar and rng.random() < 0.6:
        nid = rng.randint(1, 2)
        ids = rng.sample(range(6), nid)
        rows = [(i, s) for i in ids for s in (-1, 0, 1)]
        net["trafo_characteristic_table"] = pd.DataFrame(
            {"id_characteristic": [r[0] for r in rows], "step": [r[1] for r in rows], "voltage_ratio": 1.0, "angle_deg": 0.0,
             "vk_percent": 12.0, "vkr_percent": 0.5, "vk_hv_percent": np.nan, "vkr_hv_percent": np.nan,
             "vk_mv_percent": np.nan, "vkr_mv_percent": np.nan, "vk_lv_percent": np.nan, "vkr_lv_percent": np.nan})
        net.trafo["id_characteristic_table"] = pd.array([rng.choice(ids + [None]) for _ in net.trafo.index], dtype="Int64")
        net.trafo["tap_dependency_table"] = net.trafo.id_characteristic_table.notna().values
    if with_res:
        bak = copy.deepcopy(net)
        try:
            pp.runpp(net, numba=False)
        except Exception:
            net = bak          # a raising power flow leaves auxiliary rows behind (C08); not the subject here
    return net


# ------------------------------------------------------------------ operations
class Skip(Exception):
    pass


def exc_class(e):
    return type(e).__name__


def apply_op(net, op, nets2=None):
    """apply one op descriptor to the real net; returns the (possibly new) net. Exceptions propagate."""
    o = op[0]
    if o == "create_bus":
        pp.create_bus(net, vn_kv=20.0, index=op[1], name="nb%d" % op[1])
    elif o == "create_el":
        _, kind, idx, buses = op
        nm = "%s_n%d" % (kind, idx)
        if kind == "load":
            pp.create_load(net, buses[0], p_mw=0.125, index=idx, name=nm)
        elif kind == "sgen":
            pp.create_sgen(net, buses[0], p_mw=0.125, index=idx, name=nm)
        elif kind == "gen":
            pp.create_gen(net, buses[0], p_mw=0.125, vm_pu=1.0, index=idx, name=nm)
        elif kind == "ext_grid":
            pp.create_ext_grid(net, buses[0], index=idx, name=nm)
        elif kind == "shunt":
            pp.create_shunt(net, buses[0], q_mvar=0.0625, index=idx, name=nm)
        elif kind == "ward":
            pp.create_ward(net, buses[0], 0.125, 0.0, 0.0625, 0.0, index=idx, name=nm)
        elif kind == "xward":
            pp.create_xward(net, buses[0], 0.125, 0.0, 0.0625, 0.0, 1.0, 2.0, 1.0, index=idx, name=nm)
        elif kind == "storage":
            pp.create_storage(net, buses[0], p_mw=0.0625, max_e_mwh=1.0, index=idx, name=nm)
        elif kind == "line":
            pp.create_line_from_parameters(net, buses[0], buses[1], length_km=0.5, r_ohm_per_km=0.25, x_ohm_per_km=0.125,
                                           c_nf_per_km=0, max_i_ka=0.5, index=idx, name=nm)
        elif kind == "impedance":
            pp.create_impedance(net, buses[0], buses[1], rft_pu=0.0625, xft_pu=0.125, sn_mva=10, index=idx, name=nm)
        elif kind == "trafo":
            pp.create_transformer_from_parameters(net, buses[0], buses[1], sn_mva=25, vn_hv_kv=110, vn_lv_kv=20, vkr_percent=0.5,
                                                  vk_percent=12, pfe_kw=10, i0_percent=0.1, index=idx, name=nm, tap_side="hv", tap_neutral=0,
                                                  tap_min=-2, tap_max=2, tap_step_percent=1.5, tap_pos=0)
        elif kind == "trafo3w":
            pp.create_transformer3w_from_parameters(net, buses[0], buses[1], buses[2], 110, 20, 10, 63, 25, 38, 10, 10, 10, .3, .3, .3,
                                                    10, .1, index=idx, name=nm, tap_side="hv", tap_neutral=0, tap_min=-2,
                                                    tap_max=2, tap_step_percent=1.5, tap_pos=0)
        elif kind == "dcline":
            pp.create_dcline(net, buses[0], buses[1], p_mw=0.25, loss_percent=1.0, loss_mw=0.0, vm_from_pu=1.0, vm_to_pu=1.0,
                             index=idx, name=nm)
        elif kind == "svc":
            pp.create_svc(net, buses[0], x_l_ohm=1.0, x_cvar_ohm=-10.0, set_vm_pu=1.0, thyristor_firing_angle_degree=90.0,
                          index=idx, name=nm)
        else:
            raise Skip(kind)
    elif o == "create_switch":
        _, idx, bus, et, el = op
        pp.create_switch(net, bus, el, et=et, index=idx)
    elif o == "create_meas":
        _, idx, et, el, side = op
        pp.create_measurement(net, "p", et, 0.5, 0.01, el, side=side, index=idx)
    elif o == "create_cost":
        _, which, idx, et, el = op
        if which == "poly":
            pp.create_poly_cost(net, el, et, cp1_eur_per_mw=1.0, index=idx)
        else:
            pp.create_pwl_cost(net, el, et, [[0, 1, 1.0]], index=idx)
    elif o == "create_group":
        _, gid, et, mem = op
        pp.create_group(net, [et], [list(mem)], name="g%d" % gid, index=gid)
    elif o == "create_ctrl":
        _, kind, idx, single = op
        if kind in ("trafo", "trafo3w"):
            ctl.DiscreteTapControl(net, idx[0] if single else list(idx), 0.98, 1.02, element=kind,
                                   side="lv" if kind == "trafo" else "mv")
        else:
            ctl.ConstControl(net, kind, "p_mw", idx[0] if single else list(idx))
    elif o == "fill_res":                      # harness-only set-up: a result table whose index is the element index
        for k in op[1]:
            r = "res_bus" if k == "bus" else "res_" + k
            net[r] = pd.DataFrame(0.0, index=net[k].index.copy(), columns=net[r].columns)
    elif o == "drop_buses":
        tb.drop_buses(net, list(op[1]), drop_elements=op[2])
    elif o == "drop_lines":
        tb.drop_lines(net, list(op[1]))
    elif o == "drop_trafos":
        tb.drop_trafos(net, list(op[1]), table=op[2])
    elif o == "drop_elements":
        tb.drop_elements(net, op[1], list(op[2]))
    elif o == "fuse_buses":
        tb.fuse_buses(net, op[1], list(op[2]), drop=op[3], fuse_bus_measurements=op[4])
    elif o == "reindex_buses":
        tb.reindex_buses(net, {int(k): int(v) for k, v in op[1]})
    elif o == "reindex_elements":
        tb.reindex_elements(net, op[1], lookup={int(k): int(v) for k, v in op[2]})
    elif o == "cont_bus_index":
        tb.create_continuous_bus_index(net, start=op[1])
    elif o == "cont_elements_index":
        tb.create_continuous_elements_index(net, start=op[1])
    elif o == "select_subnet":
        return tb.select_subnet(net, list(op[1]), include_switch_buses=op[2], include_results=op[3], keep_everything_else=op[4])
    elif o == "merge_nets":
        net2 = nets2[op[1]]
        return tb.merge_nets(net, net2, validate=False, merge_results=op[2], net2_reindex_log_level=None)
    elif o == "replace_line_by_impedance":
        tb.replace_line_by_impedance(net, index=list(op[1]), only_valid_replace=op[2])
    elif o == "replace_impedance_by_line":
        tb.replace_impedance_by_line(net, index=list(op[1]), only_valid_replace=op[2])
    elif o == "replace_ext_grid_by_gen":
        tb.replace_ext_grid_by_gen(net, ext_grids=list(op[1]), gen_indices=op[2])
    elif o == "replace_gen_by_ext_grid":
        tb.replace_gen_by_ext_grid(net, gens=list(op[1]), ext_grid_indices=op[2])
    elif o == "replace_gen_by_sgen":
        tb.replace_gen_by_sgen(net, gens=list(op[1]), sgen_indices=op[2])
    elif o == "replace_sgen_by_gen":
        tb.replace_sgen_by_gen(net, sgens=list(op[1]), gen_indices=op[2])
    elif o == "replace_pq_elmtype":
        tb.replace_pq_elmtype(net, op[1], op[2], old_indices=list(op[3]), new_indices=op[4])
    elif o == "replace_ward_by_internal_elements":
        tb.replace_ward_by_internal_elements(net, wards=list(op[1]))
    elif o == "replace_xward_by_internal_elements":
        tb.replace_xward_by_internal_elements(net, xwards=list(op[1]))
    elif o == "replace_xward_by_ward":
        tb.replace_xward_by_ward(net, index=list(op[1]), drop=op[2])
    elif o == "drop_oos":
        tb.drop_out_of_service_elements(net)
    else:
        raise Skip(o)
    return net


def _some(rng, ids, lo=1, hi=3):
    ids = list(ids)
    if not ids:
        return []
    out = [int(i) for i in rng.sample(ids, min(len(ids), rng.randint(lo, hi)))]
    if rng.random() < 0.08:               # a label listed twice
        out.append(out[0])
    return out


def _lookup(rng, ids, others, partial=True):
    """a reindex lookup old->new: injective, new ids fresh w.r.t. the ids that stay (mostly)"""
    ids = [int(i) for i in ids]
    sel = _some(rng, ids, 1, len(ids)) if partial and rng.random() < 0.7 else list(ids)
    stay = set(ids) - set(sel)
    new = []
    for o_ in sel:
        while True:
            n = rng.randrange(0, 40)
            if n not in stay and n not in new:
                new.append(n)
                break
    return [[o_, n] for o_, n in zip(sel, new)]


def gen_op(rng, net, allow=None, n_nets2=0):
    """a random op descriptor applicable (mostly) to the current net"""
    buses = [int(b) for b in net.bus.index]
    names = ["create_bus", "create_el", "create_el", "create_switch", "create_meas", "create_cost", "drop_buses", "drop_lines",
             "drop_trafos", "drop_elements", "fuse_buses", "reindex_buses", "reindex_elements", "reindex_elements",
             "cont_bus_index", "cont_elements_index", "select_subnet", "merge_nets", "replace_line_by_impedance",
             "replace_impedance_by_line", "replace_ext_grid_by_gen", "replace_gen_by_ext_grid", "replace_gen_by_sgen",
             "replace_sgen_by_gen", "replace_pq_elmtype", "replace_ward_by_internal_elements",
             "replace_xward_by_internal_elements", "replace_xward_by_ward", "drop_oos"]
    if allow is not None:
        names = [n for n in names if n in allow]
    o = rng.choice(names)
    if not buses:
        return ["create_bus", rng.randrange(40)]
    if o == "create_bus":
        return [o, rng.randrange(60) if rng.random() < 0.9 else rng.choice(buses)]
    if o == "create_el":
        kind = rng.choice([k for k in KINDS if k != "svc"])
        nbus = len(BUSCOLS[kind])
        bs = [rng.choice(buses) if rng.random() < 0.95 else rng.randrange(60) for _ in range(nbus)]
        ex = list(net[kind].index)
        idx = rng.randrange(40) if rng.random() < 0.9 or not ex else int(rng.choice(ex))
        return [o, kind, idx, bs]
    if o == "create_switch":
        et = rng.choice(["b", "l", "t", "t3"])
        tab = SWET[et]
        if not len(net[tab]):
            return gen_op(rng, net, allow, n_nets2)
        el = int(rng.choice(list(net[tab].index)))
        if et == "b":
            b = rng.choice(buses)
        else:
            b = int(net[tab].at[el, rng.choice(BUSCOLS[tab])]) if rng.random() < 0.9 else rng.choice(buses)
        return [o, rng.randrange(60), b, et, el]
    if o == "create_meas":
        et = rng.choice(["bus", "line", "trafo", "trafo3w", "load"])
        if not len(net[et]):
            return gen_op(rng, net, allow, n_nets2)
        el = int(rng.choice(list(net[et].index)))
        side = None
        if et in ("line", "trafo", "trafo3w"):
            c = rng.choice(BUSCOLS[et])
            side = c.split("_")[0] if rng.random() < 0.5 else int(net[et].at[el, c])
        return [o, rng.randrange(60), et, el, side]
    if o == "create_cost":
        et = rng.choice(["gen", "sgen", "ext_grid", "load", "storage", "dcline"])
        if not len(net[et]):
            return gen_op(rng, net, allow, n_nets2)
        return [o, rng.choice(["poly", "pwl"]), rng.randrange(60), et,
                int(rng.choice(list(net[et].index))) if rng.random() < 0.85 else rng.randrange(40)]
    if o == "drop_buses":
        return [o, _some(rng, buses, 1, 2), True]     # drop_elements=False asks for dangling elements: internal mode of fuse_buses
    if o == "drop_lines":
        return [o, _some(rng, net.line.index, 1, 2)]
    if o == "drop_trafos":
        t = rng.choice(["trafo", "trafo3w"])
        return [o, _some(rng, net[t].index, 1, 2), t]
    if o == "drop_elements":
        kind = rng.choice(KINDS + ["bus", "switch", "measurement"])
        if not len(net[kind]):
            return gen_op(rng, net, allow, n_nets2)
        return [o, kind, _some(rng, net[kind].index, 1, 2)]
    if o == "fuse_buses":
        if len(buses) < 3:
            return gen_op(rng, net, allow, n_nets2)
        bs = rng.sample(buses, rng.randint(2, 3))
        b2 = bs[1:]
        if rng.random() < 0.3:            # the target bus may be listed among the buses to fuse (documented: it is ignored)
            b2 = b2 + [bs[0]]
            rng.shuffle(b2)
        if rng.random() < 0.1:
            b2 = b2 + [b2[0]]
        return [o, bs[0], b2, rng.random() < 0.85, rng.random() < 0.8]
    if o == "reindex_buses":
        lk = _lookup(rng, buses, [])
        return [o, lk]
    if o == "reindex_elements":
        kind = rng.choice(KINDS + ["switch", "measurement", "poly_cost", "trafo3w", "trafo3w", "line", "trafo", "load", "bus"])
        if kind == "svc" or not len(net[kind]):
            return gen_op(rng, net, allow, n_nets2)
        return [o, kind, _lookup(rng, net[kind].index, [])]
    if o in ("cont_bus_index", "cont_elements_index"):
        return [o, rng.choice([0, 0, 1, 5])]
    if o == "select_subnet":
        return [o, _some(rng, buses, max(1, len(buses) // 2), len(buses)), rng.random() < 0.3, rng.random() < 0.5,
                rng.random() < 0.3]
    if o == "merge_nets":
        if not n_nets2:
            return gen_op(rng, net, allow, n_nets2)
        return [o, rng.randrange(n_nets2), rng.random() < 0.7]
    if o == "replace_line_by_impedance":
        return [o, _some(rng, net.line.index, 1, 3), rng.random() < 0.5]
    if o == "replace_impedance_by_line":
        if not len(net.impedance):
            return gen_op(rng, net, allow, n_nets2)
        return [o, _some(rng, net.impedance.index, 1, 2), rng.random() < 0.5]
    if o in ("replace_ext_grid_by_gen", "replace_gen_by_ext_grid", "replace_gen_by_sgen", "replace_sgen_by_gen"):
        src = {"replace_ext_grid_by_gen": "ext_grid", "replace_gen_by_ext_grid": "gen", "replace_gen_by_sgen": "gen",
               "replace_sgen_by_gen": "sgen"}[o]
        if not len(net[src]):
            return gen_op(rng, net, allow, n_nets2)
        ids = _some(rng, net[src].index, 1, 2)
        return [o, ids, None]
    if o == "replace_pq_elmtype":
        a, b = rng.sample(["load", "sgen", "storage"], 2)
        if not len(net[a]):
            return gen_op(rng, net, allow, n_nets2)
        return [o, a, b, _some(rng, net[a].index, 1, 2), None]
    if o in ("replace_ward_by_internal_elements", "replace_xward_by_internal_elements", "replace_xward_by_ward"):
        src = "ward" if o == "replace_ward_by_internal_elements" else "xward"
        if not len(net[src]):
            return gen_op(rng, net, allow, n_nets2)
        if o == "replace_xward_by_ward":
            return [o, _some(rng, net[src].index, 1, 2), rng.random() < 0.7]
        return [o, _some(rng, net[src].index, 1, 2)]
    return ["drop_oos"]
