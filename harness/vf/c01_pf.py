"""Shared helpers of the C01 / C04 / C10 checks (bus / generator / result-extraction side of the PF core):
network generator with rich element mixes per bus, extraction of the model input from a solved net,
Gallina term emission for PPV.C01.Model, and the nodal-balance oracle on the result tables."""
import math
import numpy as np
import pandapower as pp
from fractions import Fraction
from vf import coqrun as cq, nets
from pandapower.pypower.idx_bus import PD, QD, GS, BS, CID_P, CZD_P, CID_Q, CZD_Q, BASE_KV, VM, BUS_TYPE, SL_FAC as SL_FAC_BUS
from pandapower.pypower.idx_gen import PG, QG, QMIN, QMAX, GEN_BUS, GEN_STATUS, SL_FAC, VG
from pandapower.pypower.idx_brch import PF, QF

ZIPS = [(0, 0), (0, 0), (0, 0), (100, 0), (0, 100), (50, 50), (25, 25), (50, 0), (0, 50), (75, 25), (25, 0), (100, 0)]
SCAL = [1.0, 1.0, 1.0, 0.5, 1.25, 0.0]


def g8(rng, lo, hi):
    return rng.randint(lo, hi) / 8


def add_elements(rng, net, buses, rich=1.0, zip_p=0.6, allow_xward=True, share=0.7):
    """0-3 elements of every kind on randomly chosen buses, with deliberately shared buses."""
    hot = rng.sample(list(buses), max(1, min(len(buses), rng.randint(1, 3))))

    def pick():
        return rng.choice(hot) if rng.random() < share else rng.choice(list(buses))

    for _ in range(rng.randint(1, int(2 + 4 * rich))):
        cz, ci = rng.choice(ZIPS) if rng.random() < zip_p else (0, 0)
        czq, ciq = (cz, ci) if rng.random() < 0.6 else rng.choice(ZIPS)
        pp.create_load(net, pick(), p_mw=g8(rng, 0, 16), q_mvar=g8(rng, -4, 8), scaling=rng.choice(SCAL),
                       in_service=rng.random() < 0.88, const_z_p_percent=cz, const_i_p_percent=ci,
                       const_z_q_percent=czq, const_i_q_percent=ciq)
    for _ in range(rng.randint(0, int(1 + 2 * rich))):
        pp.create_sgen(net, pick(), p_mw=g8(rng, 0, 12), q_mvar=g8(rng, -4, 4), scaling=rng.choice(SCAL),
                       in_service=rng.random() < 0.88)
    for _ in range(rng.randint(0, 2)):
        if rng.random() < 0.5 * rich:
            pp.create_storage(net, pick(), p_mw=g8(rng, -8, 8), max_e_mwh=10., q_mvar=g8(rng, -2, 2),
                              scaling=rng.choice(SCAL), in_service=rng.random() < 0.88)
    for _ in range(rng.randint(0, 2)):
        if rng.random() < 0.5 * rich:
            pp.create_shunt(net, pick(), q_mvar=g8(rng, -8, 8), p_mw=g8(rng, 0, 4), step=rng.randint(0, 3), max_step=3,
                            vn_kv=rng.choice([None, 20.0, 10.0, 16.0]), in_service=rng.random() < 0.88)
    for _ in range(rng.randint(0, 2)):
        if rng.random() < 0.4 * rich:
            pp.create_ward(net, pick(), ps_mw=g8(rng, -4, 8), qs_mvar=g8(rng, -4, 4), pz_mw=g8(rng, 0, 8),
                           qz_mvar=g8(rng, -4, 4), in_service=rng.random() < 0.88)
    if allow_xward:
        used = set()
        for _ in range(rng.randint(0, 2)):
            if rng.random() < 0.35 * rich:
                b = pick()
                if b in used:
                    continue
                used.add(b)
                pp.create_xward(net, b, ps_mw=g8(rng, -4, 8), qs_mvar=g8(rng, -4, 4), pz_mw=g8(rng, 0, 8),
                                qz_mvar=g8(rng, -4, 4), r_ohm=g8(rng, 1, 16), x_ohm=g8(rng, 4, 40),
                                vm_pu=rng.choice([1.0, 1.0, 0.99, 1.01]), in_service=rng.random() < 0.88)
    for _ in range(rng.randint(0, 1)):
        if rng.random() < 0.3 * rich:
            pp.create_motor(net, pick(), pn_mech_mw=g8(rng, 1, 8), cos_phi=rng.choice([0.8, 0.9, 1.0]),
                            efficiency_percent=rng.choice([80., 100.]), loading_percent=rng.choice([50., 100.]),
                            scaling=rng.choice(SCAL), in_service=rng.random() < 0.88)
    if rng.random() < 0.25 * rich:
        pp.create_asymmetric_load(net, pick(), p_a_mw=g8(rng, 0, 4), p_b_mw=g8(rng, 0, 4), p_c_mw=g8(rng, 0, 4),
                                  q_a_mvar=g8(rng, 0, 2), q_b_mvar=g8(rng, 0, 2), q_c_mvar=0.,
                                  scaling=rng.choice(SCAL), in_service=rng.random() < 0.88)
    if rng.random() < 0.25 * rich:
        pp.create_asymmetric_sgen(net, pick(), p_a_mw=g8(rng, 0, 4), p_b_mw=g8(rng, 0, 4), p_c_mw=0.,
                                  q_a_mvar=g8(rng, 0, 2), q_b_mvar=0., q_c_mvar=0.,
                                  scaling=rng.choice(SCAL), in_service=rng.random() < 0.88)
    return hot


def add_gens(rng, net, buses, hot, n_max=3, qlim_p=0.5, share=0.6, vm_by_bus=None):
    vm_by_bus = {} if vm_by_bus is None else vm_by_bus
    for b in net.ext_grid.bus.values:
        vm_by_bus[int(b)] = float(net.ext_grid.vm_pu[net.ext_grid.bus == b].values[0])
    for _ in range(rng.randint(0, n_max)):
        b = rng.choice(hot) if rng.random() < share else rng.choice(list(buses))
        vm = vm_by_bus.setdefault(int(b), rng.choice([1.0, 1.01, 1.02, 0.99, 1.03]))
        kw = {}
        if rng.random() < qlim_p:
            lo = g8(rng, -16, 0)
            kw = dict(min_q_mvar=lo, max_q_mvar=lo + g8(rng, 0, 24))
        pp.create_gen(net, b, p_mw=g8(rng, 0, 16), vm_pu=vm, scaling=rng.choice([1.0, 1.0, 0.5]),
                      in_service=rng.random() < 0.9, **kw)
    return vm_by_bus


def gen_net(rng, rich=1.0, nb=None, fuse_p=0.25, two_eg_p=0.2, t3w_p=0.0, dcline_p=0.0, **kw):
    nb = nb or rng.randint(2, 7)
    n_tr = rng.choice([0, 1, 1])
    n_t3 = 1 if (n_tr > 0 and rng.random() < t3w_p) else 0
    net = nets.rand_net(rng, nb=nb, chords=rng.randint(0, 2), n_trafo=n_tr, loads=False, sgens=False,
                        n_trafo3w=n_t3, oos=0.0, line_params=rng.random() < 0.5, shuffle_index=rng.random() < 0.4)
    if n_t3:
        net.load.drop(net.load.index, inplace=True)      # rand_net puts a plain load on the 10 kV side; ours come below
    buses = [int(b) for b in net.bus.index[net.bus.vn_kv == 20.0]]
    # a bus section coupled by a closed bus-bus switch (fused into one ppc bus)
    if rng.random() < fuse_p:
        b0 = rng.choice(buses)
        b1 = pp.create_bus(net, vn_kv=20.0, name="sec")
        pp.create_switch(net, b0, b1, et="b", closed=True)
        buses.append(int(b1))
        if rng.random() < 0.5:
            kw.setdefault("force_hot", [b0, int(b1)])
    if rng.random() < two_eg_p:
        eb = int(net.ext_grid.bus.values[0])
        pp.create_ext_grid(net, eb, vm_pu=float(net.ext_grid.vm_pu.values[0]), va_degree=float(net.ext_grid.va_degree.values[0]))
    allb = buses + [int(b) for b in net.ext_grid.bus.values[:1]]
    hot = add_elements(rng, net, allb, rich=rich, **{k: v for k, v in kw.items() if k in ("zip_p", "allow_xward", "share")})
    if "force_hot" in kw:
        for b in kw["force_hot"]:
            cz, ci = rng.choice(ZIPS)
            pp.create_load(net, b, p_mw=g8(rng, 1, 16), q_mvar=g8(rng, -4, 8), const_z_p_percent=cz, const_i_p_percent=ci,
                           const_z_q_percent=cz, const_i_q_percent=ci)
    add_gens(rng, net, buses, hot, n_max=kw.get("n_gen", 3))
    if rng.random() < dcline_p and len(buses) >= 2:
        a, b = rng.sample(buses, 2)
        pp.create_dcline(net, a, b, p_mw=g8(rng, 0, 8), loss_percent=rng.choice([0.0, 1.0, 2.0]), loss_mw=g8(rng, 0, 1),
                         vm_from_pu=rng.choice([1.0, 1.01]), vm_to_pu=rng.choice([1.0, 0.99]), in_service=rng.random() < 0.9)
    return net


# ------------------------------------------------------------------ extraction
PQ_TABLES = ["motor", "sgen", "storage", "ward", "xward", "asymmetric_load", "asymmetric_sgen"]


class Ext:
    """model input extracted from a solved net (all floats kept as python floats; emit() makes the Coq term)"""
    pass


def extract(net, gen_setpoints=None, dc=False):
    from pandapower.build_bus import _get_motor_pq, _get_symmetric_pq_of_unsymetric_element
    x = Ext()
    ppc = net._ppc
    internal = ppc["internal"]
    lookup = net._pd2ppc_lookups["bus"]
    bus = ppc["bus"]
    x.base = float(ppc["baseMVA"])
    if dc:
        nbi = internal["bus"].shape[0]
        x.nb = nbi
        x.V = None
        x.vs = [float(bus[k, VM]) for k in range(nbi)]       # what _get_shunt_results reads
        x.ss = [0j] * nbi
        x.vdl = False                                         # results_bus.py:418 "voltage_depend_loads and ac"
    else:
        V = internal["V"]
        nbi = len(V)
        Ybus = internal["Ybus"]
        x.nb = nbi
        x.V = V
        x.vs = [float(abs(v)) for v in V]
        S = V * np.conj(Ybus @ V)
        x.ss = [complex(s) for s in S]
        x.vdl = bool(net._options["voltage_depend_loads"])
    ise = net._is_elements
    x.lookup = lookup

    def kb(pb):
        return int(lookup[int(pb)])

    x.loads = []
    t = net.load
    for pos, i in enumerate(t.index):
        x.loads.append(dict(idx=int(i), pbus=int(t.bus.values[pos]), bus=kb(t.bus.values[pos]), p=float(t.p_mw.values[pos]),
                            q=float(t.q_mvar.values[pos]), sc=float(t.scaling.values[pos]), on=bool(ise["load"][pos]),
                            czp=float(t.const_z_p_percent.values[pos]), cip=float(t.const_i_p_percent.values[pos]),
                            czq=float(t.const_z_q_percent.values[pos]), ciq=float(t.const_i_q_percent.values[pos])))
    x.pqs = []
    for tab in PQ_TABLES:
        t = net[tab]
        if len(t) == 0:
            continue
        if tab == "motor":
            pm, qm = _get_motor_pq(net)
        elif tab.startswith("asymmetric"):
            pm, qm = _get_symmetric_pq_of_unsymetric_element(net, tab)
        for pos, i in enumerate(t.index):
            d = dict(tab=tab, idx=int(i), pbus=int(t.bus.values[pos]), bus=kb(t.bus.values[pos]), gen=tab.endswith("sgen"))
            if tab == "motor" or tab.startswith("asymmetric"):
                d.update(p=float(pm[pos]), q=float(qm[pos]), sc=1.0, on=True)
            elif tab in ("ward", "xward"):
                d.update(p=float(t.ps_mw.values[pos]), q=float(t.qs_mvar.values[pos]), sc=1.0, on=bool(ise[tab][pos]))
            else:
                d.update(p=float(t.p_mw.values[pos]), q=float(t.q_mvar.values[pos]), sc=float(t.scaling.values[pos]),
                         on=bool(ise[tab][pos]))
            x.pqs.append(d)
    x.shunts = []
    t = net.shunt
    for pos, i in enumerate(t.index):
        k = kb(t.bus.values[pos])
        x.shunts.append(dict(tab="shunt", idx=int(i), pbus=int(t.bus.values[pos]), bus=k, p=float(t.p_mw.values[pos]),
                             q=float(t.q_mvar.values[pos]), step=float(t.step.values[pos]), vn=float(t.vn_kv.values[pos]),
                             bkv=float(bus[k, BASE_KV]), on=bool(ise["shunt"][pos])))
    for tab in ("ward", "xward"):
        t = net[tab]
        for pos, i in enumerate(t.index):
            k = kb(t.bus.values[pos])
            x.shunts.append(dict(tab=tab, idx=int(i), pbus=int(t.bus.values[pos]), bus=k, p=float(t.pz_mw.values[pos]),
                                 q=float(t.qz_mvar.values[pos]), step=1.0, vn=float(bus[k, BASE_KV]), bkv=float(bus[k, BASE_KV]),
                                 on=bool(ise[tab][pos])))
    # gen rows of the ppci (ext_grid, gen, xward aux gens) with their setpoints before the solution
    g = internal["gen"]
    ref_gens = set(int(i) for i in internal["ref_gens"])
    x.gens = []
    order = getattr(net, "_gen_order", {})
    owner = {}
    ndc = 2 * len(net.dcline) if len(net.dcline) and len(ise.get("gen", [])) > len(net.gen) else 0   # aux gens of dclines, removed after the run
    for el, (f, t_) in order.items():
        tabn = el
        if el == "gen":
            m = ise["gen"]
            idxs = list(net.gen.index[m[:len(net.gen)]])
            # the auxiliary dcline gens were appended to net.gen for the run: (to-gen, from-gen) per dcline
            for j in range(len(net.gen), len(m)):
                if m[j]:
                    idxs.append(("dcline", j - len(net.gen)))
        else:
            idxs = list(net[tabn].index[ise[el]]) if el in ("ext_grid", "xward") else []
        for j, r in enumerate(range(f, t_)):
            owner[r] = (tabn, idxs[j] if j < len(idxs) else -1)
    x.gen_owner = owner
    aux = net._pd2ppc_lookups.get("aux", {}).get("xward", [])
    for r in range(g.shape[0]):
        tabn, idx = owner.get(r, ("?", -1))
        if tabn == "ext_grid":
            pbus = int(net.ext_grid.bus.at[idx]); pg0 = 0.0
        elif tabn == "gen" and isinstance(idx, tuple):
            # aux gen of dcline d: even position = gen at to_bus, odd = gen at from_bus (results_gen._get_dcline_results);
            # PV rows keep PG, so the solved value is the setpoint
            d, odd = divmod(idx[1], 2)
            di = net.dcline.index[d]
            pbus = int(net.dcline.from_bus.at[di] if odd else net.dcline.to_bus.at[di]); pg0 = float(g[r, PG]); idx = -1 - idx[1]
            tabn = "dcline_gen"
        elif tabn == "gen":
            pbus = int(net.gen.bus.at[idx]); pg0 = float(net.gen.p_mw.at[idx] * net.gen.scaling.at[idx])
        else:
            pbus = 10 ** 6 + r; pg0 = 0.0
        if gen_setpoints is not None:
            pg0 = float(gen_setpoints[r])
        x.gens.append(dict(row=r, tab=tabn, idx=idx, pbus=pbus, bus=int(g[r, GEN_BUS]), pg=pg0, qmin=float(g[r, QMIN]),
                           qmax=float(g[r, QMAX]), w=float(g[r, SL_FAC]), on=bool(g[r, GEN_STATUS] > 0), ref=r in ref_gens))
    # dcline terminal powers as stacked by results_gen.py:41-45
    x.dclp, x.dclq = [], []
    if len(net.dcline) and "res_dcline" in net and len(net.res_dcline):
        for (fb, tb), (pf_, qf_, pt_, qt_) in zip(net.dcline[["from_bus", "to_bus"]].values,
                                                  net.res_dcline[["p_from_mw", "q_from_mvar", "p_to_mw", "q_to_mvar"]].values):
            x.dclp += [(int(fb), float(pf_)), (int(tb), float(pt_))]
            x.dclq += [(int(fb), float(qf_)), (int(tb), float(qt_))]
    x.ref = [int(b) for b in internal["ref"]]
    x.bus_order = [(int(pb), kb(pb)) for pb in set(net.load["bus"])] if len(net.load) else []
    x.pbs = [int(b) for b in net.bus.index if kb(b) < nbi and net.bus.in_service.at[b] and not math.isnan(net.res_bus.vm_pu.at[b])]
    return x


BITS = 30


def _load_term(d):
    return "(mkLoad %s %s %s %s %s %s %s %s %s %s)" % (cq.nat(d["pbus"]), cq.nat(d["bus"]), cq.q(d["p"]), cq.q(d["q"]), cq.q(d["sc"]),
                                                        cq.b(d["on"]), cq.q(d["czp"]), cq.q(d["cip"]), cq.q(d["czq"]), cq.q(d["ciq"]))


def _pq_term(d):
    return "(mkPq %s %s %s %s %s %s %s)" % (cq.nat(d["pbus"]), cq.nat(d["bus"]), cq.q(d["p"], 40), cq.q(d["q"], 40), cq.q(d["sc"]),
                                             cq.b(d["on"]), cq.b(d["gen"]))


def _sh_term(d):
    return "(mkSh %s %s %s %s %s %s %s %s)" % (cq.nat(d["pbus"]), cq.nat(d["bus"]), cq.q(d["p"]), cq.q(d["q"]), cq.q(d["step"]),
                                                cq.q(d["vn"]), cq.q(d["bkv"]), cq.b(d["on"]))


def _gen_term(d):
    return "(mkGen %s %s %s %s %s %s %s %s)" % (cq.nat(d["pbus"]), cq.nat(d["bus"]), cq.q(d["pg"], 40), cq.q(d["qmin"]), cq.q(d["qmax"]),
                                                 cq.q(d["w"]), cq.b(d["on"]), cq.b(d["ref"]))


def net_term(x):
    return "(mkNet %s %s %s %s %s %s %s)" % (
        cq.lst([_load_term(d) for d in x.loads]), cq.lst([_pq_term(d) for d in x.pqs]),
        cq.lst([_sh_term(d) for d in x.shunts]), cq.lst([_gen_term(d) for d in x.gens]),
        cq.b(x.vdl), cq.q(x.base), cq.lst(["(%s, %s)" % (cq.nat(a), cq.nat(b)) for a, b in x.bus_order]))


def vs_term(x):
    return cq.lst([cq.q(v, BITS) for v in x.vs])


def ss_term(x):
    return cq.lst(["(mkC %s %s)" % (cq.q(s.real, BITS), cq.q(s.imag, BITS)) for s in x.ss])


def ref_term(x):
    return cq.lst([cq.nat(r) for r in x.ref])


def run_dc_term(x):
    return "run_dc %s %s %s" % (net_term(x), vs_term(x), cq.nat(x.nb))


def ybus_term(net, x):
    """two-port rows of every ppci branch from the Yf / Yt actually used by the run, the bus shunt, the solved V (exact floats)"""
    from pandapower.pypower.idx_brch import F_BUS as FB, T_BUS as TB
    internal = net._ppc["internal"]
    Yf, Yt, br = internal["Yf"].tocsr(), internal["Yt"].tocsr(), internal["branch"]
    bus = internal["bus"]

    def c(z):
        return "(mkC %s %s)" % (cq.q(float(z.real), 40), cq.q(float(z.imag), 40))

    rows = []
    for r in range(br.shape[0]):
        f, t = int(br[r, FB].real), int(br[r, TB].real)
        rows.append("(mkBr %s %s %s %s %s %s)" % (cq.nat(f), cq.nat(t), c(Yf[r, f]), c(Yf[r, t]), c(Yt[r, f]), c(Yt[r, t])))
    ysh = [c(complex(bus[k, GS], bus[k, BS]) / x.base) for k in range(x.nb)]
    V = [c(v) for v in x.V]
    return "run_ybus %s %s %s %s" % (cq.lst(rows), cq.lst(ysh), cq.lst(V), cq.nat(x.nb))


def run_all_term(x):
    dl = lambda l: cq.lst(["(%s, %s)" % (cq.nat(b), cq.q(v, 40)) for b, v in l])
    return "run_all %s %s %s %s %s %s %s %s" % (net_term(x), ref_term(x), vs_term(x), ss_term(x), cq.nat(x.nb),
                                                dl(getattr(x, "dclp", [])), dl(getattr(x, "dclq", [])), cq.lst([cq.nat(p) for p in x.pbs]))


# ------------------------------------------------------------------ observations of the impl in the model's shape
def close(a, b, tol=1e-7, extra=0.0):
    if a is None or b is None:
        return a is None and b is None
    a = float(a); b = float(b)
    if math.isnan(a) or math.isnan(b):
        return False
    return abs(a - b) <= tol * max(1.0, abs(a), abs(b)) + extra


def impl_busrows(net, x):
    bus = net._ppc["bus"]
    return [[float(bus[k, c]) for c in (PD, QD, CID_P, CZD_P, CID_Q, CZD_Q, GS, BS)] for k in range(x.nb)]


def impl_res(net, x):
    lo = [[float(net.res_load.p_mw.at[d["idx"]]), float(net.res_load.q_mvar.at[d["idx"]])] for d in x.loads]
    pq = []
    xw_branch = {}
    if len(net.xward) and "xward" in net._pd2ppc_lookups["branch"]:
        f, t = net._pd2ppc_lookups["branch"]["xward"]
        for pos, i in enumerate(net.xward.index):
            xw_branch[int(i)] = (float(net._ppc["branch"][f + pos, PF].real), float(net._ppc["branch"][f + pos, QF].real))
    x.xw_branch = xw_branch
    sh_by = {(d["tab"], d["idx"]): d for d in x.shunts}
    for d in x.pqs:
        r = net["res_" + d["tab"]]
        p, q_ = float(r.p_mw.at[d["idx"]]), float(r.q_mvar.at[d["idx"]])
        pq.append([p, q_])
    sh = []
    for d in x.shunts:
        if d["tab"] == "shunt":
            sh.append([float(net.res_shunt.p_mw.at[d["idx"]]), float(net.res_shunt.q_mvar.at[d["idx"]])])
        else:
            sh.append(None)   # ward / xward: compared as the sum of the constant-power and constant-impedance part
    return lo, pq, sh


def branch_flows_by_bus(net, x, include_xward_branch=True):
    """sum of the branch terminal flows reported in the result tables, grouped by ppc bus index"""
    F = {}

    def add(buscol, pcol, qcol, tab):
        t = net[tab]
        r = net["res_" + tab]
        if len(t) == 0:
            return
        for b, p, q_ in zip(t[buscol].values, r[pcol].values, r[qcol].values):
            k = int(x.lookup[int(b)])
            F[k] = F.get(k, 0j) + complex(_z(p), _z(q_))

    add("from_bus", "p_from_mw", "q_from_mvar", "line")
    add("to_bus", "p_to_mw", "q_to_mvar", "line")
    add("hv_bus", "p_hv_mw", "q_hv_mvar", "trafo")
    add("lv_bus", "p_lv_mw", "q_lv_mvar", "trafo")
    add("hv_bus", "p_hv_mw", "q_hv_mvar", "trafo3w")
    add("mv_bus", "p_mv_mw", "q_mv_mvar", "trafo3w")
    add("lv_bus", "p_lv_mw", "q_lv_mvar", "trafo3w")
    add("from_bus", "p_from_mw", "q_from_mvar", "impedance")
    add("to_bus", "p_to_mw", "q_to_mvar", "impedance")
    return F


CONS_TABLES = [("load", 1), ("sgen", -1), ("storage", 1), ("motor", 1), ("ward", 1), ("xward", 1), ("shunt", 1),
               ("asymmetric_load", 1), ("asymmetric_sgen", -1), ("ext_grid", -1), ("gen", -1)]


def element_sums_by_bus(net, x, by="ppc"):
    """net consumption (consumption - generation) reported by the element result tables, grouped by ppc bus
    index (by='ppc') or pandapower bus (by='pp').  dcline terminals: p_from/p_to are consumption at from/to bus."""
    E = {}
    for tab, sg in CONS_TABLES:
        t = net[tab]
        if len(t) == 0:
            continue
        r = net["res_" + tab]
        for b, p, q_ in zip(t.bus.values, r.p_mw.values, r.q_mvar.values):
            k = int(x.lookup[int(b)]) if by == "ppc" else int(b)
            E[k] = E.get(k, 0j) + complex(sg * _z(p), sg * _z(q_))
    if len(net.dcline):
        for (fb, tb), (pf, qf, pt, qt) in zip(net.dcline[["from_bus", "to_bus"]].values,
                                              net.res_dcline[["p_from_mw", "q_from_mvar", "p_to_mw", "q_to_mvar"]].values):
            for b, p, q_ in ((fb, pf, qf), (tb, pt, qt)):
                k = int(x.lookup[int(b)]) if by == "ppc" else int(b)
                E[k] = E.get(k, 0j) + complex(_z(p), _z(q_))
    return E


def _z(v):
    """NaN (q columns of a DC power flow, elements at unsupplied buses) counts as 0 in the sums"""
    v = float(v)
    return 0.0 if math.isnan(v) else v


# ------------------------------------------------------------------ python re-implementation of the guards (classification)
def _fr(v):
    return Fraction(v)


def py_guards(x, k):
    """(G01p, G01q, G01gp, G01gq, has_gen, is_ref) of ppc bus k, exact rational arithmetic on the input"""
    la = [d for d in x.loads if d["bus"] == k]
    pd = sum((_fr(d["p"]) * (1 if d["on"] else 0) * _fr(d["sc"]) for d in la), Fraction(0))
    qd = sum((_fr(d["q"]) * (1 if d["on"] else 0) * _fr(d["sc"]) for d in la), Fraction(0))
    for d in x.pqs:
        if d["bus"] == k:
            sg = -1 if d["gen"] else 1
            pd += _fr(d["p"]) * (1 if d["on"] else 0) * _fr(d["sc"]) * sg
            qd += _fr(d["q"]) * (1 if d["on"] else 0) * _fr(d["sc"]) * sg
    z = [Fraction(0)] * 4
    if x.vdl:
        for pb, kb in x.bus_order:
            act = [d for d in x.loads if d["pbus"] == pb and d["on"]]
            if kb == k and act:
                n = len(act)
                z = [sum((_fr(d[c]) / 100 for d in act), Fraction(0)) / n for c in ("cip", "czp", "ciq", "czq")]
    ap = lambda d: _fr(d["p"]) * _fr(d["sc"]) * (1 if d["on"] else 0)
    aq = lambda d: _fr(d["q"]) * _fr(d["sc"]) * (1 if d["on"] else 0)
    spci = sum((ap(d) * _fr(d["cip"]) / 100 for d in la), Fraction(0))
    spcz = sum((ap(d) * _fr(d["czp"]) / 100 for d in la), Fraction(0))
    sqci = sum((aq(d) * _fr(d["ciq"]) / 100 for d in la), Fraction(0))
    sqcz = sum((aq(d) * _fr(d["czq"]) / 100 for d in la), Fraction(0))
    novd = not x.vdl
    g01p = novd or (pd * z[0] == spci and pd * z[1] == spcz)
    g01q = novd or (qd * z[2] == sqci and qd * z[3] == sqcz)
    g01gp = novd or (spci == 0 and spcz == 0)
    g01gq = novd or (sqci == 0 and sqcz == 0)
    has_gen = any(g["bus"] == k and g["on"] for g in x.gens)
    return g01p, g01q, g01gp, g01gq, has_gen, (k in x.ref)


def py_zip_terms(x, k):
    """exact rational ingredients of the imbalance formulas of ppc bus k: PD, QD, bus-row fractions, demand-weighted sums"""
    la = [d for d in x.loads if d["bus"] == k]
    ap = lambda d: _fr(d["p"]) * _fr(d["sc"]) * (1 if d["on"] else 0)
    aq = lambda d: _fr(d["q"]) * _fr(d["sc"]) * (1 if d["on"] else 0)
    pd = sum((ap(d) for d in la), Fraction(0))
    qd = sum((aq(d) for d in la), Fraction(0))
    for d in x.pqs:
        if d["bus"] == k:
            sg = -1 if d["gen"] else 1
            pd += _fr(cq.round_bits(Fraction(d["p"]), 40)) * (1 if d["on"] else 0) * _fr(d["sc"]) * sg
            qd += _fr(cq.round_bits(Fraction(d["q"]), 40)) * (1 if d["on"] else 0) * _fr(d["sc"]) * sg
    z = [Fraction(0)] * 4
    if x.vdl:
        for pb, kb in x.bus_order:
            act = [d for d in x.loads if d["pbus"] == pb and d["on"]]
            if kb == k and act:
                z = [sum((_fr(d[c]) / 100 for d in act), Fraction(0)) / len(act) for c in ("cip", "czp", "ciq", "czq")]
    return dict(pd=pd, qd=qd, z=z,
                spci=sum((ap(d) * _fr(d["cip"]) / 100 for d in la), Fraction(0)), spcz=sum((ap(d) * _fr(d["czp"]) / 100 for d in la), Fraction(0)),
                sqci=sum((aq(d) * _fr(d["ciq"]) / 100 for d in la), Fraction(0)), sqcz=sum((aq(d) * _fr(d["czq"]) / 100 for d in la), Fraction(0)))


def py_fold_prediction(x, k, v, pl, ql):
    """(- zipdef_p + qlimdef_p, - zipdef_q + qlimdef_q) of C01.Model for bus k at voltage v, floats"""
    if not x.vdl:
        return 0.0, 0.0
    t = py_zip_terms(x, k)
    v = Fraction(v)
    zp = (v - 1) * (t["pd"] * t["z"][0] - t["spci"]) + (v * v - 1) * (t["pd"] * t["z"][1] - t["spcz"])
    zq = (v - 1) * (t["qd"] * t["z"][2] - t["sqci"]) + (v * v - 1) * (t["qd"] * t["z"][3] - t["sqcz"])
    fp = Fraction(pl) * (t["z"][0] * (v - 1) + t["z"][1] * (v * v - 1))
    fq = Fraction(ql) * (t["z"][2] * (v - 1) + t["z"][3] * (v * v - 1))
    return float(-zp + fp), float(-zq + fq)
