"""C09: log of key accesses on pandapowerNet objects (first access per key = read or write), harness process only."""
from pandapower.auxiliary import pandapowerNet


class AccessLog:
    """while active, every item access on ANY pandapowerNet is recorded for the net object given"""

    def __init__(self, net):
        self.net_id = id(net)
        self.first = {}       # key -> 'R' | 'W'
        self.events = []

    def _note(self, obj, key, kind):
        if id(obj) == self.net_id and isinstance(key, str):
            if key not in self.first:
                self.first[key] = kind
            self.events.append((kind, key))

    def __enter__(self):
        log = self
        cls = pandapowerNet
        self._saved = {n: cls.__dict__.get(n) for n in ("__getitem__", "__setitem__", "__contains__", "get", "__delitem__", "pop", "setdefault")}

        def gi(s, k):
            log._note(s, k, "R")
            return dict.__getitem__(s, k)

        def si(s, k, v):
            log._note(s, k, "W")
            return dict.__setitem__(s, k, v)

        def co(s, k):
            log._note(s, k, "R")
            return dict.__contains__(s, k)

        def ge(s, k, d=None):
            log._note(s, k, "R")
            return dict.get(s, k, d)

        def de(s, k):
            log._note(s, k, "W")
            return dict.__delitem__(s, k)

        def po(s, k, *d):
            log._note(s, k, "R")
            return dict.pop(s, k, *d)

        def sd(s, k, d=None):
            log._note(s, k, "R")
            return dict.setdefault(s, k, d)
        cls.__getitem__, cls.__setitem__, cls.__contains__, cls.get = gi, si, co, ge
        cls.__delitem__, cls.pop, cls.setdefault = de, po, sd
        return self

    def __exit__(self, *a):
        cls = pandapowerNet
        for n, f in self._saved.items():
            if f is None:
                try:
                    delattr(cls, n)
                except AttributeError:
                    pass
            else:
                setattr(cls, n, f)
