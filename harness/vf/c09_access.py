"""C09: log of key accesses on pandapowerNet objects (first access per key = read or write), harness process only."""
from pandapower.auxiliary import pandapowerNet


class AccessLog:
    """while active, every item access on ANY pandapowerNet is recorded for the net object given"""

    def __init__(self, net, sub=()):
        """sub: top-level keys whose value is a dict whose entries are logged one by one (as "<key>/<entry>"); the dict
        object is replaced by a logging copy for the duration of the block"""
        self.net_id = id(net)
        self.net = net
        self.sub = tuple(sub)
        self.first = {}       # key -> 'R' | 'W'
        self.events = []

    def _note(self, obj, key, kind):
        if id(obj) == self.net_id and isinstance(key, str):
            if key not in self.first:
                self.first[key] = kind
            self.events.append((kind, key))

    def __enter__(self):
        log = self
        cls = pandapowerNet
        for k in self.sub:
            if dict.__contains__(self.net, k) and isinstance(dict.__getitem__(self.net, k), dict):
                dict.__setitem__(self.net, k, LoggedDict(self, k, dict.__getitem__(self.net, k)))
        self._saved = {n: cls.__dict__.get(n) for n in ("__getitem__", "__setitem__", "__contains__", "get", "__delitem__", "pop", "setdefault")}

        def gi(s, k):
            log._note(s, k, "R")
            return dict.__getitem__(s, k)

        def si(s, k, v):
            log._note(s, k, "W")
            return dict.__setitem__(s, k, v)

        def co(s, k):
            log._note(s, k, "R")
            return dict.__contains__(s, k)

        def ge(s, k, d=None):
            log._note(s, k, "R")
            return dict.get(s, k, d)

        def de(s, k):
            log._note(s, k, "W")
            return dict.__delitem__(s, k)

        def po(s, k, *d):
            log._note(s, k, "R")
            return dict.pop(s, k, *d)

        def sd(s, k, d=None):
            log._note(s, k, "R")
            return dict.setdefault(s, k, d)
        cls.__getitem__, cls.__setitem__, cls.__contains__, cls.get = gi, si, co, ge
        cls.__delitem__, cls.pop, cls.setdefault = de, po, sd
        return self

    def __exit__(self, *a):
        cls = pandapowerNet
        for k in self.sub:
            if dict.__contains__(self.net, k) and isinstance(dict.__getitem__(self.net, k), LoggedDict):
                dict.__setitem__(self.net, k, dict(dict.__getitem__(self.net, k)))
        for n, f in self._saved.items():
            if f is None:
                try:
                    delattr(cls, n)
                except AttributeError:
                    pass
            else:
                setattr(cls, n, f)


class LoggedDict(dict):
    """a dict that reports the first access per entry to an AccessLog under the key "<name>/<entry>" """

    def __init__(self, log, name, content):
        dict.__init__(self, content)
        self._log, self._name = log, name

    def _n(self, k, kind):
        key = "%s/%s" % (self._name, k)
        if key not in self._log.first:
            self._log.first[key] = kind
        self._log.events.append((kind, key))

    def __getitem__(self, k):
        self._n(k, "R")
        return dict.__getitem__(self, k)

    def __setitem__(self, k, v):
        self._n(k, "W")
        return dict.__setitem__(self, k, v)

    def __contains__(self, k):
        self._n(k, "R")
        return dict.__contains__(self, k)

    def get(self, k, d=None):
        self._n(k, "R")
        return dict.get(self, k, d)

    def pop(self, k, *d):
        self._n(k, "R")
        return dict.pop(self, k, *d)

    def setdefault(self, k, d=None):
        self._n(k, "R")
        return dict.setdefault(self, k, d)

    def __delitem__(self, k):
        self._n(k, "W")
        return dict.__delitem__(self, k)

    def __reduce__(self):
        return (dict, (dict(self),))

    def __deepcopy__(self, memo):
        import copy
        return copy.deepcopy(dict(self), memo)
