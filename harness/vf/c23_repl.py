"""C23 helpers: nets, Gallina emitters and observation points for the ward / xward / ext_grid replacements (coq/C23/Repl.v)
and for fuse_buses (coq/C23/Fuse.v on C07.Model.net)."""
import copy, math
from fractions import Fraction
import numpy as np
import pandapower as pp
import pandapower.toolbox as tb
from pandapower.pd2ppc import _pd2ppc
from pandapower.pypower.idx_bus import PD, QD, GS, BS, BASE_KV, BUS_TYPE, VM, VA
from pandapower.pypower.idx_brch import BR_R, BR_X, BR_R_ASYM, BR_X_ASYM, BR_STATUS
from pandapower.pypower.idx_gen import PG, VG, GEN_BUS
from vf import coqrun as cq, nets


def q(x):
    return cq.q(Fraction(float(x)))


def b(x):
    return cq.b(bool(x))


# ------------------------------------------------------------------ generator
def repl_net(rng):
    """meshed 20 kV net (optional 110 kV feeder) without sgens; net.sn_mva in {1, 10, 100}; 1-3 wards and 0-2 xwards with
    shuffled gapped indices, sometimes several at one bus, sometimes out of service; shunts with vn_kv equal to or different from
    the bus voltage and step in {1, 2}; load scaling; sometimes an out-of-service bus carrying elements, sometimes a closed
    bus-bus switch (two buses share one ppc row)"""
    net = nets.rand_net(rng, nb=rng.randint(4, 7), chords=rng.randint(1, 2), n_trafo=rng.choice([0, 1]),
                        shuffle_index=rng.random() < 0.6, sgens=False, line_params=True)
    net.sn_mva = rng.choice([1.0, 10.0, 100.0])
    b20 = [int(x) for x in net.bus.index if net.bus.vn_kv.at[x] == 20.0]
    for i in net.load.index:
        net.load.at[i, "scaling"] = rng.choice([1.0, 1.0, 0.5, 1.25])
        if rng.random() < 0.1:
            net.load.at[i, "in_service"] = False
    widx = rng.sample(range(8), rng.randint(1, 3))
    for i in widx:
        pp.create_ward(net, rng.choice(b20), rng.randint(0, 16) / 16, rng.randint(-8, 8) / 16, rng.randint(0, 16) / 16,
                       rng.randint(-8, 8) / 16, index=i, in_service=rng.random() > 0.15)
    for i in rng.sample(range(6), rng.randint(0, 2)):
        pp.create_xward(net, rng.choice(b20), rng.randint(0, 16) / 16, rng.randint(-8, 8) / 16, rng.randint(0, 16) / 16,
                        rng.randint(-8, 8) / 16, rng.randint(1, 16) / 8, rng.randint(1, 32) / 8, rng.choice([1.0, 1.02, 0.98]),
                        index=i, in_service=rng.random() > 0.15)
    for _ in range(rng.randint(0, 2)):
        pp.create_shunt(net, rng.choice(b20), rng.randint(-8, 8) / 8, rng.randint(0, 4) / 8, vn_kv=rng.choice([None, 20.0, 22.0]),
                        step=rng.choice([1, 1, 2]), max_step=2, in_service=rng.random() > 0.15)
    if rng.random() < 0.3 and len(b20) > 3:
        a, c = rng.sample(b20[1:], 2)
        pp.create_switch(net, a, c, et="b", closed=True)
    if rng.random() < 0.2 and len(b20) > 3:
        net.bus.at[rng.choice(b20[2:]), "in_service"] = False
    return net


# ------------------------------------------------------------------ Gallina term of C23.Repl.net
def repl_net_term(net):
    buses = ["(Build_busr %d %s %s)" % (i, q(v), b(s)) for i, v, s in zip(net.bus.index, net.bus.vn_kv.values, net.bus.in_service.values)]
    loads = ["(Build_load %d %s %s %s %s)" % (bb, q(p), q(qq), q(sc), b(s)) for bb, p, qq, sc, s in
             zip(net.load.bus.values, net.load.p_mw.values, net.load.q_mvar.values, net.load.scaling.values, net.load.in_service.values)]
    shunts = ["(Build_shunt %d %s %s %s %s %s)" % (bb, q(p), q(qq), q(vn), q(st), b(s)) for bb, p, qq, vn, st, s in
              zip(net.shunt.bus.values, net.shunt.p_mw.values, net.shunt.q_mvar.values, net.shunt.vn_kv.values,
                  net.shunt.step.values, net.shunt.in_service.values)]
    wards = ["(Build_ward %d %d %s %s %s %s %s)" % (i, w.bus, q(w.ps_mw), q(w.qs_mvar), q(w.pz_mw), q(w.qz_mvar), b(w.in_service))
             for i, w in zip(net.ward.index, net.ward.itertuples())]
    xwards = ["(Build_xward %d %d %s %s %s %s %s %s %s %s)" % (i, x.bus, q(x.ps_mw), q(x.qs_mvar), q(x.pz_mw), q(x.qz_mvar),
                                                               q(x.r_ohm), q(x.x_ohm), q(x.vm_pu), b(x.in_service))
              for i, x in zip(net.xward.index, net.xward.itertuples())]
    gens = ["(Build_gen %d %s %s %s %s %s)" % (g.bus, q(g.p_mw), q(g.vm_pu), q(g.scaling), b(g.slack), b(g.in_service))
            for g in net.gen.itertuples()]
    egs = ["(Build_egrid %d %d %s %s %s)" % (i, e.bus, q(e.vm_pu), q(e.va_degree), b(e.in_service))
           for i, e in zip(net.ext_grid.index, net.ext_grid.itertuples())]
    assert len(net.impedance) == 0
    return "(Build_net %s %s %s %s %s %s %s %s [])" % (q(net.sn_mva), cq.lst(buses), cq.lst(loads), cq.lst(shunts), cq.lst(wards),
                                                      cq.lst(xwards), cq.lst(gens), cq.lst(egs))


# ------------------------------------------------------------------ observation of the real power flow build
def fresh_ppc(net, cva=True):
    """the ppc of the power flow build (options of runpp; the solver result is irrelevant here)"""
    try:
        pp.runpp(net, numba=False, calculate_voltage_angles=cva, max_iteration=5)
    except Exception:
        pass
    net._pd2ppc_lookups = {"bus": np.array([], dtype=np.int64), "bus_dc": np.array([], dtype=np.int64),
                           "ext_grid": np.array([], dtype=np.int64), "gen": np.array([], dtype=np.int64),
                           "branch": np.array([], dtype=np.int64), "branch_dc": np.array([], dtype=np.int64)}
    ppc, _ = _pd2ppc(net)
    return ppc


def observe_rows(net, ppc):
    """lookup pairs (bus -> row), BASE_KV per row, and PD QD GS BS of every row of a pandapower bus"""
    lk = net._pd2ppc_lookups["bus"]
    pairs = [(int(bb), int(lk[bb])) for bb in net.bus.index]
    rows = sorted(set(r for _, r in pairs))
    bk = [(r, float(ppc["bus"][r, BASE_KV])) for r in rows]
    vals = {r: [float(ppc["bus"][r, c]) for c in (PD, QD, GS, BS)] for r in rows}
    return pairs, bk, rows, vals


def pairs_term(pairs):
    return cq.lst(["(%d, %d)%%nat" % p for p in pairs])


def bk_term(bk):
    return cq.lst(["(%d%%nat, %s)" % (r, q(v)) for r, v in bk])


def nats(l):
    return cq.lst(["%d%%nat" % int(i) for i in l])


def observe_xward_sources(net, ppc):
    """per xward: [BR_R, BR_X, R_ASYM, X_ASYM, VG, PG, status] of its internal branch and PV node (None if not in service)"""
    out = []
    if not len(net.xward):
        return out
    f, t = net._pd2ppc_lookups["branch"]["xward"]
    ise = net._is_elements["xward"]
    go = net._gen_order.get("xward")
    k = 0
    for pos in range(len(net.xward)):
        br = ppc["branch"][f + pos]
        if ise[pos]:
            g = ppc["gen"][go[0] + k]
            k += 1
            vg, pg = float(g[VG]), float(g[PG])
        else:
            vg, pg = float(net.xward.vm_pu.values[pos]), 0.0
        out.append([float(br[BR_R].real), float(br[BR_X].real), float(br[BR_R_ASYM].real), float(br[BR_X_ASYM].real), vg, pg,
                    bool(br[BR_STATUS].real)])
    return out


def observe_internal_sources(net, ppc, new_imp, new_gen):
    """the same for the created impedance / gen pairs"""
    out = []
    f, t = net._pd2ppc_lookups["branch"]["impedance"]
    ipos = {int(i): p for p, i in enumerate(net.impedance.index)}
    gis = net._is_elements["gen"]
    go = net._gen_order.get("gen")
    gpos = {}
    k = 0
    for p, i in enumerate(net.gen.index):
        if gis[p]:
            gpos[int(i)] = go[0] + k
            k += 1
    for i, g in zip(new_imp, new_gen):
        br = ppc["branch"][f + ipos[int(i)]]
        if int(g) in gpos:
            row = ppc["gen"][gpos[int(g)]]
            vg, pg, on = float(row[VG]), float(row[PG]), True
        else:
            vg, pg, on = float(net.gen.vm_pu.at[g]), float(net.gen.p_mw.at[g] * net.gen.scaling.at[g]), False
        out.append([float(br[BR_R].real), float(br[BR_X].real), float(br[BR_R_ASYM].real), float(br[BR_X_ASYM].real), vg, pg,
                    bool(br[BR_STATUS].real) and on])
    return out


def close(a, c, tol=1e-9):
    if isinstance(a, bool) or isinstance(c, bool):
        return bool(a) == bool(c)
    if a is None or c is None:
        return a is None and c is None
    a, c = float(a), float(c)
    return abs(a - c) <= tol * max(1.0, abs(a))


def close_rows(x, y, tol=1e-9):
    return len(x) == len(y) and all(len(r) == len(s) and all(close(u, v, tol) for u, v in zip(r, s)) for r, s in zip(x, y))


# ------------------------------------------------------------------ fuse_buses: the topology tables as nested lists (C23.Fuse.onet)
ET = {"b": 0, "l": 1, "t": 2, "t3": 3}


def topo_lists(net):
    def br2(tab, f, t):
        return [[int(i), int(a), int(c), bool(s)] for i, a, c, s in zip(net[tab].index, net[tab][f].values, net[tab][t].values,
                                                                        net[tab].in_service.values)]
    injs = []
    for bq, s in zip(net.ext_grid.bus.values, net.ext_grid.in_service.values):
        injs.append([int(bq), bool(s), True, True])
    for bq, s, sl in zip(net.gen.bus.values, net.gen.in_service.values, net.gen.slack.values):
        injs.append([int(bq), bool(s), True, bool(sl)])
    for f, t, s in zip(net.dcline.from_bus.values, net.dcline.to_bus.values, net.dcline.in_service.values):
        injs.append([int(t), bool(s), True, False])
        injs.append([int(f), bool(s), True, False])
    for tab in ("load", "motor", "sgen", "shunt", "ward"):
        for bq, s in zip(net[tab].bus.values, net[tab].in_service.values):
            injs.append([int(bq), bool(s), False, False])
    return [[[int(i), bool(s)] for i, s in zip(net.bus.index, net.bus.in_service.values)],
            br2("line", "from_bus", "to_bus"), br2("trafo", "hv_bus", "lv_bus"),
            [[int(i), int(a), int(c), int(d), bool(s)] for i, a, c, d, s in
             zip(net.trafo3w.index, net.trafo3w.hv_bus.values, net.trafo3w.mv_bus.values, net.trafo3w.lv_bus.values,
                 net.trafo3w.in_service.values)],
            br2("impedance", "from_bus", "to_bus"), br2("dcline", "from_bus", "to_bus"),
            [[int(bq), bool(s)] for bq, s in zip(net.xward.bus.values, net.xward.in_service.values)],
            [[int(a), int(e), ET[k], bool(c), bool(z > 0)] for a, e, k, c, z in
             zip(net.switch.bus.values, net.switch.element.values, net.switch.et.values, net.switch.closed.values,
                 net.switch.z_ohm.values)],
            injs]


def lookup_partition(net, buses=None):
    """partition of the in-service buses into ppc rows (net._pd2ppc_lookups['bus'] of a fresh build)"""
    lk = net._pd2ppc_lookups["bus"]
    isb = [int(x) for x in net.bus.index if net.bus.in_service.at[x]]
    if buses is not None:
        isb = [x for x in isb if x in buses]
    cls = {}
    for x in isb:
        cls.setdefault(int(lk[x]), []).append(x)
    return sorted(sorted(v) for v in cls.values())


def partition_of(rep, buses):
    cls = {}
    for x in buses:
        cls.setdefault(rep[x], []).append(x)
    return sorted(sorted(v) for v in cls.values())
