"""C17 — OPF minimises exactly the user-defined cost functions.

Correspondence: ppci["gencost"] handed to pypower's opf() (captured white-box, no solver), pypower totcost on
chosen points and the objective value `f` returned by real runopp/rundcopp runs, against C17.Model
(make_objective / totcost / objective).
Oracle: sum of the user's poly / pwl cost functions at each element's own result power against net.res_cost
(AC and DC OPF); for DC OPF an independent exact optimum (Fractions, lambda search + exact KKT check that the
Coq theorem C17_kkt_global_min turns into global optimality)."""
import copy, json, math, os
from fractions import Fraction as F
import numpy as np
import pandapower as pp
from vf import coqrun as cq
from vf import c17_opf as G

RULE = ("OPF problems (net.sn_mva in {1, 10, 100}, AC and DC) on 2-5 bus meshed 20 kV nets with 0-2 gens (gapped indices), sgens, controllable loads, storages, "
        "0-2 dclines, 15 % of the elements out of service, poly costs (integer/half-integer cp0/cp1/cp2/cq0/cq1/cq2) or "
        "convex pwl costs (1-5 areas, 85 % with two or more) or both on all six element kinds; non-trivial = at least two cost entries and at "
        "least one entry on a load/storage/dcline or on an element that is out of service")
ASSUMPTIONS = ["a DC OPF has no reactive power: reactive cost terms (cq*, pwl of power_type q) are not part of the DC problem (pypower drops the reactive rows) and are left out of the expected sum for rundcopp",
               "PIPS (AC and DC) is an oracle: only runs reporting success are judged, its exit tolerances are trusted",
               "at a returned optimum each constrained cost variable y equals the maximum of its segment lines (it is minimised)",
               "numpy fancy-index assignment with repeated row indices keeps the last value (modelled as sequential writes)"]
TRUSTED = ["white-box capture by swapping the module attribute pandapower.optimal_powerflow.opf in the harness process",
           "python re-implementation of the guard of the remaining known finding and of the user cost functions (harness/props/c17.py)"]

KINDS = ["C17-poly-mixed-with-pwl-keeps-only-cp1"]
COL = {"cp0": "cp0_eur", "cp1": "cp1_eur_per_mw", "cp2": "cp2_eur_per_mw2", "cq0": "cq0_eur", "cq1": "cq1_eur_per_mvar",
       "cq2": "cq2_eur_per_mvar2"}


# ------------------------------------------------------------------ input normalisation
def neutralise(net):
    """cost entries of elements that are not OPF variables get user functions that are zero at the element's
    own (fixed / zero) power, so that the expected sum does not depend on how such entries are treated"""
    for i in net.poly_cost.index:
        et, el = net.poly_cost.at[i, "et"], net.poly_cost.at[i, "element"]
        tab = net[et]
        if not bool(tab.in_service.at[el]):
            net.poly_cost.at[i, "cp0_eur"] = 0.0
            net.poly_cost.at[i, "cq0_eur"] = 0.0
        elif et in ("sgen", "load", "storage") and not bool(tab.controllable.at[el]):
            for c in COL.values():
                net.poly_cost.at[i, c] = 0.0
    for i in net.pwl_cost.index:
        et, el = net.pwl_cost.at[i, "et"], net.pwl_cost.at[i, "element"]
        tab = net[et]
        if not bool(tab.in_service.at[el]):
            pts = net.pwl_cost.at[i, "points"]
            net.pwl_cost.at[i, "points"] = [[0.0, 1.0, pts[0][2]]]
        elif et in ("sgen", "load", "storage") and not bool(tab.controllable.at[el]):
            net.pwl_cost.at[i, "points"] = [[0.0, 1.0, 0.0]]


def poly_entries(net):
    return [dict(et=r.et, el=int(r.element), **{k: float(getattr(r, c)) for k, c in COL.items()})
            for r in net.poly_cost.itertuples()]


def pwl_entries(net):
    return [dict(et=r.et, el=int(r.element), q=(r.power_type == "q"), pts=[[float(x) for x in p] for p in r.points])
            for r in net.pwl_cost.itertuples()]


# ------------------------------------------------------------------ Gallina terms
def _lk(cap, key):
    v = cap["lookups"].get(key)
    if v is None:
        return "None"
    return "(Some %s)" % cq.lst([cq.z(int(x)) for x in v])


def env_term(cap):
    return ("{| lk_gen := %s; lk_sgen := %s; lk_load := %s; lk_storage := %s; lk_ext := %s; n_gen_tab := %s; "
            "gen_labels := %s; dcl_index := %s; ng := %s |}") % (
        _lk(cap, "gen"), _lk(cap, "sgen_controllable"), _lk(cap, "load_controllable"), _lk(cap, "storage_controllable"),
        _lk(cap, "ext_grid"), cq.z(cap["n_gen_tab"]), cq.lst([cq.z(i) for i in cap["gen_index"]]),
        cq.lst([cq.z(i) for i in cap["dcl_index"]]), cq.nat(len(cap["gen"])))


def pc_term(c):
    return "{| pc_et := %s; pc_el := %s; cp0 := %s; cp1 := %s; cp2 := %s; cq0 := %s; cq1 := %s; cq2 := %s |}" % (
        G.ETC[c["et"]], cq.z(c["el"]), cq.q(c["cp0"]), cq.q(c["cp1"]), cq.q(c["cp2"]), cq.q(c["cq0"]), cq.q(c["cq1"]), cq.q(c["cq2"]))


def wc_term(w):
    return "{| w_et := %s; w_el := %s; w_q := %s; w_pts := %s |}" % (
        G.ETC[w["et"]], cq.z(w["el"]), cq.b(w["q"]),
        cq.lst(["(%s, %s, %s)" % (cq.q(a), cq.q(b_), cq.q(s)) for a, b_, s in w["pts"]]))


def make_term(cap, pcs, wcs, xs, bits=None, dc=False):
    from pandapower.pypower.idx_gen import PMIN, PMAX
    pmin = cq.lst([cq.q(float(x)) for x in cap["gen"][:, PMIN]])
    pmax = cq.lst([cq.q(float(x)) for x in cap["gen"][:, PMAX]])
    return "run_make %s %s %s %s %s %s %s" % (env_term(cap), cq.lst([pc_term(c) for c in pcs]), cq.lst([wc_term(w) for w in wcs]),
                                            pmin, pmax, cq.lst([cq.q(float(x), bits) for x in xs]), cq.b(dc))


# ------------------------------------------------------------------ python guards (mirror of C17.Model G17*, by input)
def lookup_value(cap, et, el):
    """what _get_gen_index returns (None / int), re-derived from the captured lookups"""
    if et == "dcline":
        k = cap["dcl_index"].index(el)
        el = cap["gen_index"][cap["n_gen_tab"] - 2 * len(cap["dcl_index"]) + 2 * k + 1]
        et = "gen"
    key = "%s_controllable" % et if et in ("load", "sgen", "storage") else et
    arr = cap["lookups"].get(key)
    if arr is None:
        return None
    n = len(arr)
    if -n <= el < n:
        g = int(arr[el])
        return g if g >= 0 else None
    return None


def failing_guards(cap, pcs, wcs, ac=True):
    """names of the known-finding guards that are false for this input"""
    mapped_p = [(c, lookup_value(cap, c["et"], c["el"])) for c in pcs]
    # poly costs in a net that also has pwl costs keep only cp1 (_add_linear_costs_as_pwl_cost)
    if wcs and any(g is not None and (c["cp0"] != 0 or ((c["cq0"] != 0 or c["cq1"] != 0) and ac)) for c, g in mapped_p):
        return [KINDS[0]]
    return []


# ------------------------------------------------------------------ user cost (the spec), evaluated on result tables
def user_pwl(pts, p):
    v = pts[0][0] * pts[0][2]
    for k, (l, u, s) in enumerate(pts):
        if p < u or k == len(pts) - 1:
            return v + (p - l) * s
        v += (u - l) * s
    return v


def own_power(net, et, el):
    if et == "dcline":
        return float(net.res_dcline.p_from_mw.at[el]), float(net.res_dcline.q_from_mvar.at[el])
    r = net["res_" + et]
    return float(r.p_mw.at[el]), float(r.q_mvar.at[el])


def user_cost(net, pcs, wcs, ac=True):
    """sum of the user's functions at the own result powers; a DC OPF has no reactive power (reactive terms are not part of the problem)"""
    tot = 0.0
    for c in pcs:
        if not bool(net[c["et"]].in_service.at[c["el"]]):
            continue  # neutralised: contributes 0 either way
        p, qv = own_power(net, c["et"], c["el"])
        if p != p:
            continue
        tot += c["cp2"] * p * p + c["cp1"] * p + c["cp0"]
        if ac:
            tot += c["cq2"] * qv * qv + c["cq1"] * qv + c["cq0"]
    for w in wcs:
        if not bool(net[w["et"]].in_service.at[w["el"]]):
            continue
        p, qv = own_power(net, w["et"], w["el"])
        if w["q"] and not ac:
            continue
        tot += user_pwl(w["pts"], qv if w["q"] else p)
    return tot


# ------------------------------------------------------------------ observed OPF run
def run_observed(net, ac):
    """real OPF; records the ppci result (PG/QG of the internal gens and the objective f)"""
    import pandapower.optimal_powerflow as om
    from pandapower.pypower.idx_gen import PG, QG
    orig = om.opf
    box = {}

    def wrap(ppci, ppopt):
        r = orig(ppci, ppopt)
        box["success"] = bool(r["success"])
        box["f"] = float(r["f"])
        box["pg"] = [float(x) for x in r["gen"][:, PG]]
        box["qg"] = [float(x) for x in r["gen"][:, QG]]
        return r

    om.opf = wrap
    n0 = len(net.gen)
    try:
        (pp.runopp if ac else pp.rundcopp)(net)
        box["converged"] = True
    except Exception as e:
        box["converged"] = False
        box["exc"] = type(e).__name__
        if len(net.gen) > n0:
            net.gen = net.gen.drop(net.gen.index[n0:])
    finally:
        om.opf = orig
    return box


def err_class(e):
    return type(e).__name__


class _Stop(Exception):
    pass


def observe_ay(net, ac):
    """the cost-variable constraints the real opf_setup builds: runs runopp/rundcopp up to (not including) the solver
    with pandapower.pypower.opf_setup.makeAy wrapped.  Returns [[row, column or None, [[m per MW, b], ...]], ...]"""
    import pandapower.pypower.opf as opfm
    import pandapower.pypower.opf_setup as osm
    from pandapower.pypower.idx_cost import MODEL, NCOST
    rec = {}
    orig_ay, orig_ex = osm.makeAy, opfm.opf_execute

    def way(baseMVA, ng, gencost, pgbas, qgbas, ybas):
        Ay, by = orig_ay(baseMVA, ng, gencost, pgbas, qgbas, ybas)
        rec.update(baseMVA=float(baseMVA), gencost=gencost.copy(), ybas=int(ybas),
                   Ay=(Ay.toarray() if hasattr(Ay, "toarray") else np.array(Ay, dtype=float)), by=np.array(by, dtype=float))
        return Ay, by

    def wex(om, ppopt):
        raise _Stop()

    osm.makeAy, opfm.opf_execute = way, wex
    n0 = len(net.gen)
    try:
        (pp.runopp if ac else pp.rundcopp)(net)
    except _Stop:
        pass
    except Exception:
        return None
    finally:
        osm.makeAy, opfm.opf_execute = orig_ay, orig_ex
        if len(net.gen) > n0:
            net.gen = net.gen.drop(net.gen.index[n0:])
    if "Ay" not in rec:
        return None
    Ay, by, y0 = rec["Ay"], rec["by"], rec["ybas"] - 1
    iy = [int(i) for i in np.flatnonzero(rec["gencost"][:, MODEL] == 1)]
    out = []
    for j, i in enumerate(iy):
        ks = [k for k in range(Ay.shape[0]) if Ay[k, y0 + j] == -1.0]
        cols = sorted({int(c) for k in ks for c in np.flatnonzero(Ay[k, :y0])})
        if len(ks) != int(rec["gencost"][i, NCOST]) - 1 or len(cols) > 1:
            return "layout"
        col = cols[0] if cols else None
        out.append([i, col, [[(float(Ay[k, col]) / rec["baseMVA"]) if col is not None else 0.0, float(by[k])] for k in ks]])
    if sum(len(r[2]) for r in out) != Ay.shape[0]:
        return "layout"
    return out


def check_structure(ctx, net, cap, desc):
    """hypotheses of C17_dcline_row_spec / C17_map_costs_rows_valid observed on the real tables"""
    gi, aux, ndc = cap["gen_index"], cap.get("aux_gens", []), len(cap["dcl_index"])
    ok = (len(aux) == 2 * ndc and gi[len(gi) - len(aux):] == aux and cap["n_gen_tab"] == len(gi)
          and len(set(cap["dcl_index"])) == ndc)
    if ok and ndc:
        gt = cap["gen_table"]
        ok = all(int(gt.bus.at[aux[2 * k + 1]]) == cap["dcl_from_bus"][k] for k in range(ndc))
    ctx.corr_checked += 1
    if not ok:
        ctx.disagreement("net.gen is not user gens ++ (to-bus gen, from-bus gen) per dcline: index=%s aux=%s dcline=%s" % (
            gi, aux, cap["dcl_index"]), desc)
    ng = len(cap["gen"])
    for key in ("gen", "sgen_controllable", "load_controllable", "storage_controllable", "ext_grid"):
        v = cap["lookups"].get(key)
        if v is not None and len(v) and int(np.max(v)) >= ng:
            ctx.disagreement("lookup %s holds %d >= len(ppci gen) = %d" % (key, int(np.max(v)), ng), desc)


def rows_of(gc):
    from pandapower.pypower.idx_cost import MODEL, NCOST, COST
    return [[int(r[MODEL]), int(r[NCOST]), [F(float(x)) for x in r[COST:]]] for r in gc]


def close(a, b, tol=1e-9):
    if a is None or b is None:
        return a is None and b is None
    a, b = float(a), float(b)
    return abs(a - b) <= tol * max(1.0, abs(a), abs(b))


def rows_close(ri, rm):
    if len(ri) != len(rm):
        return False
    for a, b in zip(ri, rm):
        if a[0] != b[0] or a[1] != b[1] or len(a[2]) != len(b[2]):
            return False
        if not all(close(x, y) for x, y in zip(a[2], b[2])):
            return False
    return True


# ------------------------------------------------------------------ independent exact DC optimum
def dc_exact(net, pcs):
    """min sum user cost s.t. sum of injections = fixed demand, boxes; exact (Fractions).
    Returns (cost, kkt_ok) or None when the problem is outside the scope (pwl, dcline, q, non-convex)."""
    if len(net.dcline) or len(net.pwl_cost):
        return None
    vars_ = []   # (sign, lo, hi, c2, c1, c0) in the element's own sign convention p in [lo,hi]; injection = -sign... see below
    cmap = {(c["et"], c["el"]): c for c in pcs}
    D = F(0)
    for et in ("ext_grid", "gen", "sgen", "load", "storage"):
        tab = net[et]
        for el in tab.index:
            if not bool(tab.in_service.at[el]):
                continue
            ctrl = True
            if et in ("sgen", "load", "storage"):
                ctrl = bool(tab.controllable.at[el])
            if et == "gen" and "controllable" in tab.columns:
                ctrl = bool(tab.controllable.at[el])
            inj = -1 if et in ("load", "storage") else 1
            if not ctrl:
                sc = F(float(tab.scaling.at[el])) if "scaling" in tab.columns else F(1)
                D -= inj * F(float(tab.p_mw.at[el])) * sc
                continue
            c = cmap.get((et, int(el)), None)
            c2, c1, c0 = (F(c["cp2"]), F(c["cp1"]), F(c["cp0"])) if c else (F(0), F(0), F(0))
            if c2 < 0:
                return None
            vars_.append((inj, F(float(tab.min_p_mw.at[el])), F(float(tab.max_p_mw.at[el])), c2, c1, c0))
    # in injection variable x = inj*p : cost c2 x^2 + inj*c1 x + c0, x in [min(inj*lo,inj*hi), max(...)]
    V = []
    for inj, lo, hi, c2, c1, c0 in vars_:
        a, b_ = sorted((inj * lo, inj * hi))
        V.append((a, b_, c2, inj * c1, c0))
    if not V or sum(a for a, *_ in V) > D or sum(b_ for _, b_, *_ in V) < D:
        return None

    def x_of(lmb, v, side):
        a, b_, c2, c1, c0 = v
        if c2 > 0:
            return min(b_, max(a, (lmb - c1) / (2 * c2)))
        if lmb < c1:
            return a
        if lmb > c1:
            return b_
        return a if side < 0 else b_

    bps = sorted({2 * c2 * a + c1 for a, b_, c2, c1, c0 in V} | {2 * c2 * b_ + c1 for a, b_, c2, c1, c0 in V})
    lam = None
    xs = None
    for i, bp in enumerate(bps):
        lo_t = sum(x_of(bp, v, -1) for v in V)
        hi_t = sum(x_of(bp, v, +1) for v in V)
        if lo_t <= D <= hi_t:
            lam = bp
            xs = [x_of(bp, v, -1) for v in V]
            rest = D - lo_t
            for k, v in enumerate(V):
                room = x_of(bp, v, +1) - xs[k]
                t = min(room, rest)
                xs[k] += t
                rest -= t
            break
        if i + 1 < len(bps):
            nb_ = bps[i + 1]
            if hi_t < D < sum(x_of(nb_, v, -1) for v in V):
                # strictly between breakpoints total is affine in lambda
                l0 = (bp + nb_) / 2
                free = [v for v in V if v[2] > 0 and v[0] < (l0 - v[3]) / (2 * v[2]) < v[1]]
                fixed = sum(x_of(l0, v, -1) for v in V if v not in free)
                # sum_free (lam - c1)/(2 c2) = D - fixed
                s1 = sum(F(1) / (2 * v[2]) for v in free)
                s0 = sum(v[3] / (2 * v[2]) for v in free)
                lam = (D - fixed + s0) / s1
                xs = [x_of(lam, v, -1) for v in V]
                break
    if lam is None:
        return None
    # exact KKT check: stationarity with multiplier lam and bound multipliers of the right sign
    ok = sum(xs) == D
    for x, (a, b_, c2, c1, c0) in zip(xs, V):
        g = 2 * c2 * x + c1 - lam
        ok &= a <= x <= b_ and ((g == 0) or (g > 0 and x == a) or (g < 0 and x == b_))
    cost = sum(c2 * x * x + c1 * x + c0 for x, (a, b_, c2, c1, c0) in zip(xs, V))
    return cost, bool(ok)


# ------------------------------------------------------------------ one case
def judge_run(ctx, net, cap, pcs, wcs, ac, tag, desc, terms, pending):
    """real OPF run + spec oracle; model objective comparison is deferred (needs coq)"""
    box = run_observed(net, ac)
    ctx.count("%s_%s" % (tag, "converged" if box.get("converged") else "not_converged:" + box.get("exc", "?")))
    if not box.get("converged"):
        return
    res_cost = float(net.res_cost)
    user = user_cost(net, pcs, wcs, ac)
    Fg = failing_guards(cap, pcs, wcs, ac)
    xs = box["pg"] + (box["qg"] if (ac and len(cap["gencost"]) == 2 * len(cap["gen"])) else [])
    terms.append(make_term(cap, pcs, wcs, xs, bits=40, dc=not ac))
    from pandapower.pypower.idx_cost import NCOST, MODEL
    ccv = bool(np.any((cap["gencost"][:, MODEL] == 1) & (cap["gencost"][:, NCOST] > 2)))
    pending.append(dict(kind="objective", f=box["f"], res_cost=res_cost, user=user, guards=Fg, desc=desc, tag=tag, ac=ac,
                        dc_exact=None, ccv=ccv))
    if not ac and not Fg:
        ex = dc_exact(net, pcs)
        if ex is not None:
            pending[-1]["dc_exact"] = (float(ex[0]), ex[1])


def settle(ctx, rec, mod):
    """classification of one converged run once the model value is known"""
    desc = rec["desc"]
    # a constrained cost variable y only reaches the maximum of its lines up to the interior-point
    # complementarity gap (observed up to 6e-3): one-sided slack for problems with such rows
    slack = (1e-2 if rec["ccv"] else 0.0) * max(1.0, abs(rec["f"]))
    tol = 2e-5 * max(1.0, abs(rec["res_cost"]), abs(rec["user"])) + slack
    obj = mod[2] if isinstance(mod, list) else None
    ctx.corr_checked += 1
    agree = obj is not None and -1e-6 * max(1.0, abs(rec["f"])) <= rec["f"] - float(obj) <= 1e-6 * max(1.0, abs(rec["f"])) + slack
    if not agree:
        ctx.disagreement("%s: objective f=%r returned by opf() but the model objective at the returned Pg/Qg is %s" % (
            rec["tag"], rec["f"], None if obj is None else float(obj)), desc)
    if abs(rec["res_cost"] - rec["f"]) > 1e-9 * max(1.0, abs(rec["f"])):
        ctx.violation("spec", "net.res_cost %r is not the objective value %r" % (rec["res_cost"], rec["f"]), desc)
    if abs(rec["res_cost"] - rec["user"]) > tol:
        kind = rec["guards"][0] if (rec["guards"] and agree) else "spec"
        ctx.violation(kind, "%s: res_cost=%.6f but the user cost functions at the result powers sum to %.6f (failing guards %s)" % (
            rec["tag"], rec["res_cost"], rec["user"], rec["guards"]), desc)
        ctx.count("oracle_mismatch:" + kind)
    else:
        ctx.count("oracle_ok" + ("" if not rec["guards"] else "_despite_guard"))
    if rec["dc_exact"] is not None:
        ex, kkt = rec["dc_exact"]
        ctx.count("dc_exact_compared")
        if not kkt:
            ctx.violation("harness", "independent DC optimum failed its own exact KKT check", desc)
        elif abs(ex - rec["res_cost"]) > 1e-4 * max(1.0, abs(ex)):
            ctx.violation("spec", "DC OPF res_cost=%.6f but the exact optimum of the same problem is %.6f" % (rec["res_cost"], ex), desc)


def describe(net, ac):
    return {"net": pp.to_json(net), "ac": ac}


def one_case(ctx, net, ac, tag, terms, pending, run_opf=True, sample=False):
    from pandapower.pypower.totcost import totcost as pp_totcost
    rng = ctx.rng
    neutralise(net)
    pcs, wcs = poly_entries(net), pwl_entries(net)
    desc = describe(net, ac)
    cap = G.capture(net, ac=ac)
    nontriv = (len(pcs) + len(wcs) >= 2) and (any(c["et"] in G.NEG for c in pcs + wcs) or
                                            any(not bool(net[c["et"]].in_service.at[c["el"]]) for c in pcs + wcs))
    ctx.count("%s_costs_%d" % (tag, min(len(pcs) + len(wcs), 6)))
    ctx.count("sn_mva_%g" % float(net.sn_mva))
    for w in wcs:
        ctx.count("pwl_areas_%d%s" % (len(w["pts"]), "_mirrored" if w["et"] in G.NEG else ""))
    if any(len(w["pts"]) >= 2 for w in wcs):
        ctx.count("multi_area_pwl_sn_%g_%s" % (float(net.sn_mva), "ac" if ac else "dc"))
    for c in pcs + wcs:
        ctx.count("entry_" + c["et"])
    if cap.get("error") is not None or "gencost" not in cap:
        # the build raised: the model must raise the same class
        e = cap.get("error")
        ctx.count("build_raises:" + err_class(e))
        cap2 = _cap_without_objective(net, ac)
        if cap2 is None:
            ctx.case(desc, nontrivial=False)
            return
        terms.append(make_term(cap2, pcs, wcs, []))
        pending.append(dict(kind="raise", cls=err_class(e), desc=desc, tag=tag))
        ctx.case(desc, nontrivial=nontriv)
        return
    nrows = len(cap["gencost"])
    xs = [rng.randint(-12, 16) / 4 for _ in range(nrows)]
    tc = pp_totcost(cap["gencost"].copy(), np.array(xs))
    impl = [rows_of(cap["gencost"]), [None if not math.isfinite(v) else float(v) for v in tc]]
    terms.append(make_term(cap, pcs, wcs, xs))
    pending.append(dict(kind="build", impl=impl, desc=desc, tag=tag))
    # which row every cost key addresses (observed: the real _get_gen_index while the auxiliary gens exist)
    check_structure(ctx, net, cap, desc)
    if cap.get("gen_rows"):
        terms.append("run_rows %s %s" % (env_term(cap), cq.lst(["(%s, %s)" % (G.ETC[et], cq.z(el)) for et, el, _ in cap["gen_rows"]])))
        pending.append(dict(kind="rows", impl=[r for _, _, r in cap["gen_rows"]], desc=desc, tag=tag))
        for _, _, r in cap["gen_rows"]:
            ctx.count("gen_row_" + ("none" if r is None else "error" if isinstance(r, str) else "row"))
    # the cost-variable constraints of the real opf_setup (makeAy) against the model's ay_rows
    if wcs:
        ay = observe_ay(net, ac)
        if ay is not None:
            from pandapower.pypower.idx_gen import PMIN, PMAX
            terms.append("run_ay %s %s %s %s %s %s" % (
                env_term(cap), cq.lst([pc_term(c) for c in pcs]), cq.lst([wc_term(w) for w in wcs]),
                cq.lst([cq.q(float(x)) for x in cap["gen"][:, PMIN]]), cq.lst([cq.q(float(x)) for x in cap["gen"][:, PMAX]]),
                cq.b(not ac)))
            pending.append(dict(kind="ay", impl=ay, desc=desc, tag=tag))
            ctx.count("ay_observed_rows_%d" % min(len(ay), 3) if isinstance(ay, list) else "ay_layout_unexpected")
    Fg = failing_guards(cap, pcs, wcs, ac)
    for k in Fg:
        ctx.count("guard_fails:" + k)
    if not Fg:
        ctx.count("all_guards_hold")
    ctx.case(desc, nontrivial=nontriv,
             sample={"input": {"poly_cost": pcs, "pwl_cost": wcs, "lookups": {k: [int(x) for x in v] for k, v in cap["lookups"].items()
                                                                               if v is not None and k in ("gen", "ext_grid", "sgen_controllable", "load_controllable", "storage_controllable")}},
                     "impl_gencost": cap["gencost"].tolist()} if sample else None)
    if run_opf:
        judge_run(ctx, net, cap, pcs, wcs, ac, tag, desc, terms, pending)


def _cap_without_objective(net, ac):
    """lookups/gen of a build whose _make_objective raised: rerun the build with _make_objective stubbed"""
    import pandapower.pd2ppc as pd2
    orig = pd2._make_objective
    pd2._make_objective = lambda ppci, net: ppci.__setitem__("gencost", np.zeros((0, 4))) or ppci
    try:
        cap = G.capture(net, ac=ac)
    finally:
        pd2._make_objective = orig
    return cap if "gen" in cap else None


def finish(ctx, terms, pending):
    model = ctx.coq_eval("c17", "Base.QN C17.Model", terms, shard=100)
    for rec, mod in zip(pending, model):
        if rec["kind"] == "raise":
            ctx.corr_checked += 1
            if not (isinstance(mod, cq.Err) and mod.s == rec["cls"]):
                ctx.disagreement("impl raises %s building gencost, model gives %r" % (rec["cls"], mod), rec["desc"])
        elif rec["kind"] == "build":
            ctx.corr_checked += 1
            if isinstance(mod, cq.Err):
                ctx.disagreement("model raises %s, impl builds a gencost" % mod.s, rec["desc"])
                continue
            ri, ti = rec["impl"]
            if not rows_close(ri, mod[0]):
                ctx.disagreement("gencost differs: impl=%s model=%s" % (_fmt(ri), _fmt(mod[0])), rec["desc"])
            elif not all(close(a, b_, 1e-9) for a, b_ in zip(ti, mod[1])):
                ctx.disagreement("totcost differs: impl=%s model=%s" % (ti, [None if v is None else float(v) for v in mod[1]]), rec["desc"])
        elif rec["kind"] == "rows":
            ctx.corr_checked += 1
            got = [m.s if isinstance(m, cq.Err) else (None if m is None else int(m)) for m in mod] if isinstance(mod, list) else mod
            if got != rec["impl"]:
                ctx.disagreement("_get_gen_index returns %s, model %s" % (rec["impl"], got), rec["desc"])
        elif rec["kind"] == "ay":
            ctx.corr_checked += 1
            ok = isinstance(mod, list) and isinstance(rec["impl"], list) and len(mod) == len(rec["impl"])
            if ok:
                for ri, rm in zip(rec["impl"], mod):
                    ok = ok and ri[0] == int(rm[0]) and (ri[1] is None or ri[1] == int(rm[1])) and len(ri[2]) == len(rm[2]) \
                        and all(close(a[0], b_[0]) and close(a[1], b_[1]) for a, b_ in zip(ri[2], rm[2]))
            if not ok:
                ctx.disagreement("makeAy constraints differ: impl=%s model=%s" % (
                    rec["impl"], [[int(r[0]), int(r[1]), [[float(x) for x in mb] for mb in r[2]]] for r in mod] if isinstance(mod, list) else mod),
                    rec["desc"])
        else:
            settle(ctx, rec, mod)


def _fmt(rows):
    return [[r[0], r[1], [float(x) for x in r[2]]] for r in rows]


# ------------------------------------------------------------------ corpus
def corpus_nets():
    d = os.path.join(cq.VERIF, "corpus", "C17")
    out = []
    if os.path.isdir(d):
        for f in sorted(os.listdir(d)):
            if f.endswith(".json"):
                rec = json.load(open(os.path.join(d, f)))
                out.append((f, pp.from_json_string(rec["net"]), rec.get("ac", True)))
    return out


def run(ctx):
    rng = ctx.rng
    terms, pending = [], []
    for name, net, ac in corpus_nets():
        one_case(ctx, net, ac, "corpus", terms, pending, run_opf=True)
        ctx.count("corpus_cases")
    n = ctx.n(72, 900)
    for k in range(n):
        mode = k % 6
        pwl = mode in (2, 5)
        ac = mode not in (1, 5)
        if mode == 4:
            # clean convex problems for the exact DC optimum: no dcline, no q cost, all in service
            net = G.gen_net(rng, pwl=False, oos=0.0, gap=0.0, ndc_max=0, q_cost=False, sn_choices=(1.0, 10.0, 100.0))
            ac = False
            for i in net.poly_cost.index:
                if net.poly_cost.at[i, "et"] in G.NEG:
                    net.poly_cost.at[i, "cp2_eur_per_mw2"] = 0.0
                    net.poly_cost.at[i, "cp0_eur"] = 0.0
        else:
            net = G.gen_net(rng, pwl=pwl, q_cost=ac, sn_choices=(1.0, 10.0, 100.0), areas=(1, 2, 2, 3, 3, 4, 5))
        one_case(ctx, net, ac, ("ac" if ac else "dc") + ("_pwl" if pwl else "_poly"), terms, pending, run_opf=True, sample=k < 3)
    finish(ctx, terms, pending)


def replay(ctx, rec):
    case = rec.get("case", rec)
    if "net" in case:
        net = pp.from_json_string(case["net"])
        terms, pending = [], []
        one_case(ctx, net, case.get("ac", True), "replay", terms, pending, run_opf=True, sample=True)
        finish(ctx, terms, pending)
    else:
        run(ctx)
