"""C05 — power flow results are invariant under equivalent re-representations.
Oracle: metamorphic pairs on the real runpp (sn_mva change, bus/element relabelling + row permutation, load/sgen split,
parallel=n vs n lines, swapped line ends, inert elements, bus split by a closed zero-impedance bus-bus switch).
Correspondence: _sum_by_group, create_consecutive_bus_lookup and the per-unit line rows of net._ppc["branch"] vs
C05.Model; the fused-bus partition is tied in the C07 check."""
import copy, math
from fractions import Fraction
import numpy as np
import pandapower as pp
from vf import coqrun as cq

RULE = ("spec-built 4-9 bus 20 kV nets (tree + chords, line parameters on dyadic grids, parallel 1-3, one or two trafos from a "
        "110 kV slack, loads/sgens with several per bus) paired with each transformation applied at random elements; "
        "non-trivial = the base net converges and the transformation changes the tables")
ASSUMPTIONS = ["Newton-Raphson converges on both nets of a pair (pairs where either run raises are counted, not judged)",
               "results compared within 1e-6 (relative to max(1,|x|)); solver tolerance 1e-8 MVA",
               "2*pi*f*1e-9 enters the line model as an input computed by python math"]
TRUSTED = ["the spec -> net builder of this module (pandapower create_* functions)"]
TOL = 1e-6


# ------------------------------------------------------------------ spec based nets
def rand_spec(rng):
    nb = rng.randint(4, 9)
    buses = list(range(nb))
    spec = {"sn_mva": rng.choice([1.0, 1.0, 10.0]), "buses": [(b, 20.0) for b in buses] + [(nb, 110.0)], "lines": [], "trafos": [],
            "loads": [], "sgens": [], "ext": [(nb, rng.choice([1.0, 1.02]))], "switches": []}
    edges = []
    for i in range(1, nb):
        edges.append((rng.randrange(0, i), i))
    for _ in range(rng.randint(0, 2)):
        a, b = rng.sample(buses, 2)
        if (a, b) not in edges and (b, a) not in edges:
            edges.append((a, b))
    for k, (a, b) in enumerate(edges):
        spec["lines"].append({"id": k, "f": a, "t": b, "len": rng.randint(2, 24) / 8, "r": rng.randint(8, 40) / 64,
                              "x": rng.randint(8, 40) / 64, "c": rng.choice([0, 8, 160, 256]), "g": rng.choice([0, 0, 4]),
                              "imax": rng.randint(16, 40) / 64, "par": rng.choice([1, 1, 2, 3]), "is": True})
    for k in range(rng.choice([1, 1, 2])):
        spec["trafos"].append({"id": k, "hv": nb, "lv": k % nb, "std": rng.choice(["25 MVA 110/20 kV", "40 MVA 110/20 kV"]),
                               "shift_add": rng.choice([0, 0, 5.0])})
    lid = 0
    for b in buses:
        for _ in range(rng.choice([0, 1, 1, 2])):
            spec["loads"].append({"id": lid, "bus": b, "p": rng.randint(0, 24) / 16, "q": rng.randint(-4, 12) / 16, "is": True})
            lid += 1
    # a busbar section behind a coupler with a contact impedance (closed bus-bus switch, z_ohm > 0)
    if rng.random() < 0.4:
        sec = nb + 1
        spec["buses"].append((sec, 20.0))
        a = rng.choice(buses)
        spec["switches"].append({"bus": a, "el": sec, "closed": True, "z": rng.choice([0.25, 0.5, 1.0])} if rng.random() < 0.5
                                else {"bus": sec, "el": a, "closed": True, "z": rng.choice([0.25, 0.5, 1.0])})
        spec["loads"].append({"id": lid, "bus": sec, "p": rng.randint(4, 24) / 16, "q": rng.randint(0, 8) / 16, "is": True})
        lid += 1
    sid = 0
    for b in buses:
        if rng.random() < 0.3:
            spec["sgens"].append({"id": sid, "bus": b, "p": rng.randint(0, 16) / 16, "q": rng.randint(-4, 4) / 16, "is": True})
            sid += 1
    return spec


def build(spec):
    net = pp.create_empty_network(sn_mva=spec["sn_mva"])
    for bb in spec["buses"]:
        pp.create_bus(net, vn_kv=bb[1], index=bb[0], in_service=(bb[2] if len(bb) > 2 else True))
    for l in spec["lines"]:
        pp.create_line_from_parameters(net, l["f"], l["t"], length_km=l["len"], r_ohm_per_km=l["r"], x_ohm_per_km=l["x"],
                                       c_nf_per_km=l["c"], g_us_per_km=l["g"], max_i_ka=l["imax"], parallel=l["par"],
                                       in_service=l["is"], index=l["id"])
    for t in spec["trafos"]:
        if t.get("std") is None:
            pp.create_transformer_from_parameters(net, t["hv"], t["lv"], sn_mva=10, vn_hv_kv=20, vn_lv_kv=20, vkr_percent=0.5,
                                                  vk_percent=5, pfe_kw=0, i0_percent=0, index=t["id"])
        else:
            pp.create_transformer(net, t["hv"], t["lv"], std_type=t["std"], index=t["id"])
        if t.get("shift_add"):
            net.trafo.at[t["id"], "shift_degree"] = net.trafo.at[t["id"], "shift_degree"] + t["shift_add"]
    for l in spec["loads"]:
        pp.create_load(net, l["bus"], p_mw=l["p"], q_mvar=l["q"], in_service=l["is"], index=l["id"])
    for s in spec["sgens"]:
        pp.create_sgen(net, s["bus"], p_mw=s["p"], q_mvar=s["q"], in_service=s["is"], index=s["id"])
    for b, vm in spec["ext"]:
        pp.create_ext_grid(net, b, vm_pu=vm)
    for s in spec["switches"]:
        pp.create_switch(net, s["bus"], s["el"], et="b", closed=s["closed"], z_ohm=s.get("z", 0.0))
    return net


def results(net):
    """canonical results keyed by element id"""
    r = {"bus": {int(i): (net.res_bus.vm_pu.at[i], net.res_bus.va_degree.at[i]) for i in net.bus.index},
         "line": {int(i): tuple(net.res_line.loc[i, ["p_from_mw", "q_from_mvar", "p_to_mw", "q_to_mvar", "i_ka", "loading_percent"]].values)
                  for i in net.line.index},
         "trafo": {int(i): tuple(net.res_trafo.loc[i, ["p_hv_mw", "q_hv_mvar", "p_lv_mw", "q_lv_mvar", "loading_percent"]].values)
                   for i in net.trafo.index},
         "load": {int(i): tuple(net.res_load.loc[i, ["p_mw", "q_mvar"]].values) for i in net.load.index},
         "sgen": {int(i): tuple(net.res_sgen.loc[i, ["p_mw", "q_mvar"]].values) for i in net.sgen.index},
         "ext": tuple(net.res_ext_grid[["p_mw", "q_mvar"]].sum().values)}
    return r


def close(a, b):
    a, b = np.asarray(a, dtype=float), np.asarray(b, dtype=float)
    return a.shape == b.shape and bool(np.all((np.abs(a - b) <= TOL * np.maximum(1, np.abs(a))) | (np.isnan(a) & np.isnan(b))))


# ------------------------------------------------------------------ transformations: spec -> (spec', checker)
def t_sn_mva(rng, spec):
    s2 = copy.deepcopy(spec)
    s2["sn_mva"] = rng.choice([x for x in (0.5, 1.0, 10.0, 37.5, 100.0) if x != spec["sn_mva"]])

    def chk(r1, r2):
        return _same_all(r1, r2)
    return s2, chk, "sn_mva %s->%s" % (spec["sn_mva"], s2["sn_mva"])


def _same_all(r1, r2, bmap=None, maps=None):
    bmap = bmap or (lambda b: b)
    maps = maps or {}
    bad = []
    for b, v in r1["bus"].items():
        if not close(v, r2["bus"][bmap(b)]):
            bad.append("bus %d: %s vs %s" % (b, v, r2["bus"][bmap(b)]))
    for tab in ("line", "trafo", "load", "sgen"):
        m = maps.get(tab, lambda i: i)
        for i, v in r1[tab].items():
            if m(i) in r2[tab] and not close(v, r2[tab][m(i)]):
                bad.append("%s %d: %s vs %s" % (tab, i, v, r2[tab][m(i)]))
    if not close(r1["ext"], r2["ext"]):
        bad.append("ext_grid sum: %s vs %s" % (r1["ext"], r2["ext"]))
    return bad


def t_relabel(rng, spec):
    s2 = copy.deepcopy(spec)
    ids = [bb[0] for bb in spec["buses"]]
    new = rng.sample(range(0, 3 * len(ids) + 4), len(ids))
    bm = dict(zip(ids, new))
    s2["buses"] = [tuple([bm[bb[0]]] + list(bb[1:])) for bb in spec["buses"]]
    rng.shuffle(s2["buses"])
    maps = {}
    for tab, keys in (("lines", ("f", "t")), ("trafos", ("hv", "lv")), ("loads", ("bus",)), ("sgens", ("bus",))):
        old = [e["id"] for e in s2[tab]]
        nid = rng.sample(range(0, 3 * len(old) + 4), len(old))
        em = dict(zip(old, nid))
        for e in s2[tab]:
            e["id"] = em[e["id"]]
            for k in keys:
                e[k] = bm[e[k]]
        rng.shuffle(s2[tab])
        maps[{"lines": "line", "trafos": "trafo", "loads": "load", "sgens": "sgen"}[tab]] = (lambda em: (lambda i: em[i]))(em)
    s2["ext"] = [(bm[b], vm) for b, vm in spec["ext"]]
    s2["switches"] = [dict(s, bus=bm[s["bus"]], el=bm[s["el"]]) for s in spec["switches"]]
    return s2, (lambda r1, r2: _same_all(r1, r2, lambda b: bm[b], maps)), "relabel+permute"


def t_split(rng, spec):
    tab = "loads" if (spec["loads"] and (rng.random() < 0.7 or not spec["sgens"])) else "sgens"
    if not spec[tab]:
        return None
    s2 = copy.deepcopy(spec)
    e = rng.choice(s2[tab])
    k = rng.randint(2, 3)
    parts_p = [e["p"] / 4] * 1 + [e["p"] * 3 / 4 / (k - 1)] * (k - 1)
    parts_q = [e["q"] / 2] * 1 + [e["q"] / 2 / (k - 1)] * (k - 1)
    base = max(x["id"] for x in s2[tab]) + 1
    new_ids = [e["id"]] + [base + j for j in range(k - 1)]
    s2[tab] = [x for x in s2[tab] if x["id"] != e["id"]] + [
        {"id": i, "bus": e["bus"], "p": p, "q": q, "is": True} for i, p, q in zip(new_ids, parts_p, parts_q)]
    rt = "load" if tab == "loads" else "sgen"

    def chk(r1, r2):
        bad = _same_all({**r1, rt: {i: v for i, v in r1[rt].items() if i != e["id"]}}, r2)
        tot = np.sum([r2[rt][i] for i in new_ids], axis=0)
        if not close(r1[rt][e["id"]], tot):
            bad.append("%s %d split: %s vs sum %s" % (rt, e["id"], r1[rt][e["id"]], tot))
        return bad
    return s2, chk, "split %s into %d" % (rt, k)


def t_parallel(rng, spec):
    cand = [l for l in spec["lines"] if l["par"] > 1]
    if not cand:
        return None
    s2 = copy.deepcopy(spec)
    l = rng.choice(cand)
    base = max(x["id"] for x in s2["lines"]) + 1
    ids = [l["id"]] + [base + j for j in range(l["par"] - 1)]
    s2["lines"] = [x for x in s2["lines"] if x["id"] != l["id"]] + [dict(l, id=i, par=1) for i in ids]

    def chk(r1, r2):
        bad = _same_all({**r1, "line": {i: v for i, v in r1["line"].items() if i != l["id"]}}, r2)
        v1 = np.array(r1["line"][l["id"]])
        parts = np.array([r2["line"][i] for i in ids])
        if not close(v1[:5], parts[:, :5].sum(axis=0)):
            bad.append("line %d parallel=%d: %s vs sum of singles %s" % (l["id"], l["par"], v1[:5], parts[:, :5].sum(axis=0)))
        if not close(v1[5], parts[0, 5]):
            bad.append("line %d loading %s vs single %s" % (l["id"], v1[5], parts[0, 5]))
        return bad
    return s2, chk, "parallel=%d -> %d lines" % (l["par"], l["par"])


def t_swap(rng, spec):
    s2 = copy.deepcopy(spec)
    l = rng.choice(s2["lines"])
    l["f"], l["t"] = l["t"], l["f"]

    def chk(r1, r2):
        bad = _same_all({**r1, "line": {i: v for i, v in r1["line"].items() if i != l["id"]}}, r2)
        a, b = r1["line"][l["id"]], r2["line"][l["id"]]
        if not close((a[0], a[1], a[2], a[3], a[5]), (b[2], b[3], b[0], b[1], b[5])):
            bad.append("line %d swapped ends: %s vs %s" % (l["id"], a, b))
        return bad
    return s2, chk, "swap ends of line %d" % l["id"]


def t_inert(rng, spec):
    s2 = copy.deepcopy(spec)
    B = [bb[0] for bb in spec["buses"] if bb[1] == 20.0]
    nl = max([x["id"] for x in s2["loads"]] + [-1]) + 1
    s2["loads"].append({"id": nl, "bus": rng.choice(B), "p": 1.5, "q": 0.5, "is": False})
    s2["loads"].append({"id": nl + 1, "bus": rng.choice(B), "p": 0.0, "q": 0.0, "is": True})
    ns = max([x["id"] for x in s2["sgens"]] + [-1]) + 1
    s2["sgens"].append({"id": ns, "bus": rng.choice(B), "p": 0.0, "q": 0.0, "is": True})
    s2["sgens"].append({"id": ns + 1, "bus": rng.choice(B), "p": 2.0, "q": 0.0, "is": False})
    a, b = rng.sample(B, 2)
    nli = max(x["id"] for x in s2["lines"]) + 1
    s2["lines"].append({"id": nli, "f": a, "t": b, "len": 1.0, "r": 0.25, "x": 0.25, "c": 160, "g": 0, "imax": 0.5, "par": 1, "is": False})
    return s2, (lambda r1, r2: _same_all(r1, r2)), "inert elements"


def t_fuse(rng, spec):
    """split a bus into two buses joined by a closed zero-impedance switch, moving some of its elements"""
    s2 = copy.deepcopy(spec)
    B = [bb[0] for bb in spec["buses"] if bb[1] == 20.0]
    b = rng.choice(B)
    nb = max(bb[0] for bb in spec["buses"]) + 1
    s2["buses"].append((nb, 20.0))
    moved = 0
    for tab, keys in (("lines", ("f", "t")), ("loads", ("bus",)), ("sgens", ("bus",))):
        for e in s2[tab]:
            for k in keys:
                if e[k] == b and rng.random() < 0.5:
                    if tab == "lines" and (e["f"] == nb or e["t"] == nb):
                        continue
                    e[k] = nb
                    moved += 1
    s2["switches"].append({"bus": b, "el": nb, "closed": True} if rng.random() < 0.5 else {"bus": nb, "el": b, "closed": True})

    def chk(r1, r2):
        bad = _same_all(r1, r2)
        if not close(r2["bus"][b], r2["bus"][nb]):
            bad.append("fused buses %d and %d report different voltages %s %s" % (b, nb, r2["bus"][b], r2["bus"][nb]))
        return bad
    return s2, chk, "split bus %d by a closed switch (%d terminals moved)" % (b, moved)


def t_dead_appendix(rng, spec):
    """inert elements: an out-of-service bus tied to an in-service bus by a closed zero-impedance bus-bus switch (either
    column order), with a transformer to a further bus carrying a load: nothing of it may take part in the solution"""
    s2 = copy.deepcopy(spec)
    B = [bb[0] for bb in spec["buses"] if bb[1] == 20.0]
    b = rng.choice(B)
    x = max(bb[0] for bb in spec["buses"]) + 1
    y = x + 1
    s2["buses"].append((x, 20.0, False))
    s2["buses"].append((y, 20.0, True))
    s2["switches"].append({"bus": x, "el": b, "closed": True} if rng.random() < 0.6 else {"bus": b, "el": x, "closed": True})
    s2["trafos"].append({"id": max(t["id"] for t in s2["trafos"]) + 1, "hv": x, "lv": y, "std": None})
    nl = max([l["id"] for l in s2["loads"]] + [-1]) + 1
    s2["loads"].append({"id": nl, "bus": y, "p": 0.75, "q": 0.25, "is": True})

    def chk(r1, r2):
        bad = _same_all(r1, r2)
        for q in (x, y):
            if not all(v != v for v in r2["bus"][q]):
                bad.append("bus %d behind the out-of-service bus %d reports a voltage %s" % (q, x, r2["bus"][q]))
        pq = r2["load"][nl]
        if not (pq[0] == 0 and (pq[1] == 0 or pq[1] != pq[1])):      # q is NaN in a DC power flow
            bad.append("load at the dead bus %d reports power %s" % (y, r2["load"][nl]))
        return bad
    return s2, chk, "dead appendix behind out-of-service bus %d at bus %d" % (x, b)


TRANSFORMS = [t_sn_mva, t_sn_mva, t_relabel, t_split, t_parallel, t_swap, t_inert, t_fuse, t_dead_appendix]


def _pair(ctx, rng, k, spec=None, tname=None, forced=None):
    spec = spec or rand_spec(rng)
    tf = rng.choice(TRANSFORMS) if tname is None else [t for t in TRANSFORMS if t.__name__ == tname][0]
    out = forced if forced is not None else tf(rng, spec)
    if out is None:
        ctx.count("transform_not_applicable")
        return
    s2, chk, what = out
    case = {"spec": spec, "spec2": s2, "transform": tf.__name__, "what": what}
    try:
        n1, n2 = build(spec), build(s2)
        pp.runpp(n1)
        pp.runpp(n2)
    except Exception as e:
        ctx.count("pair_raised_" + type(e).__name__)
        ctx.case(case, nontrivial=False)
        return
    bad = chk(results(n1), results(n2))
    kind = "spec"
    if bad and tf is t_sn_mva:
        # recorded finding: tolerance_mva is compared with the per-unit mismatch, so the accuracy in MW scales with sn_mva.
        # It is this finding iff the pair agrees once both runs are iterated to a tolerance that is tight on both bases.
        try:
            m1, m2 = build(spec), build(s2)
            pp.runpp(m1, tolerance_mva=1e-8 / max(spec["sn_mva"], s2["sn_mva"], 1.0))
            pp.runpp(m2, tolerance_mva=1e-8 / max(spec["sn_mva"], s2["sn_mva"], 1.0))
            if not chk(results(m1), results(m2)):
                kind = "C05-tolerance-per-unit"
        except Exception:
            pass
    for w in bad[:1]:
        ctx.violation(kind, "%s: %s" % (what, w), case)
    # the same pair under the DC power flow (linear: no solver tolerance involved)
    try:
        d1, d2 = build(spec), build(s2)
        pp.rundcpp(d1)
        pp.rundcpp(d2)
        bad_dc = chk(results(d1), results(d2))
        ctx.count("dc_pairs")
        for w in bad_dc[:1]:
            ctx.violation("spec", "rundcpp, %s: %s" % (what, w), dict(case, dc=True))
    except Exception as e:
        ctx.count("dc_pair_raised_" + type(e).__name__)
    ctx.case(case, nontrivial=True, sample={"transform": what, "buses": len(spec["buses"])} if k < 3 else None)
    ctx.count(tf.__name__)
    return n1


def _corr_sum_by_group(ctx, rng, n):
    from pandapower.auxiliary import _sum_by_group
    terms, impls, descs = [], [], []
    for _ in range(n):
        m = rng.randint(0, 12)
        bus = [rng.randint(0, 6) for _ in range(m)]
        vals = [rng.randint(-64, 64) / 16 for _ in range(m)]
        if m == 0:
            continue
        b, v, _ = _sum_by_group(np.array(bus, dtype=np.int64), np.array(vals, dtype=float), np.array(vals, dtype=float))
        impls.append([[int(x), Fraction(float(y))] for x, y in zip(b, v)])
        terms.append("run_sum_by_group %s" % cq.lst(["(%s, %s)" % (cq.nat(x), cq.q(y)) for x, y in zip(bus, vals)]))
        descs.append({"bus": bus, "vals": vals})
    model = ctx.coq_eval("c05s", "Base.QN C05.Model", terms, shard=200)
    for d, i, m in zip(descs, impls, model):
        ctx.corr_checked += 1
        if i != m:
            ctx.disagreement("_sum_by_group: impl %s model %s" % (i, m), d)


def _corr_lines(ctx, nets):
    from pandapower.pypower.idx_brch import BR_R, BR_X, BR_B, BR_G
    terms, impls, descs = [], [], []
    for net in nets:
        k = 2 * net.f_hz * math.pi * 1e-9
        f, t = net._pd2ppc_lookups["branch"]["line"]
        for pos, i in enumerate(net.line.index):
            r = net.line.loc[i]
            row = net._ppc["branch"][f + pos]
            impls.append([float(row[BR_R].real), float(row[BR_X].real), float(row[BR_B].real), float(row[BR_G].real)])
            lt = "{| r_km := %s; x_km := %s; c_nf := %s; g_us := %s; len := %s; par := %s |}" % (
                cq.q(float(r.r_ohm_per_km)), cq.q(float(r.x_ohm_per_km)), cq.q(float(r.c_nf_per_km)), cq.q(float(r.g_us_per_km)),
                cq.q(float(r.length_km)), cq.q(int(r.parallel)))
            terms.append("run_line_param %s %s %s %s" % (cq.q(k, bits=40), cq.q(float(net.bus.vn_kv.at[r.from_bus])), cq.q(float(net.sn_mva)), lt))
            descs.append({"line": int(i), "sn_mva": float(net.sn_mva)})
    model = ctx.coq_eval("c05l", "Base.QN C05.Model", terms, shard=200)
    for d, i, m in zip(descs, impls, model):
        ctx.corr_checked += 1
        if any(abs(float(a) - b) > 1e-9 * max(1, abs(b)) for a, b in zip(m, i)):
            ctx.disagreement("line per-unit row: impl %s model %s" % (i, [float(x) for x in m]), d)


def _corr_branch_rows(ctx, rng, n):
    """transformer / impedance rows of net._ppc['branch'] on two system bases vs C02.Model.trafo_branch / impedance_branch
    (the rows C05_trafo_row_scaled / C05_impedance_row_scaled speak about), the relation row_scaled (sn2/sn1) on the real
    rows, and the equality of the MW / Mvar results of the two runs (C05_sn_mva_invariance_trafo / _impedance)"""
    from pandapower.pypower.idx_brch import (BR_R, BR_X, BR_B, BR_G, BR_R_ASYM, BR_X_ASYM, BR_G_ASYM, BR_B_ASYM, TAP, SHIFT,
                                              BR_STATUS)
    from vf import c02_gen as g2
    cols = [BR_R, BR_X, BR_G, BR_B, BR_R_ASYM, BR_X_ASYM, BR_G_ASYM, BR_B_ASYM, TAP, SHIFT]
    terms, impls, descs = [], [], []
    for k in range(n):
        vn_lv_bus = rng.choice([20.0, 10.0])
        t = {"vnh": rng.choice([110.0, 115.5]), "vnl": rng.choice([vn_lv_bus, vn_lv_bus * 1.05]), "sn": rng.choice([25.0, 40.0, 63.0]),
             "vk": rng.choice([8.0, 12.0, 16.25]), "vkr": rng.choice([0.25, 0.5, 1.0]), "pfe": rng.choice([0.0, 14.0, 29.0]),
             "i0": rng.choice([0.0, 0.0625, 0.125]), "par": rng.choice([1, 1, 2]), "df": 1.0, "in": True, "maxload": 100.0,
             "maxload_col": False, "rr": None, "xr": None}
        shift = rng.choice([0.0, 150.0])
        im = {"rft": rng.randint(1, 16) / 256, "xft": rng.randint(1, 32) / 256, "rtf": rng.randint(1, 16) / 256,
              "xtf": rng.randint(1, 32) / 256, "gf": rng.choice([0.0, 1 / 64]), "bf": rng.choice([0.0, 1 / 32]),
              "gt": rng.choice([0.0, 1 / 128]), "bt": rng.choice([0.0, 1 / 16]), "sn": rng.choice([10.0, 25.0, 100.0]), "in": True}
        sns = rng.sample([0.5, 1.0, 10.0, 37.5, 100.0], 2)
        obs = []
        for sn in sns:
            net = pp.create_empty_network(sn_mva=sn)
            b = [pp.create_bus(net, 110.0), pp.create_bus(net, vn_lv_bus), pp.create_bus(net, vn_lv_bus)]
            pp.create_ext_grid(net, b[0], vm_pu=1.02)
            pp.create_transformer_from_parameters(net, b[0], b[1], sn_mva=t["sn"], vn_hv_kv=t["vnh"], vn_lv_kv=t["vnl"],
                                                  vkr_percent=t["vkr"], vk_percent=t["vk"], pfe_kw=t["pfe"], i0_percent=t["i0"],
                                                  shift_degree=shift, parallel=t["par"])
            pp.create_impedance(net, b[1], b[2], rft_pu=im["rft"], xft_pu=im["xft"], rtf_pu=im["rtf"], xtf_pu=im["xtf"],
                                gf_pu=im["gf"], bf_pu=im["bf"], gt_pu=im["gt"], bt_pu=im["bt"], sn_mva=im["sn"])
            pp.create_load(net, b[2], p_mw=rng.randint(4, 40) / 8 if not obs else obs[0]["p"], q_mvar=1.0)
            pp.runpp(net, tolerance_mva=1e-10, trafo_model="pi")
            ft, _ = net._pd2ppc_lookups["branch"]["trafo"]
            fi, _ = net._pd2ppc_lookups["branch"]["impedance"]
            br = net._ppc["branch"]
            obs.append({"sn": sn, "p": float(net.load.p_mw.iat[0]),
                        "trafo": [float(br[ft][c].real) for c in cols] + [bool(br[ft][BR_STATUS].real)],
                        "imp": [float(br[fi][c].real) for c in cols] + [bool(br[fi][BR_STATUS].real)],
                        "res": list(net.res_trafo[["p_hv_mw", "q_hv_mvar", "p_lv_mw", "q_lv_mvar"]].values[0])
                               + list(net.res_impedance[["p_from_mw", "q_from_mvar", "p_to_mw", "q_to_mvar"]].values[0])})
            o = g2.trafo_oracle(t, t["vnl"], vn_lv_bus, sn)
            terms.append("OL [C02.Model.ores C02.Model.obrow (C02.Model.trafo_branch %s false %s %s %s %s %s %s %s); "
                         "C02.Model.obrow (C02.Model.impedance_branch %s %s)]" % (
                             cq.q(sn), g2.trafo_term(t), g2.trafo_orc_term(o), cq.q(t["vnh"]), cq.q(t["vnl"]), cq.q(shift),
                             cq.q(110.0), cq.q(vn_lv_bus), cq.q(sn), g2.imp_term(im)))
            impls.append(obs[-1])
            descs.append({"trafo": t, "impedance": im, "sn_mva": sn, "shift": shift})
        # the statements of the theorems on the real rows / results
        kk = sns[1] / sns[0]
        d = {"trafo": t, "impedance": im, "sn_mva": sns, "shift": shift}

        def rel(a, b):
            return abs(a - b) <= 1e-9 * max(1.0, abs(a), abs(b))
        for tab in ("trafo", "imp"):
            r1, r2 = obs[0][tab], obs[1][tab]
            ok = all(rel(r2[j], kk * r1[j]) for j in (0, 1, 4, 5)) and all(rel(r2[j] * kk, r1[j]) for j in (2, 3, 6, 7)) \
                and r2[8] == r1[8] and r2[9] == r1[9] and r2[10] == r1[10]
            ctx.corr_checked += 1
            if not ok:
                ctx.disagreement("row_scaled (sn2/sn1) does not hold on the real %s rows: %s vs %s" % (tab, r1, r2), d)
        if not close(obs[0]["res"], obs[1]["res"]):
            ctx.violation("spec", "trafo / impedance terminal powers depend on sn_mva: %s vs %s" % (obs[0]["res"], obs[1]["res"]), d)
        ctx.count("branch_rows_pair")
    model = ctx.coq_eval("c05b", "Base.QN C31.Model C02.Model", terms, shard=100)
    for d, i, m in zip(descs, impls, model):
        for tab, mm in (("trafo", m[0]), ("imp", m[1])):
            ctx.corr_checked += 1
            if isinstance(mm, cq.Err):
                ctx.disagreement("%s row: model raises %s" % (tab, mm.s), d)
                continue
            got = i[tab]
            if any(abs(float(a) - b) > 1e-9 * max(1, abs(b)) for a, b in zip(mm[:10], got[:10])) or bool(mm[10]) != got[10]:
                ctx.disagreement("%s per-unit row: impl %s model %s" % (tab, got, [float(x) for x in mm[:10]]), d)


def _corr_consec(ctx, rng, n):
    from pandapower.build_bus import create_consecutive_bus_lookup
    terms, impls, descs = [], [], []
    for _ in range(n):
        m = rng.randint(1, 8)
        idx = rng.sample(range(0, 20), m)
        lk = create_consecutive_bus_lookup(np.array(idx, dtype=np.int64))
        qs = list(range(0, max(idx) + 1))
        impls.append([None if lk[q] < 0 else int(lk[q]) for q in qs])
        terms.append("run_consec %s %s" % (cq.lst([cq.nat(x) for x in idx]), cq.lst([cq.nat(x) for x in qs])))
        descs.append({"idx": idx})
    model = ctx.coq_eval("c05c", "Base.QN C05.Model", terms, shard=200)
    for d, i, m in zip(descs, impls, model):
        ctx.corr_checked += 1
        if i != m:
            ctx.disagreement("create_consecutive_bus_lookup: impl %s model %s" % (i, m), d)


def _corr_tolerance(ctx, rng):
    """the convergence test of the impl (pypower newtonpf._check_for_convergence on the per-unit mismatch) vs the model"""
    from pandapower.pypower.newtonpf import _check_for_convergence
    terms, impls, descs = [], [], []
    for _ in range(40):
        tol = rng.choice([2.0 ** -20, 2.0 ** -27, 2.0 ** -10])
        sn = rng.choice([1.0, 0.5, 10.0, 100.0, 64.0])
        mis = tol * rng.choice([0.25, 0.5, 2.0, 8.0, 64.0, 512.0])
        F = np.array([mis / sn, -mis / sn / 2])          # mismatch vector in per unit on baseMVA = sn
        impls.append(bool(_check_for_convergence(F, tol)))
        terms.append("run_nr_converged %s %s %s" % (cq.q(tol), cq.q(sn), cq.q(mis)))
        descs.append({"tol": tol, "sn": sn, "mis_mva": mis})
    model = ctx.coq_eval("c05t", "Base.QN C05.Model", terms, shard=200)
    for d, i, m in zip(descs, impls, model):
        ctx.corr_checked += 1
        if i != m:
            ctx.disagreement("_check_for_convergence: impl %s model %s" % (i, m), d)


def _corpus(ctx):
    """witness of the recorded finding C05-tolerance-per-unit (corpus/C05/tolerance_per_unit.json): sn_mva 1 -> 100"""
    import json, os, random
    f = os.path.join(cq.VERIF, "corpus", "C05", "tolerance_per_unit.json")
    if not os.path.exists(f):
        return
    w = json.load(open(f))
    _pair(ctx, random.Random(0), 99, spec=w["spec"], tname="t_sn_mva",
          forced=(w["spec2"], (lambda r1, r2: _same_all(r1, r2)), "sn_mva 1.0->100.0 (corpus)"))
    ctx.count("corpus")


def run(ctx):
    rng = ctx.rng
    _corpus(ctx)
    nets = []
    for k in range(ctx.n(80, 2500)):
        n1 = _pair(ctx, rng, k)
        if n1 is not None and len(nets) < ctx.n(25, 200):
            nets.append(n1)
    _corr_sum_by_group(ctx, rng, ctx.n(150, 1500))
    _corr_lines(ctx, nets)
    _corr_branch_rows(ctx, rng, ctx.n(20, 200))
    _corr_consec(ctx, rng, ctx.n(60, 600))
    _corr_tolerance(ctx, rng)


def replay(ctx, rec):
    case = rec["case"]
    if "spec" in case:
        n1, n2 = build(case["spec"]), build(case["spec2"])
        pp.runpp(n1)
        pp.runpp(n2)
        ctx.notes.append("replayed pair %s: rebuild both nets from the recorded specs and compare" % case.get("what"))
        tf = [t for t in TRANSFORMS if t.__name__ == case["transform"]][0]
        # the checker closure is not serialisable: re-run the generic comparison
        bad = _same_all(results(n1), results(n2)) if case["transform"] in ("t_sn_mva", "t_inert") else []
        for w in bad[:1]:
            ctx.violation("spec", w, case)
        ctx.case(case, nontrivial=True)
    else:
        run(ctx)
