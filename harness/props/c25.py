"""C25 — standard types.
Correspondence: (A) random create/delete/rename/copy sequences on net.std_types vs C25.Model.run_lib, (B) change_std_type on
random rows vs run_change, (C) element created from a type vs created from explicit parameters vs run_ce_kind.
Oracle: load_std_type returns created/renamed/copied data unchanged; every type parameter ends up in the row; a changed /
from-type element equals (rows and runpp results) the element built from explicit parameters with the type's values."""
import copy, math, inspect, warnings
import numpy as np, pandas as pd
import pandapower as pp
from vf import coqrun as cq
from vf import c24_kinds as ck
from props.c24 import cell, amap, same

RULE = ("(A) 1-8 library operations over 2-5 names incl. overwrite on/off, missing required parameters, rename onto existing, delete "
        "of unknown names, copy from a second library; (B) change_std_type between random types with random optional-parameter "
        "subsets on rows created from another type (columns present/absent); (C) every built-in line/trafo/trafo3w type plus random "
        "types with all optional parameters distinctive; (E) rename_std_type on nets whose elements carry the renamed type, another "
        "type, no type, a dangling name or the future new name (75 % valid renames) and on the fuse library (no element table). "
        "non-trivial = sequence with >= 3 ops, types with optional parameters, valid renames")
ASSUMPTIONS = ["parameter dicts are compared by value (the library stores the caller's dict object; aliasing is not modelled)",
               "runpp is an oracle for the behavioural comparison (identical results demanded within 1e-9)"]
TRUSTED = ["harness/vf/c24_kinds.py value canonicalisation", "python dict insertion order as observed",
           "sentinel probe of the change_std_type write set (bool columns left out)"]

ELS = {"line": (ck.LINE_STD, ck.LINE_REQ), "trafo": (ck.TRAFO_STD, ck.TRAFO_REQ + ["shift_degree"]),
       "trafo3w": (ck.T3_STD, ck.T3_REQ + ["shift_mv_degree", "shift_lv_degree"])}
NAMES = ["A", "B", "C", "D", "NAYY 4x50 SE"]


def rand_type(rng, el, drop_req=0.0):
    full, req = ELS[el]
    d = ck.rand_std(rng, full, req)
    if rng.random() < drop_req:
        d.pop(rng.choice(req), None)
    return d


def lib_term(lib):
    return cq.lst(["(%s, %s)" % (cq.s(n), amap(d)) for n, d in lib.items()])


def canon_lib(lib):
    return [[n, [[k, ck.canon_cell(v)] for k, v in d.items()]] for n, d in lib.items()]


def model_lib_to_py(m):
    return [[n, [[k, (float(v) if not isinstance(v, (str, bool, type(None))) else v)] for k, v in d]] for n, d in m]


def _eq_lib(a, b):
    if len(a) != len(b):
        return False
    for (n1, d1), (n2, d2) in zip(a, b):
        if n1 != n2 or len(d1) != len(d2):
            return False
        for (k1, v1), (k2, v2) in zip(d1, d2):
            if k1 != k2 or not same(v1, v2):
                return False
    return True


# ------------------------------------------------------------------ (A) library operations
def lib_cases(ctx):
    rng = ctx.rng
    terms, keep = [], []
    for _ in range(ctx.n(110, 2000)):
        el = rng.choice(list(ELS))
        net = pp.create_empty_network(add_stdtypes=False) if False else _empty()
        net.std_types[el].clear()
        for n in rng.sample(NAMES, rng.randint(0, 3)):
            net.std_types[el][n] = rand_type(rng, el)
        lib0 = copy.deepcopy(dict(net.std_types[el]))
        # an element that uses a type (rename must follow in the table)
        ops, ops_t = [], []
        expected = {n: copy.deepcopy(d) for n, d in lib0.items()}       # the spec, tracked independently in python
        for _k in range(rng.randint(1, 8)):
            r = rng.random()
            if r < 0.45:
                d = rand_type(rng, el, drop_req=0.2); n = rng.choice(NAMES); ow = rng.random() < 0.6; ck_ = rng.random() < 0.8
                ops.append(["create", n, d, ow, ck_])
                ops_t.append("OCreate %s %s %s %s" % (amap(d), cq.s(n), cq.b(ow), cq.b(ck_)))
                try:
                    pp.create_std_type(net, d, n, el, overwrite=ow, check_required=ck_)
                    ok = True
                except UserWarning:
                    ok = False
                valid = (not ck_) or all(p in d for p in ELS[el][1])
                if ok != valid:
                    ctx.violation("spec", "create_std_type %s although required parameters %s" % ("accepted" if ok else "rejected", "missing" if not valid else "present"), {"el": el, "ops": ops})
                if valid and (ow or n not in expected):
                    expected[n] = d
                if ok and pp.load_std_type(net, n, el) != expected[n]:
                    ctx.violation("spec", "load_std_type does not return the created/kept data of %s" % n, {"el": el, "ops": ops})
            elif r < 0.6:
                n = rng.choice(NAMES)
                ops.append(["delete", n]); ops_t.append("ODelete %s" % cq.s(n))
                try:
                    pp.delete_std_type(net, n, el); ok = True
                except UserWarning:
                    ok = False
                if ok != (n in expected):
                    ctx.violation("spec", "delete_std_type(%s) %s" % (n, "accepted" if ok else "rejected"), {"el": el, "ops": ops})
                expected.pop(n, None)
            elif r < 0.8:
                a, b = rng.choice(NAMES), rng.choice(NAMES)
                ops.append(["rename", a, b]); ops_t.append("ORename %s %s" % (cq.s(a), cq.s(b)))
                try:
                    pp.rename_std_type(net, a, b, el); ok = True
                except UserWarning:
                    ok = False
                valid = a in expected and b not in expected
                if ok != valid:
                    ctx.violation("spec", "rename_std_type(%s,%s) %s" % (a, b, "accepted" if ok else "rejected"), {"el": el, "ops": ops})
                if valid:
                    expected[b] = expected.pop(a)
                    if pp.load_std_type(net, b, el) != expected[b] or pp.std_type_exists(net, a, el):
                        ctx.violation("spec", "renamed type %s->%s not returned unchanged" % (a, b), {"el": el, "ops": ops})
            else:
                src = {n: rand_type(rng, el, drop_req=0.1) for n in rng.sample(NAMES, rng.randint(1, 3))}
                ow = rng.random() < 0.6
                ops.append(["copy", src, ow]); ops_t.append("OCopy %s %s" % (lib_term(src), cq.b(ow)))
                other = _empty(); other.std_types[el].clear(); other.std_types[el].update(copy.deepcopy(src))
                try:
                    pp.copy_std_types(net, other, el, overwrite=ow)
                except UserWarning:
                    pass
                for n, d in src.items():
                    if not all(p in d for p in ELS[el][1]):
                        break
                    if ow or n not in expected:
                        expected[n] = d
                        if pp.load_std_type(net, n, el) != d:
                            ctx.violation("spec", "copied type %s not returned unchanged" % n, {"el": el, "ops": ops})
        final = dict(net.std_types[el])
        if {n: d for n, d in final.items()} != expected:
            ctx.violation("spec", "library after the sequence differs from the finite-map specification", {"el": el, "lib0": lib0, "ops": ops})
        case = {"el": el, "lib0": lib0, "ops": ops}
        ctx.case(case, nontrivial=len(ops) >= 3, sample=case if len(ctx.samples) < 1 else None)
        ctx.count("lib_ops_%d" % min(len(ops), 8))
        q = NAMES
        terms.append("run_lib %s %s %s %s" % (cq.s(el), lib_term(lib0), cq.lst(["(%s)" % t for t in ops_t]), cq.lst([cq.s(n) for n in q])))
        loads = []
        for n in q:
            try:
                loads.append([[k, ck.canon_cell(v)] for k, v in pp.load_std_type(net, n, el).items()])
            except UserWarning:
                loads.append(cq.Err("UserWarning"))
        keep.append((case, canon_lib(final), loads))
    model = ctx.coq_eval("c25lib", "Base.QN C24.Model C25.Model", terms, shard=50)
    for (case, final, loads), (mlib, mloads) in zip(keep, model):
        ctx.corr_checked += 1
        ok = _eq_lib(final, model_lib_to_py(mlib))
        for a, b in zip(loads, mloads):
            if isinstance(a, cq.Err) or isinstance(b, cq.Err):
                ok = ok and isinstance(a, cq.Err) and isinstance(b, cq.Err)
            else:
                ok = ok and _eq_lib([["x", a]], model_lib_to_py([["x", b]]))
        if not ok:
            ctx.disagreement("library after ops: impl %s model %s" % (str(final)[:250], str(mlib)[:250]), case)


_E = []


def _empty():
    if not _E:
        _E.append(pp.create_empty_network())
    return copy.deepcopy(_E[0])


# ------------------------------------------------------------------ helpers for (B), (C)
CREATE = {"line": (pp.create_line, pp.create_line_from_parameters, dict(from_bus=1, to_bus=2, length_km=1.5)),
          "trafo": (pp.create_transformer, pp.create_transformer_from_parameters, dict(hv_bus=0, lv_bus=1)),
          "trafo3w": (pp.create_transformer3w, pp.create_transformer3w_from_parameters, dict(hv_bus=0, mv_bus=1, lv_bus=2))}
SKIP = {"name", "geo", "std_type"}


def _net3(el, ty):
    """ext grid - [trafo] - line - load; voltages follow the type where it has them"""
    net = _empty()
    vh = ty.get("vn_hv_kv", 20.0); vm = ty.get("vn_mv_kv", ty.get("vn_lv_kv", 20.0)); vl = ty.get("vn_lv_kv", 20.0)
    if el == "line":
        vh = vm = vl = 20.0
    pp.create_buses(net, 3, [vh, vm if el != "trafo" else vl, vl])
    pp.create_ext_grid(net, 0, vm_pu=1.02)
    return net


def _finish(net, el):
    if el == "line":
        pp.create_line_from_parameters(net, 0, 1, 1.0, 0.1, 0.1, 10.0, 1.0)
        pp.create_load(net, 2, 0.5, 0.1)
    elif el == "trafo":
        pp.create_line_from_parameters(net, 1, 2, 1.0, 0.1, 0.1, 10.0, 1.0)
        pp.create_load(net, 2, 0.5, 0.1)
    else:
        pp.create_load(net, 1, 0.5, 0.1); pp.create_load(net, 2, 0.3, 0.1)


def _row(net, el, i=0):
    df = net[el]
    return {c: ck.canon_cell(df[c].values[i]) for c in df.columns if c not in SKIP}


def _res_equal(a, b, el):
    try:
        pp.runpp(a, calculate_voltage_angles=True, numba=False); pp.runpp(b, calculate_voltage_angles=True, numba=False)
    except Exception as e:
        return None
    ok = np.allclose(a.res_bus[["vm_pu", "va_degree"]].values, b.res_bus[["vm_pu", "va_degree"]].values, atol=1e-9, equal_nan=True)
    ra, rb = a["res_" + el], b["res_" + el]
    ok = ok and np.allclose(ra.values.astype(float), rb.values.astype(float), atol=1e-9, equal_nan=True)
    return bool(ok)


# ------------------------------------------------------------------ (C) created from type vs explicit
def created_cases(ctx):
    rng = ctx.rng
    terms, keep = [], []
    basic = _empty().std_types
    todo = []
    for el in ELS:
        names = list(basic[el])
        if ctx.tier == "quick" and el == "line":
            names = rng.sample(names, 18)
        todo += [(el, n, dict(basic[el][n])) for n in names]
        todo += [(el, "R%d" % k, rand_type(rng, el)) for k in range(ctx.n(12, 150))]
    for el, name, ty in todo:
        single, par, nodes = CREATE[el]
        acc = inspect.signature(par).parameters
        a = _net3(el, ty); b = _net3(el, ty)
        pp.create_std_type(a, ty, name, el, check_required=False)
        user = {}
        if el != "line" and "tap_min" in ty and "tap_max" in ty and rng.random() < 0.5:
            user["tap_pos"] = int(rng.randint(int(ty["tap_min"]), int(ty["tap_max"])))
        if el == "line" and rng.random() < 0.3:
            user["parallel"] = 2
        try:
            with warnings.catch_warnings():
                warnings.simplefilter("ignore")
                single(a, std_type=name, **nodes, **user)
                par(b, **nodes, **user, **{k: v for k, v in ty.items() if k in acc and k not in user})
        except Exception as e:
            ctx.count("created_skipped_" + type(e).__name__)
            continue
        ra, rb = _row(a, el), _row(b, el)
        case = {"el": el, "type_name": name, "type": ty, "user_args": user}
        ctx.case(case, nontrivial=len(ty) > len(ELS[el][1]))
        ctx.count("created_" + el)
        params = [p for p in ty if p in acc]
        bad = [p for p in params if not same(ra.get(p), rb.get(p))]
        missing = [p for p in params if not same(ra.get(p), ck.canon_cell(ty[p])) and p not in user]
        if bad or missing:
            cols = set(bad) | set(missing)
            if el == "line" and cols <= {"alpha", "endtemp_degree"}:
                k = "C25-create-line-skips-alpha-endtemp"
            elif el == "trafo3w" and cols <= {"vk0_hv_percent", "vk0_mv_percent", "vk0_lv_percent", "vkr0_hv_percent", "vkr0_mv_percent", "vkr0_lv_percent", "vector_group"}:
                k = "C25-create-transformer3w-skips-zero-seq"
            else:
                k = "spec"
            ctx.violation(k, "%s from type %r: parameters %s of the type are not in the row (explicit creation has them)" % (el, name, sorted(cols)), case)
        _finish(a, el); _finish(b, el)
        eq = _res_equal(a, b, el)
        if eq is False:
            ctx.violation("spec", "%s created from type %r and from explicit parameters give different power flow results" % (el, name), case)
        elif eq is None:
            ctx.count("created_runpp_failed")
        # model: value per queried column
        ex = {c: True for c in _empty()[el].columns}
        q = sorted(set(ra) | set(rb))
        args = dict(nodes); args.update(user)
        terms.append("run_ce_kind %s %s %s %s" % (cq.s(el), amap(ty), amap(args), cq.lst(["(%s, %s)" % (cq.s(c), cq.b(c in ex)) for c in q])))
        keep.append((case, q, ra, rb))
    model = ctx.coq_eval("c25ce", "Base.QN C24.Model C25.Model", terms, shard=60)
    for (case, q, ra, rb), (ms, me) in zip(keep, model):
        ctx.corr_checked += 1
        bad = []
        for c, v1, v2 in zip(q, ms, me):
            if c in ("tap_dependency_table", "oltc", "id_characteristic_table", "g0_us_per_km"):     # bookkeeping flags; g0 group rule not modelled
                continue
            if not same(v1, ra.get(c)):
                bad.append("from-type %s impl %r model %r" % (c, ra.get(c), v1))
            if not same(v2, rb.get(c)):
                bad.append("explicit %s impl %r model %r" % (c, rb.get(c), v2))
        if bad:
            ctx.disagreement("; ".join(bad)[:500], case)


# ------------------------------------------------------------------ (B) change_std_type
def _written_probe(net, el, tn, t_new):
    """which cells does change_std_type write?  every cell of row 0 gets a sentinel that no type parameter equals; the written
    columns are those whose cell is no sentinel afterwards (bool columns cannot carry a sentinel: left out on both sides)"""
    p = copy.deepcopy(net)
    if tn not in p.std_types[el]:
        pp.create_std_type(p, t_new, tn, el)
    sent = {}
    with warnings.catch_warnings():
        warnings.simplefilter("ignore")
        for c in p[el].columns:
            k = p[el][c].dtype.kind
            if c in ("name", "geo") or k == "b":
                continue
            v = -12345.0 if k in "fiu" else "SENTINEL"
            try:
                p[el].at[0, c] = v
                sent[c] = v
            except Exception:
                pass
        try:
            pp.change_std_type(p, 0, tn, el)
        except Exception:
            return None
    out = []
    for c, v in sent.items():
        now = p[el][c].values[0]
        if isinstance(v, str):
            if now != v:
                out.append(c)
        elif not (isinstance(now, (int, float, np.integer, np.floating)) and float(now) == v):
            out.append(c)
    boolcols = [c for c in p[el].columns if p[el][c].dtype.kind == "b"]
    return None if any(c in t_new for c in boolcols) else out


# ------------------------------------------------------------------ (E) rename_std_type and the element table
def rename_cases(ctx):
    rng = ctx.rng
    terms, keep = [], []
    for k in range(ctx.n(48, 800)):
        el = rng.choice(["line", "trafo", "trafo3w", "line", "trafo", "fuse"])
        if el == "fuse":
            net = _empty()
            names = ["F1", "F2", "F3"]
            lib0 = {n: {"fuse_type": rng.choice(["gG", "aM"]), "i_rated_a": float(rng.choice([16, 25, 63]))} for n in names}
            net.std_types["fuse"].clear(); net.std_types["fuse"].update(copy.deepcopy(lib0))
            a_, b_ = rng.choice(names + ["ZZ"]), rng.choice(["XX", "XX", names[0]])
            rows0 = None
        else:
            single, par, nodes = CREATE[el]
            ts = {n: rand_type(rng, el) for n in rng.sample(NAMES, rng.randint(1, 3))}
            v = next(iter(ts.values()))
            for t in ts.values():
                for kk in ("vn_hv_kv", "vn_mv_kv", "vn_lv_kv"):
                    if kk in t:
                        t[kk] = v[kk]
            net = _net3(el, v)
            net.std_types[el].clear()
            for n, t in ts.items():
                pp.create_std_type(net, t, n, el)
            lib0 = copy.deepcopy(dict(net.std_types[el]))
            try:
                with warnings.catch_warnings():
                    warnings.simplefilter("ignore")
                    for _ in range(rng.randint(1, 4)):
                        single(net, std_type=rng.choice(list(ts)), **nodes)
            except Exception:
                ctx.count("rename_skipped")
                continue
            # hand-made cells: no type, a dangling name, the future new name
            for i in net[el].index:
                r = rng.random()
                if r < 0.15:
                    net[el].at[i, "std_type"] = None
                elif r < 0.3:
                    net[el].at[i, "std_type"] = rng.choice(NAMES)
            free = [n for n in NAMES if n not in ts]
            a_ = rng.choice(list(ts)) if rng.random() < 0.75 else rng.choice(NAMES)
            b_ = rng.choice(free) if free and rng.random() < 0.75 else rng.choice(NAMES)
            rows0 = [ck.canon_cell(x) for x in net[el].std_type.values]
        before = copy.deepcopy(net)
        exc = None
        try:
            pp.rename_std_type(net, a_, b_, el)
        except Exception as e:
            exc = type(e).__name__
        lib1 = dict(net.std_types[el])
        rows1 = None if rows0 is None else [ck.canon_cell(x) for x in net[el].std_type.values]
        case = {"el": el, "lib0": lib0, "rows": rows0, "old": a_, "new": b_}
        valid = a_ in lib0 and b_ not in lib0
        ctx.case(case, nontrivial=valid, sample=case if k < 2 else None)
        ctx.count("rename_%s_%s" % (el if el == "fuse" else "table", "valid" if valid else "invalid"))
        # ---- oracle (the property text): an accepted rename returns the data unchanged under the new name, the elements still
        # refer to the same data, nothing else in the table changes; a rejected rename changes nothing
        kind = "spec"     # (the KeyError of the fuse library, found here, is repaired in /repo)
        if valid:
            if exc is not None:
                ctx.violation(kind, "rename_std_type(%s -> %s, %s) raises %s" % (a_, b_, el, exc), case)
            elif lib1.get(b_) != lib0[a_] or a_ in lib1:
                ctx.violation("spec", "renamed type is not returned unchanged under the new name", case)
            if rows0 is not None and exc is None:
                for i, (x, y) in enumerate(zip(rows0, rows1)):
                    d0 = lib0.get(x) if x != b_ else None
                    if x is not None and x != b_ and lib1.get(y) != d0:
                        ctx.violation("spec", "row %d: std_type %r -> %r no longer names the same type data" % (i, x, y), case)
                cols = [c for c in net[el].columns if c != "std_type"]
                if not before[el][cols].equals(net[el][cols]):
                    ctx.violation("spec", "rename_std_type changed other columns of the element table", case)
        else:
            if exc != "UserWarning" or lib1 != lib0 or rows1 != rows0:
                ctx.violation("spec", "invalid rename_std_type(%s -> %s): raised %s, state changed: %s" % (a_, b_, exc, lib1 != lib0 or rows1 != rows0), case)
        tab = "None" if rows0 is None else "(Some %s)" % cq.lst([amap({"std_type": x}) for x in rows0])
        terms.append("run_rename %s %s %s %s %s" % (lib_term(lib0), tab, cq.s(a_), cq.s(b_), cq.lst([cq.s(n) for n in (a_, b_)])))
        loads = []
        for n in (a_, b_):
            try:
                loads.append([[kk, ck.canon_cell(v)] for kk, v in pp.load_std_type(net, n, el).items()])
            except UserWarning:
                loads.append(cq.Err("UserWarning"))
        keep.append((case, canon_lib(lib1), rows1, exc, loads))
    model = ctx.coq_eval("c25rn", "Base.QN C24.Model C25.Model", terms, shard=40)
    for (case, lib1, rows1, exc, loads), (mlib, mrows, mexc, mloads) in zip(keep, model):
        ctx.corr_checked += 1
        ok = _eq_lib(lib1, model_lib_to_py(mlib)) and exc == mexc
        ok = ok and ((rows1 is None and mrows is None) or (rows1 is not None and mrows is not None and len(rows1) == len(mrows)
                                                          and all(same(x, y) for x, y in zip(rows1, mrows))))
        for a, b in zip(loads, mloads):
            if isinstance(a, cq.Err) or isinstance(b, cq.Err):
                ok = ok and isinstance(a, cq.Err) and isinstance(b, cq.Err)
            else:
                ok = ok and _eq_lib([["x", a]], model_lib_to_py([["x", b]]))
        if not ok:
            ctx.disagreement("rename_std_type: impl lib %s rows %s exc %s; model lib %s rows %s exc %s" % (
                str(lib1)[:200], rows1, exc, str(mlib)[:200], mrows, mexc), case)


def change_cases(ctx):
    rng = ctx.rng
    terms, keep = [], []
    for _ in range(ctx.n(80, 1200)):
        el = rng.choice(["line", "trafo", "trafo", "trafo3w"])
        single, par, nodes = CREATE[el]
        t_old, t_new = rand_type(rng, el), rand_type(rng, el)
        for k in ("vn_hv_kv", "vn_mv_kv", "vn_lv_kv"):
            if k in t_old:
                t_new[k] = t_old[k]
        a = _net3(el, t_old)
        # history: "new" = change to another type; "redefined" = the element's type is redefined under the same name
        # (create_std_type overwrite=True); "edited" = the element's parameters were edited by hand; in the last two
        # change_std_type is called with the name the element already carries and must still write every parameter
        hist = rng.choice(["new", "new", "redefined", "edited"])
        tn = "NEW" if hist == "new" else "OLD"
        if hist == "edited":
            t_new = dict(t_old)
        pp.create_std_type(a, t_old, "OLD", el)
        if hist == "new":
            pp.create_std_type(a, t_new, "NEW", el)
        user = {}
        if el != "line" and "tap_min" in t_old and "tap_max" in t_old and rng.random() < 0.6:
            user["tap_pos"] = int(rng.randint(int(t_old["tap_min"]), int(t_old["tap_max"])))
        try:
            with warnings.catch_warnings():
                warnings.simplefilter("ignore")
                single(a, std_type="OLD", **nodes, **user)
        except Exception:
            ctx.count("change_skipped")
            continue
        if hist == "redefined":
            pp.create_std_type(a, t_new, "OLD", el, overwrite=True)
        elif hist == "edited":
            for p in rng.sample(ELS[el][1], 2):
                if p in a[el].columns and isinstance(t_old[p], (int, float)) and not p.startswith("vn_"):
                    a[el].at[0, p] = float(t_old[p]) * 2 + 1
        ctx.count("change_history_" + hist)
        cols = list(a[el].columns)
        r0 = {c: ck.canon_cell(a[el][c].values[0]) for c in cols}
        b = copy.deepcopy(a)
        b0 = copy.deepcopy(a)
        pp.change_std_type(a, 0, tn, el)
        r1 = {c: ck.canon_cell(a[el][c].values[0]) for c in a[el].columns}
        case = {"el": el, "old": t_old, "new": t_new, "history": hist, "target_name": tn, "user_args": user, "columns": cols}
        ctx.case(case, nontrivial=len(t_new) > len(ELS[el][1]))
        ctx.count("change_" + el)
        # spec 1: every parameter of the type is in the row
        acc = inspect.signature(par).parameters          # element parameters (q_mm2 and the like are library-only data)
        notset = [p for p, v in t_new.items() if p in acc and not same(r1.get(p), ck.canon_cell(v))]
        if notset:
            k = "C25-change-std-type-skips-missing-column" if all(p not in cols for p in notset) else "spec"
            ctx.violation(k, "change_std_type: parameters %s of the new type are not in the row" % notset, case)
        # spec 2: behaves like a fresh element of the new type
        pp.create_std_type(b, t_new, tn, el, overwrite=True)
        b[el].drop(b[el].index, inplace=True)
        with warnings.catch_warnings():
            warnings.simplefilter("ignore")
            single(b, std_type=tn, **nodes, **({"tap_pos": user["tap_pos"]} if "tap_pos" in user else {}))
        rf = {c: ck.canon_cell(b[el][c].values[0]) for c in b[el].columns}
        stale = [c for c in cols if c not in SKIP and c not in ("tap_pos", "tap2_pos") and not same(r1.get(c), rf.get(c))]
        if stale:
            # recorded defect: a value of the previous type that the new type does not define (or defaulted by create only)
            g = all((c not in t_new) for c in stale)
            ctx.violation("C25-change-std-type-stale-parameters" if g else "spec",
                          "change_std_type: columns %s keep the previous type's value (fresh element: %s)" % (stale, {c: rf.get(c) for c in stale}), case)
        else:
            _finish(a, el); _finish(b, el)
            if "tap_pos" not in user and el != "line":
                b[el]["tap_pos"] = a[el]["tap_pos"].values
            if _res_equal(a, b, el) is False:
                ctx.violation("spec", "changed element and fresh element of the new type give different results", case)
        q = [c for c in cols if c not in ("name", "geo")]
        terms.append("run_change2 %s %s %s %s %s %s" % (cq.s(el), cq.lst([cq.s(c) for c in cols]), lib_term({tn: t_new}), cq.s(tn),
                                                        amap({c: v for c, v in r0.items() if c not in ("name", "geo")}), cq.lst([cq.s(c) for c in q])))
        keep.append((case, q, r1, _written_probe(b0, el, tn, t_new) if len(keep) % 2 == 0 else None, stale, rf))
    model = ctx.coq_eval("c25ch", "Base.QN C24.Model C25.Model", terms, shard=60)
    for (case, q, r1, written, stale, rf), m in zip(keep, model):
        ctx.corr_checked += 1
        m_row, m_written, m_stale, m_tcols, m_fresh = m
        bad = ["%s impl %r model %r" % (c, r1.get(c), v) for c, v in zip(q, m_row) if not same(v, r1.get(c))]
        if bad:
            ctx.disagreement("change_std_type row: " + "; ".join(bad)[:400], case)
            continue
        # the write set observed with sentinel values in every cell of the row
        if written is not None and sorted(written) != sorted(set(m_written) - {"name", "geo"}):
            ctx.disagreement("change_std_type write set: impl %s model %s" % (sorted(written), sorted(m_written)), case)
            continue
        # the stale columns observed against a really created fresh element = stale_cols of the model
        if sorted(stale) != sorted(m_stale):
            ctx.disagreement("change_std_type stale columns (vs fresh element): impl %s model %s" % (sorted(stale), sorted(m_stale)), case)
            continue
        badf = ["%s fresh impl %r model %r" % (c, rf.get(c), v) for c, v in zip(m_tcols, m_fresh) if c != "std_type" and not same(v, rf.get(c))]
        if badf:
            ctx.disagreement("fresh element of the new type: " + "; ".join(badf)[:400], case)
        ctx.count("change_stale_%d" % min(len(m_stale), 3))


# ------------------------------------------------------------------ (D) create_lines with a heterogeneous list of std types
def lines_list_cases(ctx):
    """every row created by create_lines(std_type=[...]) holds the parameters of *its own* type (same as create_line)"""
    rng = ctx.rng
    acc = inspect.signature(pp.create_line_from_parameters).parameters
    basic = list(_empty().std_types["line"])
    for _ in range(ctx.n(30, 500)):
        net = _empty()
        pp.create_buses(net, 5, 20.0)
        names = []
        for k in range(rng.randint(1, 3)):
            ty = rand_type(rng, "line")
            if rng.random() < 0.5:
                for p in ("r0_ohm_per_km", "x0_ohm_per_km", "c0_nf_per_km"):
                    ty[p] = ck.LINE_STD[p] * (k + 1)
            pp.create_std_type(net, ty, "T%d" % k, "line")
            names.append("T%d" % k)
        names += rng.sample(basic, rng.randint(0, 2))
        n = rng.randint(2, 5)
        sel = [rng.choice(names) for _ in range(n)]
        fb = [rng.randrange(5) for _ in range(n)]
        tb = [(b + 1 + rng.randrange(4)) % 5 for b in fb]
        a = copy.deepcopy(net)
        with warnings.catch_warnings():
            warnings.simplefilter("ignore")
            pp.create_lines(net, fb, tb, 1.5, sel)
            for i in range(n):
                pp.create_line(a, fb[i], tb[i], 1.5, sel[i])
        case = {"kind": "create_lines std_type list", "types": {nm: dict(net.std_types["line"][nm]) for nm in set(sel)}, "std_type": sel}
        ctx.case(case, nontrivial=len(set(sel)) > 1)
        ctx.count("lines_list_%s" % ("mixed" if len(set(sel)) > 1 else "homogeneous"))
        bad = []
        for i, nm in enumerate(sel):
            ty = net.std_types["line"][nm]
            rb = _row(net, "line", i); rs = _row(a, "line", i)
            for p in acc:
                if p in ("alpha", "endtemp_degree") or p not in ck.LINE_STD:
                    continue                     # alpha / endtemp_degree: recorded finding C25-create-line-skips-alpha-endtemp
                want = ck.canon_cell(ty[p]) if p in ty else (0.0 if p == "g_us_per_km" else None)
                if not same(rb.get(p), want):
                    bad.append("row %d (%s): %s = %r, type has %r" % (i, nm, p, rb.get(p), want))
                if not same(rb.get(p), rs.get(p)):
                    bad.append("row %d (%s): %s = %r, create_line gives %r" % (i, nm, p, rb.get(p), rs.get(p)))
        if bad:
            ctx.violation("spec", "create_lines with a list of std types: " + "; ".join(bad[:4]), case)


def run(ctx):
    lib_cases(ctx)
    created_cases(ctx)
    change_cases(ctx)
    lines_list_cases(ctx)
    rename_cases(ctx)


def replay(ctx, rec):
    ctx.notes.append("replay: re-running the generators with the recorded seed reproduces the case")
    run(ctx)
