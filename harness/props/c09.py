"""C09 — calculation results do not depend on the history of the network object.

Correspondence: (1) the key accesses on the net object during a calculation are logged (harness-process wrappers on
pandapowerNet item access); the set of private/result fields whose FIRST access is a read must equal the
read-before-write set of the Coq program of that calculation (C09.Model.rbw: runpp, runpp init="results"/rundcpp,
runopp), unknown private fields are reported; (2) for init="results" the start vector handed to the solver
(ppci["bus"][:, VM/VA], captured by a wrapper around _run_pf_algorithm) is compared exactly with
C09.Model.start_vector built from the previous res_bus, the set points and the buses that take part.
Oracle (independent of the model): random histories (edits, switching, in_service changes, runpp/rundcpp/runopp/
calc_sc/runpp_3ph with varying options, some failing) on ONE object; then the next power flow on the object, on a
deep copy and on a clone rebuilt from the user-visible state only (all keys not starting with '_') must give the
same converged flag and result tables; init="results" must converge to the fresh solution whenever the fresh
calculation converges."""
import copy, json, math, io, contextlib, warnings
import numpy as np, pandas as pd
import pandapower as pp
import pandapower.shortcircuit as sc
from fractions import Fraction
from vf import coqrun as cq, c08_nets as N
from vf.c09_access import AccessLog

RULE = ("histories of 4-12 operations on 3-5 bus ring nets with a 20 kV feeder bus, dclines, gens, tap tables: edits (load, gen set "
        "point, tap position, new load), switching (line / trafo / dcline in_service, so that buses become unsupplied and supplied "
        "again), calculations runpp (init auto/flat/dc/results, nr/iwamoto, enforce_q_lims), rundcpp, runopp, calc_sc, runpp_3ph, "
        "some of them failing; non-trivial = the history contains at least two calculations and an edit between them")
ASSUMPTIONS = ["what is computed from the fields read is arbitrary in the model (sem): solver behaviour is not modelled, only which "
               "fields a calculation reads before it writes them; the access log validates exactly that structure",
               "convergence of init='results' is checked differentially only (partial level)",
               "comparison tolerance 1e-8 on result tables (identical inputs and start vectors are expected to give identical floats)"]
TRUSTED = ["access logging by replacing pandapowerNet item-access methods in the harness process",
           "wrapper around pandapower.powerflow._run_pf_algorithm to read the start vector"]

FIELD = {"_options": 0, "converged": 1, "OPF_converged": 2, "_pd2ppc_lookups": 3, "_is_elements": 4, "_ppc": 5, "res_bus": 6,
         "_isolated_buses": 8, "_isolated_buses_dc": 8, "_aux_elements": 9, "_ppc_opf": 10, "res_cost": 11,
         "_fused_bb_switches": 12, "_impedance_bb_switches": 12, "_gen_order": 12, "_is_elements_final": 12}
USER_KEYS = {"user_pf_options"}
# entries of net._pd2ppc_lookups that _pd2ppc rewrites in every calculation; all other entries are lookups per kind of
# generating element, written only for kinds with an in-service element (C09.Model.F_LK_GEN)
LK_ALWAYS = {"bus", "aux", "merged_bus", "bus_dc", "aux_dc", "branch", "branch_dc"}
FIELD.update({"_ppc0": 17, "_ppc1": 17, "_ppc2": 17})


def _quiet(f, *a, **kw):
    with contextlib.redirect_stdout(io.StringIO()), warnings.catch_warnings():
        warnings.simplefilter("ignore")
        return f(*a, **kw)


def field_of(key):
    if key.startswith("_pd2ppc_lookups/"):
        return 3 if key.split("/", 1)[1] in LK_ALWAYS else 13
    if key in FIELD:
        return FIELD[key]
    if key.startswith("res_") and key.endswith("_sc"):
        return 14
    if key.startswith("res_") and key.endswith("_3ph"):
        return 15
    if key.startswith("res_") and key.endswith("_est"):
        return 16
    if key.startswith("_empty_res") or key in USER_KEYS:
        return "table"
    if key.startswith("res_"):
        return 7
    if key.startswith("_"):
        return "unknown:" + key
    return "table"


# ------------------------------------------------------------------ histories
def gen_history(rng, net, n):
    ops = []
    for _ in range(n):
        r = rng.random()
        if r < 0.45:
            kind = rng.choice(["load", "line", "trafo", "dcline", "tap", "gen_vm", "new_load", "load_q", "xward", "trafo3w", "kind_off",
                               "create_gen", "sgen"])
            if kind == "load":
                ops.append(["edit", "load_p", int(rng.choice(list(net.load.index))), rng.randint(1, 40) / 8])
            elif kind == "load_q":
                ops.append(["edit", "load_q", int(rng.choice(list(net.load.index))), rng.randint(0, 16) / 8])
            elif kind == "line":
                ops.append(["edit", "line_is", int(rng.choice(list(net.line.index))), rng.random() < 0.5])
            elif kind == "trafo":
                ops.append(["edit", "trafo_is", 0, rng.random() < 0.5])
            elif kind == "dcline" and len(net.dcline):
                ops.append(["edit", "dcline_is", int(rng.choice(list(net.dcline.index))), rng.random() < 0.5])
            elif kind == "tap":
                ops.append(["edit", "tap", 0, rng.randint(-2, 2)])
            elif kind == "xward" and len(net.xward):
                ops.append(["edit", "xward_is", int(rng.choice(list(net.xward.index))), rng.random() < 0.5])
            elif kind == "trafo3w" and len(net.trafo3w):
                ops.append(["edit", "trafo3w_is", int(rng.choice(list(net.trafo3w.index))), rng.random() < 0.5])
            elif kind == "kind_off":
                # all elements of one kind out of service (or back in service)
                ops.append(["edit", "kind_is", rng.choice(["gen", "sgen", "load", "xward", "shunt"]), rng.random() < 0.4])
            elif kind == "create_gen":
                ops.append(["edit", "create_gen", int(rng.choice(list(net.bus.index[1:3]))), rng.randint(1, 8) / 4])
            elif kind == "sgen" and len(net.sgen):
                ops.append(["edit", "sgen_is", int(rng.choice(list(net.sgen.index))), rng.random() < 0.5])
            elif kind == "gen_vm" and len(net.gen):
                ops.append(["edit", "gen_p", int(rng.choice(list(net.gen.index))), rng.randint(1, 16) / 4])
            else:
                ops.append(["edit", "new_load", int(rng.choice(list(net.bus.index))), rng.randint(1, 8) / 8])
        else:
            c = rng.choice(["runpp", "runpp", "runpp_opts", "runpp_results", "rundcpp", "runopp", "sc", "3ph", "runpp_fail"])
            if c == "runpp_opts":
                ops.append(["calc", "runpp", {"init": rng.choice(["auto", "flat", "dc"]), "algorithm": rng.choice(["nr", "iwamoto_nr"]),
                                              "enforce_q_lims": rng.random() < 0.3, "tolerance_mva": rng.choice([1e-8, 1e-6])}])
            elif c == "runpp_results":
                ops.append(["calc", "runpp", {"init": "results"}])
            elif c == "runpp_fail":
                ops.append(["calc", "runpp", {"max_iteration": 1, "init": "flat"}])
            else:
                ops.append(["calc", c, {}])
    return ops


def apply_op(net, op):
    if op[0] == "edit":
        _, what, i, v = op
        if what == "load_p":
            net.load.at[i, "p_mw"] = v
        elif what == "load_q":
            net.load.at[i, "q_mvar"] = v
        elif what == "line_is":
            net.line.at[i, "in_service"] = bool(v)
        elif what == "trafo_is":
            net.trafo.at[net.trafo.index[0], "in_service"] = bool(v)
        elif what == "dcline_is":
            net.dcline.at[i, "in_service"] = bool(v)
        elif what == "tap":
            net.trafo.at[net.trafo.index[0], "tap_pos"] = int(v)
        elif what == "gen_p":
            net.gen.at[i, "p_mw"] = v
        elif what == "new_load":
            pp.create_load(net, i, p_mw=v, q_mvar=0.0)
        elif what == "xward_is":
            net.xward.at[i, "in_service"] = bool(v)
        elif what == "trafo3w_is":
            net.trafo3w.at[i, "in_service"] = bool(v)
        elif what == "sgen_is":
            net.sgen.at[i, "in_service"] = bool(v)
        elif what == "kind_is":
            if len(net[i]):
                net[i]["in_service"] = bool(v)
        elif what == "create_gen":
            vm = float(net.ext_grid.vm_pu.values[0])
            if not (net.ext_grid.bus == i).any():      # all voltage set points of these nets are equal: no conflict at shared buses
                pp.create_gen(net, i, p_mw=v, vm_pu=vm, min_p_mw=0., max_p_mw=10., min_q_mvar=-5., max_q_mvar=5., controllable=True)
        return None
    _, c, kw = op
    try:
        if c == "runpp":
            _quiet(pp.runpp, net, numba=False, **kw)
        elif c == "rundcpp":
            _quiet(pp.rundcpp, net)
        elif c == "runopp":
            _quiet(pp.runopp, net, numba=False, calculate_voltage_angles=False)
        elif c == "sc":
            _quiet(sc.calc_sc, net, case="max")
        elif c == "3ph":
            _quiet(pp.runpp_3ph, net, numba=False)
        return "ok"
    except Exception as e:
        return type(e).__name__


def exc_class(e):
    """exceptions are compared by class of failure, never by message or exact type"""
    n = type(e).__name__
    if n in ("LoadflowNotConverged", "OPFNotConverged"):
        return "NotConverged"
    if n in ("UserWarning", "ValueError", "NotImplementedError"):
        return "UserInput"
    return "Internal"


def rebuilt_clone(net):
    """a net rebuilt from the user-visible state only: every key that does not start with '_' (tables, result tables,
    user_pf_options, flags); all private caches are those of a newly created network"""
    clone = pp.create_empty_network()
    for k, v in net.items():
        if not k.startswith("_"):
            clone[k] = copy.deepcopy(v)
    return clone


def results_of(net):
    out = {"converged": bool(net.get("converged", False))}
    for k, v in net.items():
        if k.startswith("res_") and isinstance(v, pd.DataFrame) and len(v):
            out[k] = (list(v.index), list(v.columns), v.to_numpy(dtype=float, na_value=np.nan) if all(
                str(t) != "object" for t in v.dtypes) else None)
    return out


def same_results(a, b, tol=1e-8):
    if a["converged"] != b["converged"]:
        return "converged %r vs %r" % (a["converged"], b["converged"])
    for k in sorted(set(a) | set(b)):
        if k == "converged":
            continue
        if k not in a or k not in b:
            return "%s present in only one" % k
        ia, ca, va = a[k]
        ib, cb, vb = b[k]
        if ia != ib or ca != cb:
            return "%s index/columns differ" % k
        if va is None or vb is None:
            continue
        if va.shape != vb.shape or not np.allclose(va, vb, rtol=0, atol=tol, equal_nan=True):
            bad = np.argwhere(~np.isclose(va, vb, rtol=0, atol=tol, equal_nan=True))
            r, c = bad[0]
            return "%s[%r, %s]: %r vs %r" % (k, ia[r], ca[c], va[r, c], vb[r, c])
    return None


def final_calc(net, kind):
    try:
        if kind == "runpp":
            _quiet(pp.runpp, net, numba=False)
        elif kind == "runpp_results":
            _quiet(pp.runpp, net, numba=False, init="results")
        elif kind == "rundcpp":
            _quiet(pp.rundcpp, net)
        elif kind == "runopp":
            _quiet(pp.runopp, net, numba=False, calculate_voltage_angles=False)
        return "ok"
    except Exception as e:
        net["converged"] = False
        return exc_class(e)


SC_HELPER_COLUMNS = {"k_st", "power_station_unit", "power_station_trafo", "pt_percent", "pg_percent", "oltc", "xn_ohm", "_ppc_idx"}


def final_x(net, kind):
    from pandapower.estimation import estimate
    try:
        if kind == "sc3ph":
            _quiet(sc.calc_sc, net, fault="3ph", case="max", ip=True, ith=True, branch_results=True)
        elif kind == "sc1ph":
            _quiet(sc.calc_sc, net, fault="1ph", case="max")
        elif kind == "3ph":
            _quiet(pp.runpp_3ph, net, numba=False)
        elif kind == "est":
            _quiet(estimate, net, init="flat")
        return "ok"
    except Exception as e:
        # both fail: no results to compare; which check fires first may depend on tables of other calculations being present
        return "fails"


def results_x(net, suffix):
    out = {"converged": True}
    for k, v in net.items():
        if k.startswith("res_") and k.endswith(suffix) and isinstance(v, pd.DataFrame) and len(v):
            out[k] = (list(v.index), list(v.columns), v.to_numpy(dtype=float, na_value=np.nan) if all(
                str(t) != "object" for t in v.dtypes) else None)
    return out


def g09_guard(obj_before, fresh_after):
    """python version of C09.Model.G09: previous res_bus has a number at every bus that takes part in the fresh solution
    and has no set point"""
    if "res_bus" not in obj_before or not obj_before.res_bus.index.equals(obj_before.bus.index):
        return True
    prev = obj_before.res_bus
    solved = fresh_after.res_bus.vm_pu.notna()
    setp = set(fresh_after.ext_grid.bus[fresh_after.ext_grid.in_service]) | set(fresh_after.gen.bus[fresh_after.gen.in_service])
    for dc in fresh_after.dcline.index:
        setp |= {fresh_after.dcline.at[dc, "from_bus"], fresh_after.dcline.at[dc, "to_bus"]}
    for b in obj_before.bus.index:
        if solved.get(b, False) and b not in setp and (pd.isna(prev.vm_pu.get(b, np.nan)) or pd.isna(prev.va_degree.get(b, np.nan))):
            return False
    return True


# both history dependences found by this oracle (rundcpp kept result tables, runopp reused lookups) are repaired: their
# classification keys no longer exist, a recurrence is an ordinary violation
K_DC = "spec"
K_OPF = "spec"
_DC_UNCOMPUTED = {}


def dc_uncomputed_columns():
    """result columns a DC power flow does not compute (they stay NaN in a DC power flow on a new net): measured on the
    implementation itself, once"""
    if not _DC_UNCOMPUTED:
        import random
        net = N.rich_net(random.Random(11), index_gap=False, shift=0, n_dcline=1, gens=1, xward=1, trafo3w=1, ctrl_sgen=1, bb_switch=0)
        if len(net.shunt) == 0:
            pp.create_shunt(net, net.bus.index[2], q_mvar=-0.5, p_mw=0.)
        _quiet(pp.rundcpp, net)
        for k, v in net.items():
            if k.startswith("res_") and isinstance(v, pd.DataFrame) and len(v):
                num = v.apply(pd.to_numeric, errors="coerce")
                if num.notna().any().any():
                    _DC_UNCOMPUTED[k] = {c for c in num.columns if num[c].isna().all()}
        _DC_UNCOMPUTED["_done"] = set()
    return _DC_UNCOMPUTED


def fresh_clone(net):
    """what a user gets who rebuilds the net from the element tables: no result tables, all private caches as in a
    newly created network"""
    clone = pp.create_empty_network()
    for k, v in net.items():
        if not k.startswith("_") and not k.startswith("res_") and k not in ("converged", "OPF_converged"):
            clone[k] = copy.deepcopy(v)
    return clone


def diff_cells(a, b, tol, only_tables_of=None):
    """list of (table, column | structural remark) in which two result sets differ; only_tables_of: restrict to the result
    tables this kind of calculation produces on a new net (tables left by other kinds of calculations are not its results)"""
    out = []
    if only_tables_of is not None:
        a = {k: v for k, v in a.items() if k in only_tables_of}
        b = {k: v for k, v in b.items() if k in only_tables_of}
    if a["converged"] != b["converged"]:
        out.append(("converged", "%r vs %r" % (a["converged"], b["converged"])))
    for k in sorted(set(a) | set(b)):
        if k == "converged":
            continue
        if k not in a or k not in b:
            present = a.get(k) or b.get(k)
            if present[2] is not None and np.isnan(present[2]).all():
                continue          # a table of NaN rows on one side, no table on the other: no information either way
            out.append((k, "table present on one side only"))
            continue
        ia, ca, va = a[k]
        ib, cb, vb = b[k]
        if ia != ib:
            out.append((k, "index %s vs %s" % (ia[:8], ib[:8])))
            continue
        for c in sorted(set(ca) | set(cb)):
            if c not in ca or c not in cb:
                col = (va[:, ca.index(c)] if c in ca else vb[:, cb.index(c)]) if (va is not None and vb is not None) else None
                if col is not None and np.isnan(col).all():
                    continue
                out.append((k, "column %s on one side only" % c))
                continue
            if va is None or vb is None:
                continue
            x, y = va[:, ca.index(c)], vb[:, cb.index(c)]
            if not np.allclose(x, y, rtol=0, atol=tol, equal_nan=True):
                r = int(np.argwhere(~np.isclose(x, y, rtol=0, atol=tol, equal_nan=True))[0][0])
                out.append((k, c, "%r: %r vs %r" % (ia[r], x[r], y[r])))
    return out


def history_case(ctx, rng, k):
    from vf import c08_snap as S
    # four families of histories in turn, each on a net that has the elements the family is about
    fam = k % 4
    base = N.rich_net(rng, index_gap=False, shift=0, bb_switch=0,
                      xward=rng.choice([1, 2]) if fam == 0 else rng.choice([0, 1]),
                      trafo3w=1 if fam == 0 else rng.choice([0, 1]),
                      gens=rng.choice([1, 2]) if fam == 1 else None,
                      n_dcline=rng.choice([1, 2]) if fam == 2 else ((0 if (k // 4) % 2 == 0 else rng.choice([0, 1])) if fam == 1 else None),
                      ctrl_sgen=1 if fam == 3 else rng.choice([0, 1]))
    base.line["endtemp_degree"] = 80.
    N.add_measurements(base)
    ops = gen_history(rng, base, rng.randint(3, 9))
    if fam == 0:
        # elements that have no result in the last power flow (out of service, or unsupplied because the feeder is out) and
        # take part afterwards
        off, on = [], []
        for t, what in (("xward", "xward_is"), ("trafo3w", "trafo3w_is")):
            for i in base[t].index:
                off.append(["edit", what, int(i), False]); on.append(["edit", what, int(i), True])
        off.append(["edit", "trafo_is", 0, False]); on.append(["edit", "trafo_is", 0, True])
        sel = rng.sample(range(len(off)), rng.randint(1, len(off)))
        ops += [["edit", "kind_is", "xward", True]] + [off[i] for i in sel] + [["calc", "runpp", {}]] + [on[i] for i in sel]
    elif fam == 1:
        # a calculation with everything in service, then all elements of one kind are switched off
        kinds = [t for t in ("gen", "sgen", "xward", "shunt") if len(base[t])]
        off_kinds = ["gen"] + [t for t in kinds if t != "gen" and rng.random() < 0.3]
        ops += [["edit", "kind_is", t, True] for t in kinds] + [["calc", "runpp", {}]] + [["edit", "kind_is", t, False] for t in off_kinds]
    elif fam == 2:
        # a calculation that fails half-way (short circuit without sc data for the dcline gens, unknown algorithm, ...),
        # then the user adds an element, then the next calculation
        ops += [["calc", rng.choice(["3ph", "runpp", "rundcpp"]), {}]] * rng.randint(0, 1) + [["calc", "sc", {}], ["edit", "create_gen", int(base.bus.index[rng.choice([1, 2])]), 1.25]]
    else:
        ops += [["calc", "runopp", {}], ["edit", "sgen_is", int(base.sgen.index[0]), False]]
    obj = copy.deepcopy(base)
    outcomes = [apply_op(obj, op) for op in ops]
    ncalc = sum(1 for o in ops if o[0] == "calc")
    edit_between = any(ops[i][0] == "edit" and any(o[0] == "calc" for o in ops[:i]) for i in range(len(ops)))
    case = {"net": pp.to_json(base), "ops": ops}
    last = [(o, rr) for o, rr in zip(ops, outcomes) if o[0] == "calc" and o[1] in ("runpp", "rundcpp", "runopp", "sc", "3ph")]
    # "previous results belong to a nearby switching state": they come from a converged AC power flow
    prev_is_pf = bool(last) and last[-1][0][1] == "runpp" and last[-1][1] == "ok" and "max_iteration" not in last[-1][0][2]
    had_ctrl_lookup = any(str(key).endswith("_controllable") for key in (obj.get("_pd2ppc_lookups") or {}))
    dc_cols = dc_uncomputed_columns()
    for kind in ("runpp", "rundcpp", "runpp_results", "runopp"):
        if kind == "runopp" and rng.random() < 0.5:
            continue
        o1, o2, o3, o4 = copy.deepcopy(obj), copy.deepcopy(obj), rebuilt_clone(obj), fresh_clone(obj)
        s_before = S.snapshot(o1)
        r1, r2, r3 = final_calc(o1, kind), final_calc(o2, kind), final_calc(o3, kind)
        r4 = final_calc(o4, "runpp" if kind == "runpp_results" else kind)
        a, b, c, f = results_of(o1), results_of(o2), results_of(o3), results_of(o4)
        fin = dict(case, final=kind)
        # the calculation itself must not touch the element tables (a user row silently removed would also change results)
        dd = [x for x in S.diff(s_before, S.snapshot(o1)) if x[1] not in ("dtype_changed",)]
        if dd:
            ctx.violation("spec", "%s after the history changes the element tables: %s" % (kind, dd[:3]), fin)
        d = diff_cells(a, b, 1e-8)
        if d or r1 != r2:
            ctx.violation("spec", "%s on two deep copies of the same object differs: %s (%s/%s)" % (kind, d[:3], r1, r2), fin)
        d = diff_cells(a, c, 1e-8 if kind != "runopp" else 1e-4)
        opf_stale = False
        if kind == "runopp" and (d or r1 != r3):
            # is the deviation caused by exactly the lookups of the previous calculation (which runopp does not clear)?
            # -> the same object with ONLY net._pd2ppc_lookups reset behaves like the rebuilt net
            o5 = copy.deepcopy(obj)
            o5["_pd2ppc_lookups"] = copy.deepcopy(pp.create_empty_network()["_pd2ppc_lookups"])
            r5 = final_calc(o5, kind)
            opf_stale = r5 == r3 and not diff_cells(results_of(o5), c, 1e-4)
        if d or r1 != r3:
            ctx.violation(K_OPF if opf_stale else "spec",
                          "%s after the history differs from the same calculation on a net rebuilt from the user-visible state (only "
                          "private caches differ): %s (%s/%s)" % (kind, d[:3], r1, r3), fin)
        # against the net rebuilt from the element tables alone
        if kind == "runpp_results":
            if r4 == "ok" and prev_is_pf:
                d = diff_cells(a, f, 1e-5, only_tables_of=f) if r1 == "ok" else []
                if r1 != "ok" or d:
                    ctx.violation("spec", "runpp(init='results') %s although the fresh power flow converges%s" % (
                        "fails (%s)" % r1 if r1 != "ok" else "gives other results: %s" % (d[:3],),
                        " (previous res_bus has NaN at a bus that is supplied now)" if not g09_guard(obj, o4) else ""), fin)
                ctx.count("results_start_%s" % ("ok" if r1 == "ok" and not d else "fails"))
        else:
            d = diff_cells(a, f, 1e-8 if kind != "runopp" else 1e-4, only_tables_of=f) if (r1 == "ok" and r4 == "ok") else []
            if r1 != r4 or d:
                if kind == "rundcpp" and r1 == r4 and d and all(
                        (len(x) == 3 and x[1] in dc_cols.get(x[0], ())) or (len(x) == 2 and x[1].endswith("on one side only") and
                                                                          x[1].startswith("column ") and
                                                                          x[1].split()[1] not in f[x[0]][1]) for x in d):
                    kd = K_DC      # only columns that a DC power flow never computes: values of an earlier calculation stay
                elif opf_stale:
                    kd = K_OPF
                else:
                    kd = "spec"
                ctx.violation(kd, "%s after the history differs from the same calculation on a net rebuilt from the element tables: "
                              "%s (%s/%s)" % (kind, d[:3], r1, r4), fin)
        ctx.count("final_%s_%s" % (kind, r1))
    # short circuit, three-phase power flow, state estimation after the history: the result tables of that kind of
    # calculation on the object, on a net rebuilt from the user-visible state and on a net rebuilt from the element tables alone
    for kind, suffix in rng.sample([("sc3ph", "_sc"), ("sc1ph", "_sc"), ("3ph", "_3ph"), ("est", "_est")], ctx.n(1, 2)):
        o1, o3, o4 = copy.deepcopy(obj), rebuilt_clone(obj), fresh_clone(obj)
        s_before = S.snapshot(o1)
        r1, r3, r4 = final_x(o1, kind), final_x(o3, kind), final_x(o4, kind)
        fin = dict(case, final=kind)
        # helper columns that an earlier short-circuit calculation added (not input values) are recomputed by the next one
        dd = [x for x in S.diff(s_before, S.snapshot(o1)) if x[1] not in ("dtype_changed",) and
              not (x[1] == "value_changed" and x[2].split("[")[0] in SC_HELPER_COLUMNS)]
        if dd:
            ctx.violation("spec", "%s after the history changes the element tables: %s" % (kind, dd[:3]), fin)
        a, c, f = results_x(o1, suffix), results_x(o3, suffix), results_x(o4, suffix)
        d3 = diff_cells(a, c, 1e-8) if r1 == "ok" and r3 == "ok" else []
        d4 = diff_cells(a, f, 1e-8) if r1 == "ok" and r4 == "ok" else []
        if r1 != r3 or r1 != r4 or d3 or d4:
            ctx.violation("spec", "%s after the history differs from the same calculation on a rebuilt net: %s %s (%s/%s/%s)" % (
                kind, d3[:3], d4[:3], r1, r3, r4), fin)
        ctx.count("final_%s_%s" % (kind, r1))
    # the object itself vs its deep copy (identity-based state would show here)
    twin = copy.deepcopy(obj)
    ra, rb = final_calc(obj, "runpp"), final_calc(twin, "runpp")
    d = diff_cells(results_of(obj), results_of(twin), 1e-8)
    if d or ra != rb:
        ctx.violation("spec", "runpp on the object differs from runpp on its deep copy: %s (%s/%s)" % (d[:3], ra, rb), dict(case, final="runpp"))
    ctx.case({"ops": ops, "outcomes": outcomes}, nontrivial=ncalc >= 2 and edit_between,
             sample={"ops": ops, "outcomes": outcomes} if k < 2 else None)
    ctx.count("histories")
    ctx.count("history_calcs", ncalc)
    return obj


# ------------------------------------------------------------------ correspondence 1: read-before-write sets
def access_case(ctx, rng, terms, expect, new_kind=None):
    if new_kind is None:
        base = N.rich_net(rng, index_gap=False, shift=0)
    else:
        # nets on which short circuit / three-phase / estimation run: no dcline (its auxiliary gens have no short-circuit
        # data), no user gens for the three-phase power flow, measurements for the estimation
        base = N.rich_net(rng, index_gap=False, shift=0, n_dcline=0, gens=0 if new_kind == "3ph" else rng.choice([0, 1]),
                          bb_switch=1 if new_kind == "est_bb" else 0, xward=0, trafo3w=0)
        base.line["endtemp_degree"] = 80.
        N.add_measurements(base)
    obj = copy.deepcopy(base)
    hist = gen_history(rng, base, rng.randint(2, 6))
    if new_kind is not None:
        hist = [op for op in hist if op[1] not in ("create_gen", "kind_is")]
    for op in hist + [["calc", "runpp", {}]]:
        apply_op(obj, op)
    choices = [
        ("runpp", 0, lambda n: pp.runpp(n, numba=False, init=rng.choice(["auto", "flat", "dc"]))),
        ("runpp_results", 1, lambda n: pp.runpp(n, numba=False, init="results")),
        ("rundcpp", 0, lambda n: pp.rundcpp(n)),
        ("runopp", 2, lambda n: pp.runopp(n, numba=False, calculate_voltage_angles=False))]
    if new_kind is not None:
        from pandapower.estimation import estimate
        # guard of the partial theorems: every kind of generating element whose lookup is read has an in-service element
        allk = bool(obj.ext_grid.in_service.any())
        choices = {"sc3ph": ("sc3ph", 4 if allk else 5, lambda n: sc.calc_sc(n, fault="3ph", case="max", ip=True, ith=True, branch_results=True)),
                   "sc1ph": ("sc1ph", 4 if allk else 5, lambda n: sc.calc_sc(n, fault="1ph", case="max")),
                   "sc_prefault": ("sc_prefault", 6 if allk else 7,
                                   lambda n: sc.calc_sc(n, case="max", use_pre_fault_voltage=True, bus=int(n.bus.index[1]))),
                   "3ph": ("3ph", 8 if allk else 9, lambda n: pp.runpp_3ph(n, numba=False)),
                   "est": ("est", 10 if allk else 11, lambda n: estimate(n, init="flat")),
                   "est_results": ("est_results", 12 if allk else 13, lambda n: estimate(n, init="results")),
                   "est_bb": ("est_bb", 14 if allk else 15, lambda n: estimate(n, init="flat", fuse_buses_with_bb_switch=None))}
        choices = [choices[new_kind]]
    kind, k, f = rng.choice(choices)
    with AccessLog(obj, sub=("_pd2ppc_lookups",)) as log:
        try:
            _quiet(f, obj)
            out = "ok"
        except Exception as e:
            out = type(e).__name__
    read_first, unknown = set(), []
    for key, first in log.first.items():
        if key == "_pd2ppc_lookups":
            continue          # fetching the container; its entries are logged one by one
        fld = field_of(key)
        if isinstance(fld, str):
            if fld.startswith("unknown"):
                unknown.append(key)
            continue
        if first == "R":
            read_first.add(fld)
    terms.append("run_rbw %s" % cq.nat(k))
    expect.append((kind if new_kind is None else "x:" + kind, sorted(read_first), unknown, out))
    ctx.case({"access": kind, "outcome": out}, nontrivial=True)
    ctx.count("access_%s_%s" % (kind, out))


# ------------------------------------------------------------------ correspondence 2: the start vector
def start_vector_case(ctx, rng, terms, expect, aux=False):
    import pandapower.powerflow as pf
    from pandapower.pypower.idx_bus import VM, VA, BUS_TYPE, NONE
    if aux:
        base = N.rich_net(rng, index_gap=False, n_dcline=0, shift=rng.choice([0, 150]), bb_switch=0, xward=rng.choice([1, 2]),
                          trafo3w=rng.choice([0, 1]))
    else:
        base = N.rich_net(rng, index_gap=False, n_dcline=rng.choice([0, 1]), shift=rng.choice([0, 150]))
    obj = copy.deepcopy(base)
    hist = gen_history(rng, base, rng.randint(2, 6))
    # make an unsupplied bus likely: feeder transformer out, power flow, transformer in again
    if aux:
        # elements with an auxiliary bus that had no result in the last power flow (out of service / unsupplied) and take part now
        hist = [op for op in hist if op[1] not in ("kind_is",)]
        off = [["edit", "xward_is", int(i), False] for i in base.xward.index if rng.random() < 0.5] + \
              [["edit", "trafo3w_is", int(i), False] for i in base.trafo3w.index if rng.random() < 0.5] + \
              ([["edit", "trafo_is", 0, False]] if rng.random() < 0.4 else [])
        hist += [["edit", "kind_is", "xward", True]] + off + [["calc", "runpp", {}]] + [[o[0], o[1], o[2], True] for o in off]
    elif rng.random() < 0.6:
        hist += [["edit", "trafo_is", 0, False], ["calc", "runpp", {}], ["edit", "trafo_is", 0, True]]
    else:
        hist += [["calc", "runpp", {}]]
    for op in hist:
        apply_op(obj, op)
    if "res_bus" not in obj or not obj.res_bus.index.equals(obj.bus.index) or len(obj.res_bus) == 0:
        return
    prev = obj.res_bus[["vm_pu", "va_degree"]].copy()
    prev_aux = {t: obj["res_" + t][["vm_internal_pu", "va_internal_degree"]].copy() for t in ("xward", "trafo3w")
                if aux and len(obj[t]) and "res_" + t in obj and obj["res_" + t].index.equals(obj[t].index)}
    if aux and set(prev_aux) != {t for t in ("xward", "trafo3w") if len(obj[t])}:
        ctx.count("start_vector_aux_skipped_no_previous_tables")
        return
    cap = {}
    orig = pf._run_pf_algorithm

    def spy(ppci, options, **kw):
        net = cap["net"]
        cap["start"] = ppci["bus"][:, [VM, VA]].copy()
        cap["kept"] = (net._ppc["bus"][:len(net.bus), BUS_TYPE] != NONE).tolist() if False else None
        cap["ppc_types"] = None
        eg = net.ext_grid[net.ext_grid.in_service]
        gn = net.gen[net.gen.in_service]
        cap["set_vm"] = {int(b): float(v) for b, v in zip(gn.bus.values, gn.vm_pu.values)}
        cap["set_vm"].update({int(b): float(v) for b, v in zip(eg.bus.values, eg.vm_pu.values)})
        cap["set_va"] = {int(b): float(v) for b, v in zip(eg.bus.values, eg.va_degree.values)}
        cap["lookup"] = net._pd2ppc_lookups["bus"].copy()
        cap["nppci"] = ppci["bus"].shape[0]
        cap["aux"] = {t: np.array(v).copy() for t, v in net._pd2ppc_lookups.get("aux", {}).items()}
        cap["ppc_type"] = net._ppc["bus"][:, BUS_TYPE].copy()
        raise RuntimeError("stop before the solver")
    pf._run_pf_algorithm = spy
    cap["net"] = obj
    try:
        try:
            _quiet(pp.runpp, obj, numba=False, init="results")
        except RuntimeError:
            pass
        except Exception as e:
            ctx.count("start_vector_other_exception_" + type(e).__name__)
            return
    finally:
        pf._run_pf_algorithm = orig
    if "start" not in cap:
        return
    # which buses take part: the ppc rows that survived into the ppci (order preserved; no bus-bus switches in these nets)
    from pandapower.pypower.idx_bus import BUS_I
    ppc = obj._ppc if "_ppc" in obj else None
    bus_ids = list(obj.bus.index)
    try:
        internal = obj._ppc["internal"] if ppc is not None and "internal" in ppc else None
    except Exception:
        internal = None
    # the lookup captured in front of the solver is already in ppci numbering (pd2ppc.py _ppc2ppci: the rows that take part
    # come first, in ppc order; switched-off / isolated rows are numbered behind them): a bus takes part iff its number is
    # below the size of the ppci
    lookup = cap["lookup"]
    kept = [0 <= int(lookup[b]) < cap["nppci"] for b in bus_ids]
    aux_rows = []
    if aux:
        # auxiliary buses follow the buses of the bus table in the ppc, kind by kind (build_bus.py:430-440)
        pos = {b: j for j, b in enumerate(bus_ids)}
        for t, col in (("xward", "bus"), ("trafo3w", "hv_bus")):
            if len(obj[t]) == 0:
                continue
            for j, i in enumerate(obj[t].index):
                kp = 0 <= int(lookup[int(cap["aux"][t][j])]) < cap["nppci"]
                setv = float(obj.xward.at[i, "vm_pu"]) if (t == "xward" and bool(obj.xward.at[i, "in_service"])) else None
                aux_rows.append((prev_aux[t].vm_internal_pu.at[i], prev_aux[t].va_internal_degree.at[i], pos[int(obj[t].at[i, col])], setv, kp))
    if sum(kept) + sum(1 for a in aux_rows if a[4]) != cap["nppci"]:
        ctx.count("start_vector_skipped_unexpected_ppci_size")
        return
    rows = []
    for b, kp in zip(bus_ids, kept):
        def o(x):
            return cq.oq(None if (x is None or (isinstance(x, float) and math.isnan(x))) else float(x))
        in_srv = bool(obj.bus.at[b, "in_service"])
        rows.append("{| b_prev_vm := %s; b_prev_va := %s; b_set_vm := %s; b_set_va := %s; b_kept := %s |}" % (
            o(float(prev.vm_pu.at[b])), o(float(prev.va_degree.at[b])),
            o(cap["set_vm"].get(int(b)) if in_srv else None), o(cap["set_va"].get(int(b)) if in_srv else None), cq.b(kp)))
    if aux:
        def o2(x):
            return cq.oq(None if (x is None or (isinstance(x, float) and math.isnan(x))) else float(x))
        arows = ["{| a_prev_vm := %s; a_prev_va := %s; a_bus := %s; a_set_vm := %s; a_kept := %s |}" % (
            o2(float(a[0])), o2(float(a[1])), cq.nat(a[2]), o2(a[3]), cq.b(a[4])) for a in aux_rows]
        terms.append("run_start_aux %s %s" % (cq.lst(rows), cq.lst(arows)))
        ctx.count("start_vector_aux_cases")
        ctx.count("start_vector_aux_without_previous_internal_voltage" if any(a[4] and math.isnan(float(a[0])) for a in aux_rows)
                  else "start_vector_aux_all_previous")
    else:
        terms.append("run_start %s" % cq.lst(rows))

    def fr(x):
        return None if math.isnan(x) else Fraction(float(x))
    expect.append(("start", [[fr(a), fr(b)] for a, b in cap["start"]], None, None))
    nan_in = any(math.isnan(a) or math.isnan(b) for a, b in cap["start"])
    ctx.case({"start_vector": [list(map(lambda x: None if math.isnan(x) else x, r)) for r in cap["start"].tolist()]}, nontrivial=True,
             sample=None)
    ctx.count("start_vector_cases")
    ctx.count("start_vector_with_nan" if nan_in else "start_vector_all_numbers")
    ctx.count("previous_res_bus_with_nan" if prev.isna().any().any() else "previous_res_bus_all_numbers")


def corpus_witness(ctx):
    """the repaired defect (NaN start vector after an unsupplied bus) is replayed first on the real code"""
    net = pp.create_empty_network()
    b = [pp.create_bus(net, 20.) for _ in range(3)]
    pp.create_ext_grid(net, b[0])
    pp.create_line(net, b[0], b[1], 1., "NAYY 4x150 SE")
    l2 = pp.create_line(net, b[1], b[2], 1., "NAYY 4x150 SE")
    pp.create_load(net, b[2], 0.1, 0.02)
    net.line.at[l2, "in_service"] = False
    pp.runpp(net, numba=False)
    net.line.at[l2, "in_service"] = True
    before = copy.deepcopy(net)
    fresh = pp.from_json_string(pp.to_json(rebuilt_clone(net)))
    rf = final_calc(fresh, "runpp")
    rw = final_calc(net, "runpp_results")
    if rf == "ok" and rw != "ok":
        ctx.violation("spec", "runpp(init='results') fails (%s) although the fresh power flow converges" % rw,
                      {"corpus": "3-bus feeder: line 1 out of service -> runpp -> line 1 in service -> runpp(init='results')"})
    ctx.case({"corpus": "feeder"}, nontrivial=True)


def run(ctx):
    rng = ctx.rng
    corpus_witness(ctx)
    terms, expect = [], []
    for _ in range(ctx.n(24, 180)):
        access_case(ctx, rng, terms, expect)
    for j in range(ctx.n(14, 126)):
        access_case(ctx, rng, terms, expect, new_kind=["sc3ph", "3ph", "est", "est_bb", "sc1ph", "sc_prefault", "est_results"][j % 7])
    for _ in range(ctx.n(30, 300)):
        start_vector_case(ctx, rng, terms, expect)
    for _ in range(ctx.n(10, 150)):
        start_vector_case(ctx, rng, terms, expect, aux=True)
    model = ctx.coq_eval("c09", "Base.QN C09.Model", terms, shard=100, timeout=900)
    for (kind, obs, unknown, out), m in zip(expect, model):
        ctx.corr_checked += 1
        if kind == "start":
            vec, defined, g = m
            if json.dumps([[str(a), str(b)] for a, b in vec]) != json.dumps([[str(a), str(b)] for a, b in obs]):
                ctx.disagreement("start vector for init='results': impl %s / model %s" % (obs, vec), {"kind": kind})
            py_def = all(a is not None and b is not None for a, b in obs)
            if defined != py_def:
                ctx.disagreement("start vector defined: impl %r model %r" % (py_def, defined), {"kind": kind})
            if not py_def:
                ctx.violation("spec", "the start vector handed to the solver for init='results' contains NaN: %s" % obs, {"kind": kind})
        else:
            if unknown:
                ctx.disagreement("private fields of the net that the model does not know: %s" % unknown, {"kind": kind})
            elif kind.startswith("x:") and out == "ok" and not (set(obs) <= set(m) and set(m) - set(obs) <= {7, 13}):
                # may-reads: the generator-type lookups (read only when a kind has no in-service element) and the power flow result
                # tables (read only when auxiliary elements are tracked / auxiliary buses exist)
                ctx.disagreement("fields read before written during %s: impl %s / model %s" % (kind, obs, sorted(set(m))), {"kind": kind})
            elif kind.startswith("x:") and out == "ok":
                pass
            elif out == "ok" and sorted(set(m)) != obs:
                ctx.disagreement("fields read before written during %s: impl %s / model %s" % (kind, obs, sorted(set(m))), {"kind": kind})
            elif out != "ok" and not set(obs) <= set(m):
                ctx.disagreement("fields read before written during failing %s: impl %s not within model %s" % (kind, obs, sorted(set(m))), {"kind": kind})
    for k in range(ctx.n(16, 240)):
        history_case(ctx, rng, k)


def replay(ctx, rec):
    case = rec["case"]
    if "ops" not in case:
        corpus_witness(ctx)
        return
    base = pp.from_json_string(case["net"])
    obj = copy.deepcopy(base)
    for op in case["ops"]:
        apply_op(obj, op)
    kind = case.get("final", "runpp")
    if kind in ("sc3ph", "sc1ph", "3ph", "est"):
        suffix = {"sc3ph": "_sc", "sc1ph": "_sc", "3ph": "_3ph", "est": "_est"}[kind]
        o1, o3, o4 = copy.deepcopy(obj), rebuilt_clone(obj), fresh_clone(obj)
        r1, r3, r4 = final_x(o1, kind), final_x(o3, kind), final_x(o4, kind)
        d3 = diff_cells(results_x(o1, suffix), results_x(o3, suffix), 1e-8) if r1 == "ok" and r3 == "ok" else []
        d4 = diff_cells(results_x(o1, suffix), results_x(o4, suffix), 1e-8) if r1 == "ok" and r4 == "ok" else []
        if r1 != r3 or r1 != r4 or d3 or d4:
            ctx.violation("spec", "%s after the history differs from the same calculation on a rebuilt net: %s %s (%s/%s/%s)" % (
                kind, d3[:3], d4[:3], r1, r3, r4), case)
        ctx.case({"replay": kind}, nontrivial=True)
        return
    o1, o3 = copy.deepcopy(obj), rebuilt_clone(obj)
    r1, r3 = final_calc(o1, kind), final_calc(o3, kind)
    d = same_results(results_of(o1), results_of(o3))
    if d or r1 != r3:
        ctx.violation("spec", "%s after the history differs from a net rebuilt from the user-visible state: %s (%s/%s)" % (kind, d, r1, r3), case)
    ctx.case({"replay": kind}, nontrivial=True)
