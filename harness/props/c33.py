"""C33 — DER controller: apparent-power saturation and PQV area clamping.
Correspondence: DERController objects on small nets (1-4 sgens, stubbed res_bus.vm_pu) with every area family, both
priorities, several damping coefficients and Q models; is_converged()/control_step() are called 2-3 times; the damped
targets of every element are compared with C33.Model.run_target.  np.sqrt inside der_control and q_model.step are
recorded (oracles) and handed to the model.
Oracle: the property text on the values written to net.sgen and on the undamped targets (apparent power <= saturate_sn_mva,
q within the area's q_flexibility at the element's p and vm), computed from the area objects, independent of the model."""
import math, copy
import numpy as np, pandas as pd
import pandapower as pp
from fractions import Fraction
import pandapower.control.controller.DERController.der_control as dc
from pandapower.control.controller.DERController import DERController
import pandapower.control.controller.DERController.PQVAreas as A
import pandapower.control.controller.DERController.QModels as QM
from vf import coqrun as cq

RULE = ("1-4 sgens with sn_mva in {0.5,1,2,4}, p/q on a k/64 grid (including negative p and points outside the inverter "
        "disc), voltages on a k/256 grid in [0.85,1.2] plus the breakpoints of the 4120 QV area; areas: none, PQVArea4120V1-3 "
        "(2015/2018, raise_merge_overlap on/off), PQAreaSTATCOM, PQVArea4110, PQVArea4105 v1/v2, PQVAreaPOLYGON (shapely = oracle); "
        "saturate_sn_mva NaN or 0.5..1.25 x sn; q_prio on/off; damping in {1,2,4,1.5,0.5}; Q model none/ConstQ/CosphiP/QV curve; "
        "2-3 consecutive steps with changing voltages; non-trivial = at least one element was clamped to the area or saturated")
ASSUMPTIONS = ["np.sqrt is an oracle: the recorded return value is passed to the model, the residual rt*rt - argument is recorded",
               "shapely polygon predicates (contains, line intersection) are oracles: in_area and q_flexibility of polygon areas are evaluated "
               "per element by the harness and passed to the model; their contract (in_area => min_q <= q <= max_q, min_q <= max_q) is checked",
               "Q models are oracles (q_model.step is recorded)"]
TRUSTED = ["module attribute der_control.np replaced by a recording proxy during the calls (harness process only)",
           "net.res_bus written directly (stub) instead of running a power flow"]
KF_DAMP = "C33-damped-step-from-outside"
_EMPTY = []


class NPProxy:
    def __init__(self, log):
        self._log = log

    def __getattr__(self, name):
        return getattr(np, name)

    def sqrt(self, x):
        r = np.sqrt(x)
        self._log.append((x, r))
        return r


def mk_net(rng, n):
    if not _EMPTY:
        _EMPTY.append(pp.create_empty_network())
    net = copy.deepcopy(_EMPTY[0])
    b0 = pp.create_bus(net, 20.0)
    pp.create_ext_grid(net, b0)
    for k in range(n):
        b = pp.create_bus(net, 20.0)
        pp.create_line(net, b0, b, 1.0, "NA2XS2Y 1x240 RM/25 12/20 kV")
        sn = rng.choice([0.5, 1.0, 2.0, 4.0])
        p = rng.randint(-8, 80) / 64 * sn
        q = rng.randint(-64, 64) / 64 * sn
        pp.create_sgen(net, b, p_mw=p, q_mvar=q, sn_mva=sn, name="sg%d" % k, type="PV")
    return net


def mk_area(rng):
    r = rng.random()
    if r < 0.12:
        return None, "none"
    if r < 0.4:
        cls = rng.choice([A.PQVArea4120V1, A.PQVArea4120V2, A.PQVArea4120V3])
        return cls(version=rng.choice([2015, 2018]), raise_merge_overlap=rng.random() < 0.5), "4120"
    if r < 0.5:
        lo = rng.randint(-32, 0) / 64
        return A.PQAreaSTATCOM(lo, lo + rng.randint(0, 48) / 64), "statcom"
    if r < 0.68:
        # VDE 4130 (EHV): PQArea4130 + QV limits np.interp over the tabulated points — modelled (C33.Model.A4130)
        cls = rng.choice([A.PQVArea4130V1, A.PQVArea4130V2, A.PQVArea4130V3])
        return cls(vn_kv=rng.choice([380, 220]), raise_merge_overlap=rng.random() < 0.4), "4130"
    if r < 0.76:
        return A.PQVArea4110(raise_merge_overlap=False), "poly"
    if r < 0.86:
        return A.PQVArea4105(rng.choice([1, 2]), raise_merge_overlap=False), "poly"
    return A.PQVAreaPOLYGON(p_points_pu=(0.1, 0.2, 1, 1, 0.2, 0.1, 0.1),
                            q_pq_points_pu=(0.1, 0.410775, 0.410775, -0.328684, -0.328684, -0.1, 0.1),
                            q_qv_points_pu=(0.1, 0.410775, 0.410775, -0.328684, -0.328684, -0.1, 0.1),
                            vm_points_pu=(0.9, 1.05, 1.1, 1.1, 1.05, 0.9, 0.9), raise_merge_overlap=False), "poly"


def mk_qmodel(rng):
    r = rng.random()
    if r < 0.35:
        return None
    if r < 0.6:
        return QM.QModelConstQ(rng.randint(-48, 48) / 64)
    if r < 0.8:
        return QM.QModelCosphiP(cosphi=rng.choice([-0.95, 0.9, -0.8, 1.0]))
    return QM.QModelQVCurve({"vm_points_pu": (0, 0.96, 1., 1.04), "q_points_pu": (0.4, 0.4, 0., -0.4)})


VM_SPECIAL = [96.0 / 110, 127.0 / 110, 96.0 / 110 + 7.0 / 110, 127.0 / 110 - 7.0 / 110, 0.9, 1.05, 1.1]
# the tabulated voltages of QVArea4130 (380 kV and 220 kV)
VM_4130 = [350 / 380, (350 - 1e-3) / 380, 1.0, 400 / 380, 410 / 380, 420 / 380, 440 / 380, (440 + 1e-3) / 380,
           193 / 220, 233.5 / 220, 240 / 220, 245 / 220, 253 / 220]


def pq_term(a):
    qf = lambda x: cq.q(float(x))
    return ("{| p0 := %s; p1 := %s; a_min_q := %s; a_max_q := %s; q_under := %s; lf_ind := %s; lf_cap := %s; "
            "k_low := %s; k_ind := %s; k_cap := %s |}") % (
        qf(a.p_points_pu[0]), qf(a.p_points_pu[1]), qf(a.min_q_pu), qf(a.max_q_pu), qf(a.q_max_under_p_point),
        qf(a.linear_factor_ind), qf(a.linear_factor_cap), qf(-0.05), qf(-0.1), qf(0.1))


def area_term(area, kind, p_pu, q_pu, vm):
    """Gallina term of the area for one element (polygon areas: oracle triple); also returns python (inside, lo, hi) or None"""
    if kind == "none":
        return "ANone", None, True
    if kind == "4120":
        a, v = area.pq_area, area.qv_area
        qf = lambda x: cq.q(float(x))
        at = ("{| p0 := %s; p1 := %s; a_min_q := %s; a_max_q := %s; q_under := %s; lf_ind := %s; lf_cap := %s; "
              "k_low := %s; k_ind := %s; k_cap := %s |}") % (
            qf(a.p_points_pu[0]), qf(a.p_points_pu[1]), qf(a.min_q_pu), qf(a.max_q_pu), qf(a.q_max_under_p_point),
            qf(a.linear_factor_ind), qf(a.linear_factor_cap), qf(-0.05), qf(-0.1), qf(0.1))
        vt = "{| v_min_q := %s; v_max_q := %s; min_vm := %s; max_vm := %s; b1 := %s; b2 := %s; lf := %s |}" % (
            qf(v.min_q_pu), qf(v.max_q_pu), qf(v.min_vm_pu), qf(v.max_vm_pu), qf(v.min_vm_pu + v.delta_vm_pu),
            qf(v.max_vm_pu - v.delta_vm_pu), qf(v.linear_factor))
        return "(A4120 %s %s %s)" % (at, vt, cq.b(area.raise_merge_overlap)), None, True
    if kind == "statcom":
        return "(AStatcom %s %s)" % (cq.q(float(area.min_q_pu)), cq.q(float(area.max_q_pu))), None, True
    if kind == "4130":
        v = area.qv_area
        pts = lambda xs, ys: cq.lst(["(%s, %s)" % (cq.q(float(x)), cq.q(float(y))) for x, y in zip(xs, ys)])
        return "(A4130 %s %s %s %s)" % (pq_term(area.pq_area), pts(v.min_vm_points_pu, v.min_q_points_pu),
                                        pts(v.max_vm_points_pu, v.max_q_points_pu), cq.b(area.raise_merge_overlap)), None, True
    # polygon: evaluate the shapely oracle for this point
    ps, qs, vs = pd.Series([p_pu]), pd.Series([q_pu]), pd.Series([vm])
    inside = bool(area.in_area(ps, qs, vs)[0])
    try:
        fl = area.q_flexibility(ps, vs)
        lo, hi = float(fl[0, 0]), float(fl[0, 1])
        ok = True
    except Exception:
        lo, hi, ok = 0.0, 0.0, False
    return "(AOracle %s %s %s)" % (cq.b(inside), cq.q(lo), cq.q(hi)), (inside, lo, hi), ok


def flex_of(area, kind, p_pu, vm):
    """independent evaluation of the area's reactive flexibility (for the oracle); None if it raises / no area"""
    if kind == "none":
        return None
    try:
        fl = area.q_flexibility(pd.Series([p_pu]), pd.Series([vm]))
        return float(fl[0, 0]), float(fl[0, 1])
    except Exception:
        return None


def one_case(ctx, rng):
    n = rng.randint(1, 4)
    net = mk_net(rng, n)
    area, akind = mk_area(rng)
    qmodel = mk_qmodel(rng)
    q_prio = rng.random() < 0.5
    damping = rng.choice([1, 2, 2, 4, 1.5, 0.5])
    if rng.random() < 0.45:
        sat = float("nan")
    elif rng.random() < 0.5:
        sat = rng.choice([0.5, 0.75, 1.0, 1.25]) * float(net.sgen.sn_mva.values[0])
    else:
        # per-element limits; NaN entries switch the saturation off for that element only
        sat = [float("nan") if rng.random() < 0.3 else rng.choice([0.5, 0.75, 1.0, 1.25]) * float(s) for s in net.sgen.sn_mva.values]
    idx = list(net.sgen.index)
    ctrl = DERController(net, idx, q_model=qmodel, pqv_area=area, saturate_sn_mva=sat, q_prio=q_prio, damping_coef=damping)
    sat_arr = np.broadcast_to(np.asarray(ctrl.saturate_sn_mva, dtype=float), (n,))
    desc = {"n": n, "sgen": net.sgen[["p_mw", "q_mvar", "sn_mva"]].values.tolist(), "area": str(type(area).__name__), "akind": akind,
            "q_model": str(qmodel), "q_prio": q_prio, "damping": damping, "saturate_sn_mva": [None if x != x else float(x) for x in sat_arr],
            "steps": []}
    terms, impls = [], []
    touched = 0
    use_series = rng.random() < 0.3
    for step in range(rng.choice([2, 3])):
        vms = [rng.choice(VM_SPECIAL) if rng.random() < 0.15 else rng.randint(218, 307) / 256 for _ in net.bus.index]
        if akind == "4130":
            vms = [rng.choice(VM_4130) if rng.random() < 0.3 else v for v in vms]
        net["res_bus"] = pd.DataFrame({"vm_pu": vms}, index=net.bus.index)
        if use_series:
            ctrl.p_series_mw = pd.Series([rng.randint(-8, 80) / 64 * float(s) for s in net.sgen.sn_mva.values], index=idx)
        alias = not hasattr(ctrl, "p_series_mw")
        p_cur = ctrl.p_mw.values.astype(float).copy()
        q_cur = ctrl.q_mvar.values.astype(float).copy()
        p_ser = (ctrl.p_series_mw if hasattr(ctrl, "p_series_mw") else ctrl.p_mw).values.astype(float).copy()
        sn = ctrl.sn_mva.values.astype(float)
        vm_el = np.array([vms[list(net.bus.index).index(b)] for b in ctrl.bus.values])
        sqrt_log, q_log = [], []
        if qmodel is not None:
            orig_step = qmodel.step

            def rec_step(vm_pu=None, p_pu=None, _o=orig_step):
                r = _o(vm_pu=vm_pu, p_pu=p_pu)
                q_log.append(np.asarray(r, dtype=float).copy())
                return r
            qmodel.step = rec_step
        old_np = dc.np
        dc.np = NPProxy(sqrt_log)
        exc = None
        try:
            ctrl.is_converged(net)
            ctrl.control_step(net)
        except ValueError as e:
            exc = "ValueError"
        finally:
            dc.np = old_np
            if qmodel is not None:
                qmodel.__dict__.pop("step", None)
        q_raw = q_log[0] if q_log else None
        rts = {}
        for x, r in sqrt_log:
            for i, (xa, ra) in zip(getattr(x, "index", range(len(np.atleast_1d(r)))), zip(np.atleast_1d(np.asarray(x, dtype=float)), np.atleast_1d(np.asarray(r, dtype=float)))):
                rts[i] = (float(xa), float(ra))
        st = {"vm": [float(v) for v in vm_el], "p_series": [float(x) for x in p_ser], "exc": exc}
        desc["steps"].append(st)
        step_terms, step_impl, step_aux = [], [], []
        skip = False
        for k, el in enumerate(idx):
            pser = max(p_ser[k], 0.0)
            p_pu = pser / sn[k]
            q_pu = float(q_raw[k]) if q_raw is not None else q_cur[k] / sn[k]
            at, tri, ok = area_term(area, akind, p_pu, q_pu, float(vm_el[k]))
            if tri is not None:
                inside, lo, hi = tri
                if not ok and not inside:
                    skip = True
                if ok and (lo > hi or (inside and not (lo - 1e-12 <= q_pu <= hi + 1e-12))):
                    ctx.count("polygon_oracle_contract_broken")
                    skip = True
            rt = rts.get(el, (0.0, 0.0))[1]
            if rt != rt:
                skip = True
                rt = 0.0
            step_terms.append("run_target %s %s %s %s %s %s %s %s %s %s %s %s" % (
                at, cq.oq(float(sat_arr[k])), cq.b(q_prio), cq.q(rt), cq.q(float(damping)), cq.q(float(sn[k])), cq.b(alias),
                cq.q(float(p_cur[k])), cq.q(float(q_cur[k])), cq.q(float(p_ser[k])),
                "None" if q_raw is None else "(Some %s)" % cq.q(float(q_raw[k])), cq.q(float(vm_el[k]))))
            step_aux.append((p_pu, q_pu, float(sat_arr[k]) / sn[k]))
            if exc is None:
                step_impl.append([float(ctrl.p_mw.values[k]), float(ctrl.q_mvar.values[k])])
            else:
                step_impl.append(None)
        if skip:
            ctx.count("skipped_polygon_step")
            break
        terms.append("OL [" + "; ".join(step_terms) + "]")
        impls.append((exc, step_impl, step_aux))
        if exc is not None:
            break
        # ---------------- oracle on the real values (independent of the model)
        if alias:
            p_cur = np.maximum(p_cur, 0.0)      # the impl zeroes negative current values through the aliased series
        newp = net.sgen.p_mw.values.astype(float)
        newq = net.sgen.q_mvar.values.astype(float)
        for k in range(n):
            s_lim = float(sat_arr[k])
            # undamped targets recovered from the written values
            tp = p_cur[k] + damping * (newp[k] - p_cur[k])
            tq = q_cur[k] + damping * (newq[k] - q_cur[k])
            if s_lim == s_lim:
                if tp * tp + tq * tq > s_lim * s_lim * (1 + 1e-9) + 1e-12:
                    ctx.violation("spec", "undamped target of sgen %d has apparent power %.6f > saturate_sn_mva %.6f" % (
                        k, math.hypot(tp, tq), s_lim), desc)
                if newp[k] ** 2 + newq[k] ** 2 > s_lim * s_lim * (1 + 1e-9) + 1e-12:
                    prev_in = p_cur[k] ** 2 + q_cur[k] ** 2 <= s_lim * s_lim * (1 + 1e-12)
                    guard = damping >= 1 and prev_in
                    ctx.violation("spec" if guard else KF_DAMP,
                                  "after the controller step sgen %d has apparent power %.6f > saturate_sn_mva %.6f (damping %s, before the step %.6f)" % (
                                      k, math.hypot(newp[k], newq[k]), s_lim, damping, math.hypot(p_cur[k], q_cur[k])), desc)
            elif akind != "none":
                fl = flex_of(area, akind, tp / sn[k], float(vm_el[k]))
                if fl is not None and not (fl[0] - 1e-9 <= tq / sn[k] <= fl[1] + 1e-9):
                    ctx.violation("spec", "target q %.6f pu of sgen %d outside the area's q_flexibility %s at p=%.6f vm=%.6f" % (
                        tq / sn[k], k, fl, tp / sn[k], vm_el[k]), desc)
                if damping == 1:
                    fl = flex_of(area, akind, newp[k] / sn[k], float(vm_el[k]))
                    if fl is not None and not (fl[0] - 1e-9 <= newq[k] / sn[k] <= fl[1] + 1e-9):
                        ctx.violation("spec", "written q %.6f pu of sgen %d outside q_flexibility %s" % (newq[k] / sn[k], k, fl), desc)
            if abs(tp - max(p_ser[k], 0.0)) > 1e-9 or (q_raw is None and abs(tq - q_cur[k]) > 1e-9) or (q_raw is not None and abs(tq - q_raw[k] * sn[k]) > 1e-9):
                touched += 1
    ctx.case(desc, nontrivial=touched > 0, sample={"case": {k: desc[k] for k in ("n", "sgen", "area", "q_prio", "damping", "saturate_sn_mva")}})
    ctx.count("area_" + akind)
    ctx.count("sat_" + ("nan" if all(x != x for x in sat_arr) else ("mixed_nan" if any(x != x for x in sat_arr) else "on")))
    ctx.count("damping_%s" % damping)
    return terms, impls, desc


def knife_edge(aux, m):
    """the point handed to the apparent-power test sits on the circle up to rounding (it was put there by the previous step):
    float and exact arithmetic may decide p^2+q^2 > s^2 differently"""
    p_pu, q_pu, s_pu = aux
    if s_pu != s_pu:
        return False
    q1 = q_pu
    if m[1] is False and m[2] is not None:
        q1 = min(max(q_pu, float(m[2][0])), float(m[2][1]))
    return abs(p_pu * p_pu + q1 * q1 - s_pu * s_pu) <= 1e-12 * max(1.0, s_pu * s_pu)


def compare(impl, mod, ctx=None):
    exc, vals, auxs = impl
    if exc is not None:
        if not any(isinstance(m[0], cq.Err) for m in mod):
            return "impl raised %s, model raises for no element: %s" % (exc, [m[0] for m in mod])
        return None
    for k, (v, m) in enumerate(zip(vals, mod)):
        r = m[0]
        if isinstance(r, cq.Err):
            return "element %d: model raises %r, impl wrote %r" % (k, r, v)
        for a, b_ in zip(v, r):
            if abs(a - float(b_)) > 1e-9 * max(1.0, abs(a)):
                if knife_edge(auxs[k], m):
                    if ctx is not None:
                        ctx.count("knife_edge_on_circle_skipped")
                    break
                return "element %d: impl %r model %r (in_area %r flex %r)" % (k, v, [float(x) for x in r], m[1], m[2])
    return None


def run(ctx):
    rng = ctx.rng
    all_terms, all_impls, all_desc = [], [], []
    for k in range(ctx.n(180, 2500)):
        terms, impls, desc = one_case(ctx, rng)
        for t, i in zip(terms, impls):
            all_terms.append(t)
            all_impls.append(i)
            all_desc.append(desc)
    model = ctx.coq_eval("c33", "Base.QN C33.Model", all_terms, shard=40, timeout=1200)
    for impl, mod, desc in zip(all_impls, model, all_desc):
        ctx.corr_checked += 1
        w = compare(impl, mod, ctx)
        if w:
            ctx.disagreement("DER controller step differs from the model: " + w, desc)
    check_4130_tables(ctx)
    # constants of the 4120 areas satisfy the hypotheses of C33_pq4120_in_area_sound
    for cls in (A.PQVArea4120V1, A.PQVArea4120V2, A.PQVArea4120V3):
        for ver in (2015, 2018):
            a = cls(version=ver).pq_area
            d = a.p_points_pu[1] - a.p_points_pu[0]
            ok = a.linear_factor_ind <= 0 and a.min_q_pu <= -0.1 + d * a.linear_factor_ind + 1e-15 and 0.1 + d * a.linear_factor_cap <= a.max_q_pu + 1e-15
            ctx.count("pq4120_constants_ok" if ok else "pq4120_constants_BROKEN")
            if not ok:
                ctx.violation("spec", "PQArea4120 constants violate the hypotheses of C33_pq4120_in_area_sound", {"class": cls.__name__, "version": ver})


def check_4130_tables(ctx):
    """hypotheses of the 4130 theorems on the real objects: consistent PQArea4130 constants, strictly increasing voltage
    tables of equal length with the q tables, and q_flexibility == the two np.interp calls at the tabulated voltages"""
    for cls in (A.PQVArea4130V1, A.PQVArea4130V2, A.PQVArea4130V3):
        for vn in (380, 220):
            ar = cls(vn_kv=vn)
            a, v = ar.pq_area, ar.qv_area
            d = a.p_points_pu[1] - a.p_points_pu[0]
            ok = a.linear_factor_ind <= 0 and a.min_q_pu <= -0.1 + d * a.linear_factor_ind + 1e-15 and 0.1 + d * a.linear_factor_cap <= a.max_q_pu + 1e-15
            for xs, ys in ((v.min_vm_points_pu, v.min_q_points_pu), (v.max_vm_points_pu, v.max_q_points_pu)):
                ok = ok and len(xs) == len(ys) >= 1 and bool(np.all(np.diff(xs) > 0))
            fl = v.q_flexibility(None, np.asarray(v.min_vm_points_pu))
            ok = ok and bool(np.allclose(fl[:, 0], v.min_q_points_pu, rtol=0, atol=1e-15))
            fl = v.q_flexibility(None, np.asarray(v.max_vm_points_pu))
            ok = ok and bool(np.allclose(fl[:, 1], v.max_q_points_pu, rtol=0, atol=1e-15))
            ctx.count("area4130_tables_ok" if ok else "area4130_tables_BROKEN")
            if not ok:
                ctx.violation("spec", "PQVArea4130 tables / constants violate the hypotheses of the C33 4130 theorems", {"class": cls.__name__, "vn_kv": vn})


def replay(ctx, rec):
    ctx.notes.append("replay: re-running the generators with the recorded seed reproduces the case")
    run(ctx)
