"""C26 — topology graphs represent exactly the energizing connections.
Correspondence: nodes and adjacency (u, v, key, weight) of create_nxgraph under random options, pandapower's own
connected_components and the distances of calc_distance_to_bus vs C26.Model.
Oracle: an independent python evaluation of the property text (which elements must be edges), partition check of
connected_components, brute-force shortest paths."""
import math
from fractions import Fraction
import numpy as np
import networkx as nx
import pandapower as pp
import pandapower.topology as top
from vf import coqrun as cq
from vf import c07_gen as g

RULE = ("random 3-10 bus nets of vf/c07_gen (all branch kinds, switches of all kinds, random in_service) x random options "
        "{respect_switches, include_* True/False/index list, nogobuses, notravbuses, multi, include_out_of_service, "
        "include_switches, trafo_length_km, switch_length_km}; non-trivial = at least one non-default option and at least "
        "one element masked by a switch or in_service flag")
ASSUMPTIONS = ["networkx MultiGraph/Graph add_edge/remove_node/adjacency semantics as modelled (overwrite of an existing key; "
               "remove_node deletes adj[u][n] for u in adj[n])",
               "single_source_dijkstra_path_length is compared with the verified relaxation, it is not itself verified",
               "calc_branch_impedances=True and library='graph_tool' are not modelled; no tcsc/vsc/line_dc elements",
               "the pop order of a python set in connected_components is arbitrary: components are compared as a set of sets"]
TRUSTED = ["independent python evaluation of the property text (spec_arcs) in harness/props/c26.py"]
ET = {"line": 0, "impedance": 1, "dcline": 2, "trafo": 3, "trafo3w": 4, "switch": 5}


def _inc(rng, ids, p_all=0.6, p_none=0.1):
    r = rng.random()
    if r < p_all or len(ids) == 0:
        return True
    if r < p_all + p_none:
        return False
    k = rng.randint(0, len(ids))
    return [int(i) for i in rng.sample(list(ids), k)]


def _rand_opts(rng, net):
    B = [int(b) for b in net.bus.index]
    default = rng.random() < 0.15
    o = {"respect_switches": True, "include_lines": True, "include_impedances": True, "include_dclines": True,
         "include_trafos": True, "include_trafo3ws": True, "nogobuses": None, "notravbuses": None, "multi": True,
         "include_out_of_service": False, "include_switches": True, "trafo_length_km": None, "switch_length_km": None}
    if default:
        return o
    o["respect_switches"] = rng.random() < 0.7
    o["include_lines"] = _inc(rng, net.line.index, 0.7, 0.05)
    o["include_impedances"] = _inc(rng, net.impedance.index, 0.8, 0.1)
    o["include_dclines"] = _inc(rng, net.dcline.index, 0.7, 0.2)
    o["include_trafos"] = _inc(rng, net.trafo.index, 0.7, 0.1)
    o["include_trafo3ws"] = _inc(rng, net.trafo3w.index, 0.7, 0.1)
    if rng.random() < 0.3:
        o["nogobuses"] = rng.sample(B, rng.randint(0, 2))
    if rng.random() < 0.4:
        o["notravbuses"] = rng.sample(B, rng.randint(0, 2))
    o["multi"] = rng.random() < 0.85
    o["include_out_of_service"] = rng.random() < 0.2
    o["include_switches"] = rng.random() < 0.9
    o["trafo_length_km"] = rng.choice([None, None, 0.5])
    o["switch_length_km"] = rng.choice([None, None, 0.25])
    return o


def _opt_term(o):
    def inc(x):
        if x is True:
            return "IAll"
        if x is False:
            return "INone"
        return "(ISome %s)" % cq.lst([cq.nat(i) for i in x])

    def ol(x):
        return "None" if x is None else "(Some %s)" % cq.lst([cq.nat(i) for i in x])

    def oqq(x):
        return "None" if x is None else "(Some %s)" % cq.q(x)

    return ("{| o_respect := %s; o_lines := %s; o_imps := %s; o_dclines := %s; o_trafos := %s; o_t3 := %s; o_nogo := %s; "
            "o_notrav := %s; o_multi := %s; o_inc_oos := %s; o_switches := %s; o_trafo_len := %s; o_switch_len := %s |}") % (
        cq.b(o["respect_switches"]), inc(o["include_lines"]), inc(o["include_impedances"]), inc(o["include_dclines"]),
        inc(o["include_trafos"]), inc(o["include_trafo3ws"]), ol(o["nogobuses"]), ol(o["notravbuses"]), cq.b(o["multi"]),
        cq.b(o["include_out_of_service"]), cq.b(o["include_switches"]), oqq(o["trafo_length_km"]), oqq(o["switch_length_km"]))


def _graph_obs(mg, multi):
    nodes = sorted(int(x) for x in mg.nodes())
    arcs = []
    for u, nb in mg._adj.items():
        for v, d in nb.items():
            if multi:
                for k, at in d.items():
                    arcs.append((int(u), int(v), ET[k[0]], int(k[1]), Fraction(float(at["weight"]))))
            else:
                k = d["key"]
                arcs.append((int(u), int(v), ET[k[0]], int(k[1]), Fraction(float(d["weight"]))))
    return nodes, sorted(arcs)


# ------------------------------------------------------------------ the property text, evaluated independently
def spec_arcs(net, o):
    """expected adjacency for multi=True when the call does not raise"""
    sw = net.switch
    opn = ~sw.closed.values.astype(bool)
    rs = o["respect_switches"]
    open_l = set(int(x) for x in sw.element.values[opn & (sw.et.values == "l")]) if rs else set()
    open_t = set(int(x) for x in sw.element.values[opn & (sw.et.values == "t")]) if rs else set()
    open_t3 = set((int(a), int(b)) for a, b in zip(sw.element.values[opn & (sw.et.values == "t3")],
                                                    sw.bus.values[opn & (sw.et.values == "t3")])) if rs else set()
    ioos = o["include_out_of_service"]

    def rows(tab, inc):
        if inc is True:
            return list(net[tab].index)
        if inc is False:
            return []
        return list(inc)

    E = []
    for i in rows("line", o["include_lines"]):
        r = net.line.loc[i]
        if (r.in_service or ioos) and i not in open_l:
            E.append((int(r.from_bus), int(r.to_bus), 0, int(i), Fraction(float(r.length_km))))
    for i in rows("impedance", o["include_impedances"]):
        r = net.impedance.loc[i]
        if r.in_service or ioos:
            E.append((int(r.from_bus), int(r.to_bus), 1, int(i), Fraction(0)))
    for i in rows("dcline", o["include_dclines"]):
        r = net.dcline.loc[i]
        if r.in_service or ioos:
            E.append((int(r.from_bus), int(r.to_bus), 2, int(i), Fraction(0)))
    tl = Fraction(o["trafo_length_km"] or 0)
    for i in rows("trafo", o["include_trafos"]):
        r = net.trafo.loc[i]
        if (r.in_service or ioos) and i not in open_t:
            E.append((int(r.hv_bus), int(r.lv_bus), 3, int(i), tl))
    for i in rows("trafo3w", o["include_trafo3ws"]):
        r = net.trafo3w.loc[i]
        bs = [int(r.hv_bus), int(r.mv_bus), int(r.lv_bus)]
        for a in range(3):
            for c in range(a + 1, 3):
                if (r.in_service or ioos) and (i, bs[a]) not in open_t3 and (i, bs[c]) not in open_t3:
                    E.append((bs[a], bs[c], 4, int(i), tl))
    if o["include_switches"]:
        for i, r in net.switch.iterrows():
            if r.et == "b" and (r.closed or not rs):
                E.append((int(r.bus), int(r.element), 5, int(i), Fraction(o["switch_length_km"] or 0)))
    isb = set(int(b) for b in net.bus.index[net.bus.in_service.values.astype(bool)])
    allb = set(int(b) for b in net.bus.index)
    nogo = set(o["nogobuses"] or [])
    notrav = set(o["notravbuses"] or [])
    ok = lambda b: b not in nogo and (ioos or b in isb or b not in allb)
    arcs = set()
    for u, v, et, i, w in E:
        if ok(u) and ok(v):
            if u not in notrav:
                arcs.add((u, v, et, i, w))
            if v not in notrav:
                arcs.add((v, u, et, i, w))
    nodes = sorted(b for b in (allb | {x for e in E for x in e[:2]}) if ok(b))
    return nodes, sorted(arcs)


def _brute_dist(nodes, arcs, src):
    d = {src: Fraction(0)}
    for _ in range(len(nodes) + 2):
        ch = False
        for u, v, _, _, w in arcs:
            if u in d and (v not in d or d[u] + w < d[v]):
                d[v] = d[u] + w
                ch = True
        if not ch:
            break
    return d


def _one(ctx, rng, k, net=None, o=None, cc_notrav=None, src=None):
    if net is None:
        net = g.rand_topo_net(rng, dcline=rng.random() < 0.3, coincide=rng.random() < 0.3, parallel_lines=rng.random() < 0.4)
    if o is None:
        o = _rand_opts(rng, net)
    B = [int(b) for b in net.bus.index]
    if cc_notrav is None:
        # the search is given the notravbuses the graph was built with (otherwise its result depends on the pop order
        # of a python set); on a graph built without notravbuses any set may be passed
        if o["notravbuses"]:
            cc_notrav = list(o["notravbuses"])
        else:
            cc_notrav = [] if rng.random() < 0.5 else rng.sample(B, rng.randint(0, 2))
    if src is None:
        src = rng.choice(B)
    js = {"net": pp.to_json(net), "opts": o, "cc_notrav": cc_notrav, "src": src}
    impl = {}
    try:
        mg = top.create_nxgraph(net, **o)
        impl["graph"] = _graph_obs(mg, o["multi"])
    except Exception as e:
        mg = None
        impl["graph"] = "raise:" + type(e).__name__
    # the build stage, observed on the real code: the same call with all buses in service and without nogobuses /
    # notravbuses (bus.in_service is read by the removal stage only, create_graph.py:280)
    keep = net.bus["in_service"].copy()
    try:
        net.bus["in_service"] = True
        impl["build"] = _graph_obs(top.create_nxgraph(net, **dict(o, nogobuses=None, notravbuses=None)), o["multi"])
    except Exception as e:
        impl["build"] = "raise:" + type(e).__name__
    finally:
        net.bus["in_service"] = keep
    if mg is not None:
        try:
            impl["cc"] = sorted(set(tuple(sorted(int(x) for x in c)) for c in top.connected_components(mg, notravbuses=set(cc_notrav))))
        except Exception as e:
            impl["cc"] = "raise:" + type(e).__name__
        try:
            ds = top.calc_distance_to_bus(net, src, g=mg)
            impl["dist"] = {int(kk): float(v) for kk, v in ds.to_dict().items()}
        except Exception as e:
            impl["dist"] = "raise:" + type(e).__name__
    # calc_distance_to_bus building its own graph (g=None): only respect_switches / nogobuses / notravbuses are passed on
    try:
        ds0 = top.calc_distance_to_bus(net, src, respect_switches=o["respect_switches"], nogobuses=o["nogobuses"],
                                       notravbuses=o["notravbuses"])
        impl["dist0"] = {int(kk): float(v) for kk, v in ds0.to_dict().items()}
    except Exception as e:
        impl["dist0"] = "raise:" + type(e).__name__
    lens = cq.lst([cq.q(float(x)) for x in net.line.length_km.values])
    term = "run_c26 %s %s %s %s %s" % (_opt_term(o), g.net_term(net, with_dcline_gens=False), lens,
                                        cq.lst([cq.nat(x) for x in cc_notrav]), cq.nat(src))
    o0 = {"respect_switches": o["respect_switches"], "include_lines": True, "include_impedances": True, "include_dclines": True,
          "include_trafos": True, "include_trafo3ws": True, "nogobuses": o["nogobuses"], "notravbuses": o["notravbuses"], "multi": True,
          "include_out_of_service": False, "include_switches": True, "trafo_length_km": None, "switch_length_km": None}
    term0 = "run_c26 %s %s %s %s %s" % (_opt_term(o0), g.net_term(net, with_dcline_gens=False), lens, "[]", cq.nat(src))
    term = "OL [%s; %s]" % (term, term0)
    return {"js": js, "impl": impl, "term": term, "net": net, "o": o, "k": k, "o0": o0}


def _judge_dist0(ctx, c, m0):
    """calc_distance_to_bus(net, bus, respect_switches, nogobuses, notravbuses) with g=None vs the verified shortest-path
    table on the model's default MultiGraph, and vs a brute force over the independently specified edges"""
    js, impl, net = c["js"], c["impl"], c["net"]
    d_impl = impl["dist0"]
    m_graph, _, m_dist = m0[0], m0[1], m0[2]
    ctx.corr_checked += 1
    if isinstance(d_impl, str):
        if not isinstance(m_graph, cq.Err) and not isinstance(m_dist, cq.Err):
            ctx.disagreement("calc_distance_to_bus (g=None) raised %s, the model returns distances" % d_impl, js)
        return
    if isinstance(m_graph, cq.Err) or isinstance(m_dist, cq.Err):
        ctx.disagreement("calc_distance_to_bus (g=None) returns %s, the model raises" % d_impl, js)
        return
    md = {a: float(b) for a, b in m_dist}
    if set(md) != set(d_impl) or any(abs(md[x] - d_impl[x]) > 1e-9 for x in md):
        ctx.disagreement("calc_distance_to_bus (g=None): impl %s model %s" % (d_impl, md), js)
    try:
        nodes, arcs = spec_arcs(net, c["o0"])
    except KeyError:
        return
    bd = _brute_dist(nodes, arcs, js["src"])
    if set(bd) != set(d_impl) or any(abs(float(bd[x]) - d_impl[x]) > 1e-9 for x in bd):
        ctx.violation("spec", "calc_distance_to_bus(net, %d) is not the shortest path length over the energizing connections: %s vs %s"
                      % (js["src"], d_impl, {x: float(v) for x, v in bd.items()}), js)


def _judge_stages(ctx, c, m_build):
    """build-stage graph of the real code vs C26.Model.build_stage, and the statement of C26_stages_exact evaluated on the
    real code: returned graph = build-stage graph restricted to the buses that are not gone, minus the arcs leaving
    notravbuses; no dangling arc"""
    js, impl, net, o = c["js"], c["impl"], c["net"], c["o"]
    ib = impl["build"]
    ctx.corr_checked += 1
    if isinstance(ib, str):
        if not (isinstance(m_build, cq.Err) and m_build.s == ib.split(":")[1]):
            ctx.disagreement("build stage raised %s, model %r" % (ib, m_build), js)
        return
    if isinstance(m_build, cq.Err):
        ctx.disagreement("model build stage raises %s, impl returned a graph" % m_build.s, js)
        return
    mn, ma = sorted(m_build[0]), sorted(tuple(a) for a in m_build[1])
    if mn != ib[0] or ma != ib[1]:
        ctx.disagreement("build-stage graph differs: impl nodes %s arcs %s / model nodes %s arcs %s" % (ib[0], ib[1][:12], mn, ma[:12]), js)
    ctx.count("build_arcs_%s" % ("0" if not ib[1] else "1-6" if len(ib[1]) <= 6 else "7+"))
    if isinstance(impl["graph"], str):
        return
    nogo = set(o["nogobuses"] or [])
    notrav = set(o["notravbuses"] or [])
    oosb = set() if o["include_out_of_service"] else set(int(b) for b in net.bus.index[~net.bus.in_service.values.astype(bool)])
    gone = nogo | oosb
    want_nodes = [x for x in ib[0] if x not in gone]
    want_arcs = [a for a in ib[1] if a[0] not in gone and a[1] not in gone and a[0] not in notrav]
    nodes, arcs = impl["graph"]
    ctx.corr_checked += 1
    if nodes != want_nodes or arcs != want_arcs:
        ctx.disagreement("C26_stages_exact does not describe the real code: graph nodes %s arcs %s, restricted build stage nodes %s arcs %s"
                         % (nodes, arcs[:12], want_nodes, want_arcs[:12]), js)
    if any(a[0] not in set(nodes) or a[1] not in set(nodes) for a in arcs):
        ctx.disagreement("returned graph has a dangling adjacency entry (C26_stages_exact: no_dangling)", js)
    if len(want_arcs) < len(ib[1]):
        ctx.count("stages_removed_arcs")


def _judge(ctx, c, m):
    js, impl, net, o = c["js"], c["impl"], c["net"], c["o"]
    m, m0 = m
    _judge_dist0(ctx, c, m0)
    m_graph, m_cc, m_dist, m_nodangle, m_sym, m_build = m
    _judge_stages(ctx, c, m_build)
    if m_nodangle is False:
        ctx.disagreement("model graph has an arc that ends at a removed node (no_dangling = false)", js)
    if m_sym is False and not (o["notravbuses"] or []):
        ctx.disagreement("hypothesis of C26_cc_partition violated: adjacency of a graph built without notravbuses is not symmetric", js)
    if m_sym is True:
        ctx.count("sym_arcs_true")
    # ---------------- correspondence
    ctx.corr_checked += 1
    ok_model = True
    if isinstance(impl["graph"], str):
        if not (isinstance(m_graph, cq.Err) and m_graph.s == impl["graph"].split(":")[1]):
            ok_model = False
            ctx.disagreement("create_nxgraph raised %s, model %r" % (impl["graph"], m_graph), js)
    else:
        if isinstance(m_graph, cq.Err):
            ok_model = False
            ctx.disagreement("model raises %s, impl returned a graph" % m_graph.s, js)
        else:
            mn = sorted(m_graph[0])
            ma = sorted(tuple(a) for a in m_graph[1])
            if mn != impl["graph"][0] or ma != impl["graph"][1]:
                ok_model = False
                ctx.disagreement("graph differs: impl nodes %s arcs %s / model nodes %s arcs %s" % (
                    impl["graph"][0], impl["graph"][1][:12], mn, ma[:12]), js)
            dangling = any(a[1] not in set(mn) for a in ma)
            if isinstance(impl["cc"], str) or isinstance(impl["dist"], str):
                ctx.count("search_raised")
            if not isinstance(impl["cc"], str) and not dangling:
                ctx.corr_checked += 1
                mc = sorted(set(tuple(sorted(x)) for x in m_cc))
                if mc != impl["cc"]:
                    ctx.disagreement("connected_components: impl %s model %s" % (impl["cc"], mc), js)
            if not isinstance(impl["dist"], str) and not dangling:
                ctx.corr_checked += 1
                if isinstance(m_dist, cq.Err):
                    ctx.disagreement("distances: model %r impl %s" % (m_dist, impl["dist"]), js)
                else:
                    md = {a: b for a, b in m_dist}
                    if set(md) != set(impl["dist"]) or any(abs(float(md[x]) - impl["dist"][x]) > 1e-9 for x in md):
                        ctx.disagreement("distances: impl %s model %s" % (impl["dist"], {x: float(v) for x, v in md.items()}), js)
            elif isinstance(impl["dist"], str) and not dangling and not (isinstance(m_dist, cq.Err)):
                ctx.disagreement("calc_distance_to_bus raised %s, model returns distances" % impl["dist"], js)
    # ---------------- oracle: the property text on the impl's result
    try:
        want = spec_arcs(net, o)
        want_err = None
    except KeyError:
        want, want_err = None, "KeyError"
    nogo_bad = any(b not in set(net.bus.index) for b in (o["nogobuses"] or []))
    if isinstance(impl["graph"], str):
        if want_err is None and not nogo_bad:
            kind = "spec"
            ctx.violation(kind, "create_nxgraph raised %s for valid options" % impl["graph"], js)
    elif want is not None:
        nodes, arcs = impl["graph"]
        if o["multi"]:
            if (nodes, arcs) != want:
                kind = "spec"
                ctx.violation(kind, "graph is not the set of energizing connections: nodes %s arcs %s expected nodes %s arcs %s"
                              % (nodes, arcs[:10], want[0], want[1][:10]), js)
        else:
            if nodes != want[0] or sorted(set(a[:2] for a in arcs)) != sorted(set(a[:2] for a in want[1])):
                kind = "spec"
                ctx.violation(kind, "Graph (multi=False) node pairs differ from the energizing connections", js)
        dangling = any(a[1] not in set(nodes) for a in arcs)
        # connected_components partitions the node set (no notravbuses given to the search, symmetric adjacency)
        if not c["js"]["cc_notrav"] and not (o["notravbuses"] or []) and not isinstance(impl["cc"], str):
            comps = impl["cc"]
            flat = [x for cc in comps for x in cc]
            if sorted(flat) != nodes:
                ctx.violation("spec", "connected_components is not a partition of the nodes: %s vs nodes %s" % (comps, nodes), js)
            else:
                adj = {}
                for a in arcs:
                    adj.setdefault(a[0], set()).add(a[1])
                for cc in comps:
                    seen, todo = {cc[0]}, [cc[0]]
                    while todo:
                        u = todo.pop()
                        for v in adj.get(u, ()):
                            if v not in seen:
                                seen.add(v)
                                todo.append(v)
                    if sorted(seen) != list(cc):
                        ctx.violation("spec", "component %s is not a connectivity class (class of %d is %s)" % (cc, cc[0], sorted(seen)), js)
                        break
        # distances are shortest path lengths over the returned adjacency
        if not isinstance(impl["dist"], str) and not dangling:
            bd = _brute_dist(nodes, arcs, c["js"]["src"])
            if set(bd) != set(impl["dist"]) or any(abs(float(bd[x]) - impl["dist"][x]) > 1e-9 for x in bd):
                ctx.violation("spec", "calc_distance_to_bus is not the shortest path length: %s vs %s" % (
                    impl["dist"], {x: float(v) for x, v in bd.items()}), js)
        elif isinstance(impl["dist"], str) and c["js"]["src"] in nodes:
            kind = "spec"
            ctx.violation(kind, "calc_distance_to_bus raised %s for a source inside the graph" % impl["dist"], js)
    nondefault = sum(1 for kk, v in o.items() if v not in (True, None) and not (kk == "include_out_of_service" and v is False))
    ctx.case(js, nontrivial=nondefault > 0, sample={"opts": o, "impl_nodes": impl["graph"][0] if not isinstance(impl["graph"], str) else impl["graph"]} if c["k"] < 2 else None)
    ctx.count("graph_" + ("raise" if isinstance(impl["graph"], str) else "ok"))
    oosb = set(int(b) for b in net.bus.index[~net.bus.in_service.values.astype(bool)])
    ctx.count("notrav_is_oos_%s" % bool(set(o["notravbuses"] or []) & oosb))
    ctx.count("multi_%s" % o["multi"])
    ctx.count("notrav_%d" % len(o["notravbuses"] or []))


def _corpus():
    out = []
    for which in (1, 2):
        net = pp.create_empty_network()
        b = [pp.create_bus(net, 20.0) for _ in range(5)]
        pp.create_ext_grid(net, b[0])
        for i in range(4):
            pp.create_line_from_parameters(net, b[i], b[i + 1], 1.0 + i, 0.25, 0.125, 0.0, 0.5)
        net.bus.at[b[2], "in_service"] = False
        o = {"respect_switches": True, "include_lines": True, "include_impedances": True, "include_dclines": True,
             "include_trafos": True, "include_trafo3ws": True, "nogobuses": None, "notravbuses": [b[1]] if which == 1 else [b[2]],
             "multi": True, "include_out_of_service": False, "include_switches": True, "trafo_length_km": None,
             "switch_length_km": None}
        out.append((net, o))
    return out


def run(ctx):
    rng = ctx.rng
    cases = []
    for net, o in _corpus():
        cases.append(_one(ctx, rng, 99, net=net, o=o, cc_notrav=[], src=int(net.bus.index[0])))
        ctx.count("corpus")
    for k in range(ctx.n(126, 2500)):
        cases.append(_one(ctx, rng, k))
    model = ctx.coq_eval("c26", "C07.Model C26.Model", [c["term"] for c in cases], shard=40, timeout=280)
    for c, m in zip(cases, model):
        _judge(ctx, c, m)


def replay(ctx, rec):
    case = rec["case"]
    net = pp.from_json_string(case["net"])
    c = _one(ctx, ctx.rng, 0, net=net, o=case["opts"], cc_notrav=case["cc_notrav"], src=case["src"])
    m = ctx.coq_eval("c26r", "C07.Model C26.Model", [c["term"]], shard=10)
    _judge(ctx, c, m[0])
