"""C03 — energy conservation and non-negative losses of passive branches.

Correspondence: for every active branch of generated passive networks the model (C03.Model.run_loss on the impl's own ppc
branch row and solved voltages) predicts pl_mw/ql_mvar of the result tables, and the dissipation formula of theorem
C03_pi_loss_identity (series resistance + shunt conductances) must give the same number.
Oracle: on the real result tables  pl_mw = p_from + p_to (trafo3w: hv+mv+lv),  pl_mw >= -tol for every branch,
sum(generation) - sum(consumption) = sum(pl_mw);  DC: pl_mw = 0 (trafo3w: = p_hv+p_mv+p_lv = star-point iron losses, if any),
generation - consumption = sum(pl_mw).
Composed statement (C03_conservation_composed_with_C01): nets of the C01 generator with voltage-dependent (ZIP) loads; the C01 net term,
the ppci branch rows and the solved voltages go through C03.ComposeModel.run_conservation, whose total generation - consumption, total
losses, guard G03 and Newton mismatch per bus are compared with the result tables / the python guards; where G03 holds at every bus the
tables must satisfy generation - consumption = sum(pl_mw)."""
import json, math, os, glob, cmath
import numpy as np
import pandapower as pp
from vf import coqrun as cq
from vf import c02_gen as g
from pandapower.pypower.idx_brch import F_BUS, T_BUS, BR_R, BR_X, BR_B, BR_G, TAP, SHIFT, BR_STATUS, BR_R_ASYM, BR_X_ASYM, \
    BR_G_ASYM, BR_B_ASYM, PF, QF, PT, QT
from pandapower.pypower.idx_bus import VM, VA

RULE = ("(a) passive networks from vf/c02_gen.gen_desc(passive=True): r, g, pfe >= 0, symmetric impedances, arbitrary reactances / "
        "susceptances, phase shifters (shift 0/150/+-30, ideal and cross regulators), 2W/3W transformers t/pi model, xward, "
        "impedance switches, shunts, wards, sgens, PV gens (also at the slack bus), shunts/wards directly at the slack bus, 25 % nets with one ext_grid, no gens and purely resistive shunts run with numba=True (single-slack pfsoln); non-trivial = converged net with a phase shift or tap off neutral; (b) 20 nets of the C01 generator (2-8 buses, fused sections, gens, ZIP loads sharing buses, sgens, storages, wards, shunts; no xward / dcline), voltage_depend_loads on in 80 %: composed conservation statement")
ASSUMPTIONS = ["runpp / rundcpp are oracles (their voltages are inputs of the loss stage)",
               "C03_conservation_composed_with_C01 takes zero Newton mismatch and the C01 guard G03 as hypotheses; on generated nets the mismatch "
               "is the solver tolerance (checked < 1e-5 MW per bus) and G03 is evaluated per bus (model and python re-implementation)"]
TRUSTED = ["mapping of result tables to generation / consumption / losses in harness/props/c03.py"]
# the defect C03-dc-trafo3w-star-pfe (pl_mw = 0 although the DC model keeps the star-point iron losses) was repaired in /repo


def totals(net):
    gen = net.res_ext_grid.p_mw.sum() + (net.res_sgen.p_mw.sum() if len(net.sgen) else 0.0) + (net.res_gen.p_mw.sum() if len(net.gen) else 0.0)
    cons = net.res_load.p_mw.sum() if len(net.load) else 0.0
    for t in ("shunt", "ward", "xward"):
        if len(net[t]):
            cons += np.nansum(net["res_" + t].p_mw.values)
    loss = 0.0
    for t in ("line", "trafo", "trafo3w", "impedance"):
        if len(net[t]):
            loss += np.nansum(net["res_" + t].pl_mw.values)
    if len(net.switch) and "p_from_mw" in net.res_switch:
        loss += np.nansum(net.res_switch.p_from_mw.values + net.res_switch.p_to_mw.values)
    return gen, cons, loss


def ac_oracle(ctx, d, net):
    tol = 1e-7
    for tab, parts in (("res_line", ("p_from_mw", "p_to_mw")), ("res_trafo", ("p_hv_mw", "p_lv_mw")),
                       ("res_trafo3w", ("p_hv_mw", "p_mv_mw", "p_lv_mw")), ("res_impedance", ("p_from_mw", "p_to_mw"))):
        r = net[tab]
        if len(r) == 0:
            continue
        s = sum(r[c].values for c in parts)
        qs = sum(r[c.replace("p_", "q_").replace("_mw", "_mvar")].values for c in parts)
        ok = np.isclose(np.nan_to_num(r.pl_mw.values), np.nan_to_num(s), atol=1e-12, rtol=1e-12)
        okq = np.isclose(np.nan_to_num(r.ql_mvar.values), np.nan_to_num(qs), atol=1e-12, rtol=1e-12)
        if not ok.all() or not okq.all():
            i = int(np.argmin(ok & okq))
            ctx.violation("spec", "%s[%d]: pl_mw/ql_mvar %r/%r is not the sum of the terminal powers %r/%r" % (tab, i, r.pl_mw.iat[i], r.ql_mvar.iat[i], s[i], qs[i]), d)
        neg = np.nan_to_num(r.pl_mw.values) < -tol
        if neg.any():
            i = int(np.argmax(neg))
            ctx.violation("spec", "%s[%d]: negative active losses pl_mw = %.9g on a passive branch" % (tab, i, r.pl_mw.iat[i]), d)
    gen, cons, loss = totals(net)
    if abs(gen - cons - loss) > 1e-6 * max(1.0, abs(gen)):
        ctx.violation("spec", "AC: generation %.9g - consumption %.9g = %.9g but the reported branch losses sum to %.9g" % (gen, cons, gen - cons, loss), d)
    ctx.count("ac_oracle_nets")


def dc_star_loss(d):
    """iron losses kept by the DC model: trafo3w_losses="star" turns pfe_kw into a real shunt at the auxiliary bus (|V| = 1)"""
    return sum(w["pfe"] * 1e-3 * (110.0 / w["vn"][0]) ** 2 for w in d["t3"] if w["in"] and w["loss"] == "star")


def dc_oracle(ctx, d, terms, pend):
    net = g.build(d)
    try:
        pp.rundcpp(net, trafo_model=d["opt"]["trafo_model"], calculate_voltage_angles=d["opt"]["cva"], switch_rx_ratio=d["opt"]["rx"],
                   trafo3w_losses=(d["t3"][0]["loss"] if d["t3"] else "hv"))
    except Exception as e:
        ctx.count("dc_failed_" + type(e).__name__)
        return
    for tab in ("res_line", "res_trafo", "res_impedance"):
        r = net[tab]
        if len(r) and not np.allclose(np.nan_to_num(r.pl_mw.values), 0.0, atol=1e-12):
            ctx.violation("spec", "DC: %s.pl_mw is not zero" % tab, d)
    if len(net.res_trafo3w):
        r = net.res_trafo3w
        s3 = np.nan_to_num(r.p_hv_mw.values + r.p_mv_mw.values + r.p_lv_mw.values)
        if not np.allclose(np.nan_to_num(r.pl_mw.values), s3, atol=1e-12):
            ctx.violation("spec", "DC: res_trafo3w.pl_mw %r is not p_hv + p_mv + p_lv = %r" % (r.pl_mw.values.tolist(), s3.tolist()), d)
        # the series branches are lossless; only the star-point iron losses (a real shunt the DC model keeps) may appear
        exp = dc_star_loss(d)
        if abs(np.nansum(r.pl_mw.values) - exp) > 1e-9 * max(1.0, exp):
            ctx.violation("spec", "DC: res_trafo3w.pl_mw sums to %.9g, expected %.9g (star-point iron losses only)" % (np.nansum(r.pl_mw.values), exp), d)
    gen, cons, loss = totals(net)
    if abs(gen - cons - loss) > 1e-7 * max(1.0, abs(gen)):
        ctx.violation("spec", "DC: total generation %.9g - total consumption %.9g = %.9g but the reported losses sum to %.9g" % (gen, cons, gen - cons, loss), d)
    if dc_star_loss(d) > 0:
        ctx.count("dc_star_iron_loss_nets")
    # model: DC flow of every active branch sums to zero
    ppc = net._ppc
    br, bus = ppc["branch"].real, ppc["bus"].real
    for k in range(br.shape[0]):
        if not br[k, BR_STATUS] or not ppc["internal"]["branch_is"][k]:
            continue
        f, t = int(br[k, F_BUS]), int(br[k, T_BUS])
        row = "(mkB %s %s 0 0 0 0 0 0 %s %s true 0)" % (g.q(br[k, BR_R]), g.q(br[k, BR_X]), g.q(br[k, TAP]), g.q(br[k, SHIFT]))
        terms.append("run_dc_loss %s %s %s %s %s" % (row, g.q(math.pi), g.q(math.radians(bus[f, VA])), g.q(math.radians(bus[t, VA])), g.q(float(net.sn_mva))))
        pend.append(("dc", d, k, float(br[k, PF] + br[k, PT])))
    ctx.count("dc_nets")


def _one(ctx, d, terms, pend, sample=False):
    net = g.build(d)
    # numba on: the single-slack fast pfsoln (pf/pfsoln_numba.py) is selected on nets with one ext_grid, no gens and no shunt columns
    numba = bool(d.get("single_slack_resistive")) or ctx.rng.random() < 0.25
    try:
        g.run_ac(net, d, numba=numba)
    except Exception as e:
        ctx.count("ac_raised_" + type(e).__name__)
        ctx.case(d, nontrivial=False)
        return
    ctx.count("ac_numba_%s" % numba)
    if d.get("single_slack_resistive"):
        ctx.count("single_slack_resistive_nets")
    if any(g_["bus"] == 0 for g_ in d.get("gens", [])):
        ctx.count("gen_at_slack_bus_nets")
    if any(s_["bus"] == 0 for s_ in d["shunts"]) or any(w_["bus"] == 0 for w_ in d.get("ward", [])):
        ctx.count("shunt_or_ward_at_slack_bus_nets")
    ppc = net._ppc
    br, bus = ppc["branch"].real, ppc["bus"].real
    bis = np.asarray(ppc["internal"]["branch_is"], dtype=bool)
    V = bus[:, VM] * np.exp(1j * np.deg2rad(bus[:, VA]))
    sn = float(net.sn_mva)
    nb = 0
    for k in range(br.shape[0]):
        if not bis[k]:
            continue
        row = br[k]
        f, t = int(row[F_BUS]), int(row[T_BUS])
        e = cmath.exp(1j * math.pi / 180 * row[SHIFT])
        rt = "(mkB %s %s %s %s %s %s %s %s %s %s true 0)" % tuple(g.q(row[c]) for c in (BR_R, BR_X, BR_G, BR_B, BR_R_ASYM, BR_X_ASYM, BR_G_ASYM, BR_B_ASYM, TAP, SHIFT))
        terms.append("run_loss %s %s %s %s %s" % (rt, g.cplx(e), g.cplx(complex(V[f])), g.cplx(complex(V[t])), g.q(sn)))
        sym = row[BR_R_ASYM] == 0 and row[BR_X_ASYM] == 0
        # hypotheses of C03_pi_loss_nonneg on the row (a 3W star-equivalent branch may have r < 0, a T-model row g' < 0)
        hyp = sym and row[BR_R] >= 0 and row[BR_G] >= 0 and row[BR_G] + row[BR_G_ASYM] >= 0
        ctx.count("row_meets_nonneg_hypotheses_%s" % bool(hyp))
        pend.append(("ac", d, k, [float(row[PF] + row[PT]), float(row[QF] + row[QT])], sym, hyp))
        nb += 1
    shifted = any(t["shift"] != 0 or (t["tap"]["type"] and t["tap"]["pos"] != t["tap"]["neutral"]) for t in d["t2"])
    ctx.case(d, nontrivial=shifted, sample=({"input": d, "impl_totals(gen,cons,loss)": [float(x) for x in totals(net)]} if sample else None))
    ctx.count("branches", nb)
    ac_oracle(ctx, d, net)
    # table level: every pl_mw of the result tables is the ppc PF+PT of its branch (checked through the tables in ac_oracle)
    if ctx.rng.random() < 0.6:
        dc_oracle(ctx, d, terms, pend)


def _compare(ctx, pend, model):
    for item, mod in zip(pend, model):
        ctx.corr_checked += 1
        if item[0] == "dc":
            _, d, k, impl = item
            m = g.fl(mod)
            if isinstance(m, cq.Err) or abs(impl) > 1e-9 or abs(m) > 0:
                ctx.disagreement("DC branch %d: PF+PT impl=%r, model=%r (both must be 0)" % (k, impl, m), d)
            continue
        _, d, k, impl, sym, hyp = item
        if isinstance(mod, cq.Err):
            ctx.disagreement("ppc branch %d: model raises %s" % (k, mod), d)
            continue
        m = g.fl(mod)
        if not g.close(impl, m[0], 1e-8, 1e-9):
            ctx.disagreement("ppc branch %d: PF+PT / QF+QT impl=%s model=%s" % (k, impl, m[0]), d)
        elif sym and not g.close(impl[0], m[1], 1e-8, 1e-9):
            ctx.disagreement("ppc branch %d: loss %.10g but dissipation formula %.10g" % (k, impl[0], m[1]), d)
        elif hyp and m[1] < 0:
            ctx.disagreement("ppc branch %d: negative dissipation %.10g" % (k, m[1]), d)


def _composed_case(ctx, rng, cterms, cpend, given=None):
    """net of the C01 generator with ZIP loads -> run_conservation (C03/ComposeModel.v)"""
    from vf import c01_pf as pf
    from pandapower.pypower.idx_bus import BASE_KV
    if given is None:
        net = pf.gen_net(rng, rich=rng.choice([0.5, 0.8, 1.0]), n_gen=2, two_eg_p=0.25, allow_xward=False, zip_p=0.7,
                         share=rng.choice([0.3, 0.7]))
        opts = {"numba": False, "voltage_depend_loads": rng.random() < 0.8, "calculate_voltage_angles": True}
    else:
        net, opts = given
    net_js = pp.to_json(net)
    case = {"composed_net": net_js, "opts": opts}
    try:
        pp.runpp(net, **opts)
    except Exception as e:
        ctx.count("composed_raised_" + type(e).__name__)
        return
    if len(net.xward) or len(net.dcline) or "V" not in net._ppc["internal"]:
        ctx.count("composed_skipped")
        return
    x = pf.extract(net)
    pf.impl_res(net, x)
    I = net._ppc["internal"]
    br = I["branch"]
    V = np.asarray(I["V"])
    c30 = lambda z: "(mkC %s %s)" % (cq.q(float(z.real), 30), cq.q(float(z.imag), 30))
    c40 = lambda z: "(mkC %s %s)" % (cq.q(float(z.real), 44), cq.q(float(z.imag), 44))   # Y ~ 1e3..1e4 pu: 30 bits of V would cost 1e-6 MW
    rows = []
    for k in range(br.shape[0]):
        row = br[k].real
        f, t = int(row[F_BUS]), int(row[T_BUS])
        e = cmath.exp(1j * math.pi / 180 * row[SHIFT])
        rows.append("(mk_prow %s %s %s %s %s)" % (cq.nat(f), cq.nat(t), " ".join(cq.q(float(row[c]), 40) for c in (BR_R, BR_X, BR_G, BR_B, BR_R_ASYM, BR_X_ASYM, BR_G_ASYM, BR_B_ASYM, TAP, SHIFT)),
                                                 c30(e), g.q(float(I["bus"][t, BASE_KV].real))))
    cterms.append("run_conservation %s %s %s %s %s %s" % (pf.net_term(x), pf.ref_term(x), cq.lst(rows), cq.lst([c40(complex(v)) for v in V]),
                                                          pf.vs_term(x), cq.nat(x.nb)))
    # result tables: consumption - generation summed over every element table, losses of every branch table
    E = pf.element_sums_by_bus(net, x)
    gen_minus_cons = -sum(v.real for v in E.values())
    loss = 0.0
    for t_ in ("line", "trafo", "trafo3w", "impedance"):
        if len(net[t_]):
            loss += float(np.nansum(net["res_" + t_].pl_mw.values))
    guards = [pf.py_guards(x, k) for k in range(x.nb)]
    g03 = []
    for k, (g01p, _, _, _, has_gen, is_ref) in enumerate(guards):
        gens_k = [d_ for d_ in x.gens if d_["bus"] == k and d_["on"]]
        split_ok = len(gens_k) == 1 or (len(gens_k) > 1 and any(d_["ref"] for d_ in gens_k))
        g03.append(bool(g01p and (not (is_ref and has_gen) or split_ok)))
    cpend.append((case, gen_minus_cons, loss, g03))
    zip_buses = sum(1 for k in range(x.nb) if x.vdl and any(d_["bus"] == k and d_["on"] and (d_["czp"] or d_["cip"]) for d_ in x.loads))
    ctx.count("composed_nets_vdl_%s" % x.vdl)
    ctx.count("composed_zip_buses", zip_buses)
    ctx.case({"net_sha": __import__("hashlib").sha1(net_js.encode()).hexdigest()}, nontrivial=x.vdl and zip_buses > 0)
    # oracle on the tables, under the guard (a failing G03 is C01's recorded ZIP-averaging finding, left to that property)
    if all(g03):
        ctx.count("composed_guard_holds")
        if abs(gen_minus_cons - loss) > 1e-6 * max(1.0, abs(loss), abs(gen_minus_cons)):
            ctx.violation("spec", "AC with voltage-dependent loads: generation - consumption = %.9g but the reported branch losses sum to %.9g "
                                  "(every bus meets the guard G03)" % (gen_minus_cons, loss), case)
    else:
        ctx.count("composed_guard_fails_left_to_C01")


def _composed_compare(ctx, cpend, cmodel):
    for (case, gmc, loss, g03), m in zip(cpend, cmodel):
        ctx.corr_checked += 1
        if isinstance(m, cq.Err):
            ctx.disagreement("composed conservation: model raises %s" % m, case)
            continue
        gmc_m, loss_m, g03_m, mism = m
        bad = []
        if not g.close(gmc, float(gmc_m), 1e-6, 2e-6):
            bad.append("generation - consumption tables %.9g model %.9g" % (gmc, float(gmc_m)))
        if not g.close(loss, float(loss_m), 1e-6, 2e-6):
            bad.append("sum of losses tables %.9g model %.9g" % (loss, float(loss_m)))
        if [bool(b_) for b_ in g03_m] != g03:
            bad.append("guard G03 python %r model %r" % (g03, g03_m))
        worst = max([abs(float(v)) for v in mism] + [0.0])
        if worst > 1e-4:
            bad.append("Newton P mismatch of the converged run evaluated by the model is %.3g MW" % worst)
        # the composed theorem on the model's own numbers: guards + (almost) zero mismatch => totals agree up to the summed mismatch
        if all(g03_m) and abs(float(gmc_m) - float(loss_m)) > len(mism) * max(worst, 1e-9) + 1e-7:
            bad.append("model: generation - consumption %.9g != losses %.9g although G03 holds and the mismatch is %.3g" % (float(gmc_m), float(loss_m), worst))
        if bad:
            ctx.disagreement("composed conservation: " + "; ".join(bad[:3]), case)


def run(ctx):
    rng = ctx.rng
    terms, pend = [], []
    cterms, cpend = [], []
    for k in range(ctx.n(20, 600)):
        _composed_case(ctx, rng, cterms, cpend)
    if cterms:
        cmodel = ctx.coq_eval("c03c", "Base.QN Base.QC C01.Model C01.YbusModel C01.BranchModel C03.ComposeModel", cterms, shard=2, timeout=900)
        _composed_compare(ctx, cpend, cmodel)
    for f in sorted(glob.glob(os.path.join(cq.VERIF, "corpus", "C03", "*.json"))):
        _one(ctx, json.load(open(f))["desc"], terms, pend, sample=True)
        ctx.count("corpus")
    for k in range(ctx.n(70, 1500)):
        _one(ctx, g.gen_desc(rng, passive=True), terms, pend, sample=(k < 2))
    model = ctx.coq_eval("c03", "Base.QN Base.QC C31.Model C02.Model C03.Model", terms, shard=30, timeout=900)
    _compare(ctx, pend, model)


def replay(ctx, rec):
    if "composed_net" in rec["case"]:
        cterms, cpend = [], []
        _composed_case(ctx, ctx.rng, cterms, cpend, given=(pp.from_json_string(rec["case"]["composed_net"]), rec["case"]["opts"]))
        if cterms:
            _composed_compare(ctx, cpend, ctx.coq_eval("c03c", "Base.QN Base.QC C01.Model C01.YbusModel C01.BranchModel C03.ComposeModel", cterms, shard=2, timeout=900))
        return
    terms, pend = [], []
    _one(ctx, rec["case"], terms, pend, sample=True)
    model = ctx.coq_eval("c03", "Base.QN Base.QC C31.Model C02.Model C03.Model", terms, shard=30, timeout=900)
    _compare(ctx, pend, model)
