"""C03 — energy conservation and non-negative losses of passive branches.

Correspondence: for every active branch of generated passive networks the model (C03.Model.run_loss on the impl's own ppc
branch row and solved voltages) predicts pl_mw/ql_mvar of the result tables, and the dissipation formula of theorem
C03_pi_loss_identity (series resistance + shunt conductances) must give the same number.
Oracle: on the real result tables  pl_mw = p_from + p_to (trafo3w: hv+mv+lv),  pl_mw >= -tol for every branch,
sum(generation) - sum(consumption) = sum(pl_mw);  DC: pl_mw = 0 (trafo3w: = p_hv+p_mv+p_lv = star-point iron losses, if any),
generation - consumption = sum(pl_mw)."""
import json, math, os, glob, cmath
import numpy as np
import pandapower as pp
from vf import coqrun as cq
from vf import c02_gen as g
from pandapower.pypower.idx_brch import F_BUS, T_BUS, BR_R, BR_X, BR_B, BR_G, TAP, SHIFT, BR_STATUS, BR_R_ASYM, BR_X_ASYM, \
    BR_G_ASYM, BR_B_ASYM, PF, QF, PT, QT
from pandapower.pypower.idx_bus import VM, VA

RULE = ("passive networks from vf/c02_gen.gen_desc(passive=True): r, g, pfe >= 0, symmetric impedances, arbitrary reactances / "
        "susceptances, phase shifters (shift 0/150/+-30, ideal and cross regulators), 2W/3W transformers t/pi model, xward, "
        "impedance switches, shunts, wards, sgens, PV gens (also at the slack bus), shunts/wards directly at the slack bus, 25 % nets with one ext_grid, no gens and purely resistive shunts run with numba=True (single-slack pfsoln); non-trivial = converged net with a phase shift or tap off neutral")
ASSUMPTIONS = ["runpp / rundcpp are oracles (their voltages are inputs of the loss stage)",
               "nodal power balance at every bus (C01, other builder) is the hypothesis of C03_global_conservation; here the global sum is "
               "checked on the result tables of generated nets with constant-power loads only"]
TRUSTED = ["mapping of result tables to generation / consumption / losses in harness/props/c03.py"]
# the defect C03-dc-trafo3w-star-pfe (pl_mw = 0 although the DC model keeps the star-point iron losses) was repaired in /repo


def totals(net):
    gen = net.res_ext_grid.p_mw.sum() + (net.res_sgen.p_mw.sum() if len(net.sgen) else 0.0) + (net.res_gen.p_mw.sum() if len(net.gen) else 0.0)
    cons = net.res_load.p_mw.sum() if len(net.load) else 0.0
    for t in ("shunt", "ward", "xward"):
        if len(net[t]):
            cons += np.nansum(net["res_" + t].p_mw.values)
    loss = 0.0
    for t in ("line", "trafo", "trafo3w", "impedance"):
        if len(net[t]):
            loss += np.nansum(net["res_" + t].pl_mw.values)
    if len(net.switch) and "p_from_mw" in net.res_switch:
        loss += np.nansum(net.res_switch.p_from_mw.values + net.res_switch.p_to_mw.values)
    return gen, cons, loss


def ac_oracle(ctx, d, net):
    tol = 1e-7
    for tab, parts in (("res_line", ("p_from_mw", "p_to_mw")), ("res_trafo", ("p_hv_mw", "p_lv_mw")),
                       ("res_trafo3w", ("p_hv_mw", "p_mv_mw", "p_lv_mw")), ("res_impedance", ("p_from_mw", "p_to_mw"))):
        r = net[tab]
        if len(r) == 0:
            continue
        s = sum(r[c].values for c in parts)
        qs = sum(r[c.replace("p_", "q_").replace("_mw", "_mvar")].values for c in parts)
        ok = np.isclose(np.nan_to_num(r.pl_mw.values), np.nan_to_num(s), atol=1e-12, rtol=1e-12)
        okq = np.isclose(np.nan_to_num(r.ql_mvar.values), np.nan_to_num(qs), atol=1e-12, rtol=1e-12)
        if not ok.all() or not okq.all():
            i = int(np.argmin(ok & okq))
            ctx.violation("spec", "%s[%d]: pl_mw/ql_mvar %r/%r is not the sum of the terminal powers %r/%r" % (tab, i, r.pl_mw.iat[i], r.ql_mvar.iat[i], s[i], qs[i]), d)
        neg = np.nan_to_num(r.pl_mw.values) < -tol
        if neg.any():
            i = int(np.argmax(neg))
            ctx.violation("spec", "%s[%d]: negative active losses pl_mw = %.9g on a passive branch" % (tab, i, r.pl_mw.iat[i]), d)
    gen, cons, loss = totals(net)
    if abs(gen - cons - loss) > 1e-6 * max(1.0, abs(gen)):
        ctx.violation("spec", "AC: generation %.9g - consumption %.9g = %.9g but the reported branch losses sum to %.9g" % (gen, cons, gen - cons, loss), d)
    ctx.count("ac_oracle_nets")


def dc_star_loss(d):
    """iron losses kept by the DC model: trafo3w_losses="star" turns pfe_kw into a real shunt at the auxiliary bus (|V| = 1)"""
    return sum(w["pfe"] * 1e-3 * (110.0 / w["vn"][0]) ** 2 for w in d["t3"] if w["in"] and w["loss"] == "star")


def dc_oracle(ctx, d, terms, pend):
    net = g.build(d)
    try:
        pp.rundcpp(net, trafo_model=d["opt"]["trafo_model"], calculate_voltage_angles=d["opt"]["cva"], switch_rx_ratio=d["opt"]["rx"],
                   trafo3w_losses=(d["t3"][0]["loss"] if d["t3"] else "hv"))
    except Exception as e:
        ctx.count("dc_failed_" + type(e).__name__)
        return
    for tab in ("res_line", "res_trafo", "res_impedance"):
        r = net[tab]
        if len(r) and not np.allclose(np.nan_to_num(r.pl_mw.values), 0.0, atol=1e-12):
            ctx.violation("spec", "DC: %s.pl_mw is not zero" % tab, d)
    if len(net.res_trafo3w):
        r = net.res_trafo3w
        s3 = np.nan_to_num(r.p_hv_mw.values + r.p_mv_mw.values + r.p_lv_mw.values)
        if not np.allclose(np.nan_to_num(r.pl_mw.values), s3, atol=1e-12):
            ctx.violation("spec", "DC: res_trafo3w.pl_mw %r is not p_hv + p_mv + p_lv = %r" % (r.pl_mw.values.tolist(), s3.tolist()), d)
        # the series branches are lossless; only the star-point iron losses (a real shunt the DC model keeps) may appear
        exp = dc_star_loss(d)
        if abs(np.nansum(r.pl_mw.values) - exp) > 1e-9 * max(1.0, exp):
            ctx.violation("spec", "DC: res_trafo3w.pl_mw sums to %.9g, expected %.9g (star-point iron losses only)" % (np.nansum(r.pl_mw.values), exp), d)
    gen, cons, loss = totals(net)
    if abs(gen - cons - loss) > 1e-7 * max(1.0, abs(gen)):
        ctx.violation("spec", "DC: total generation %.9g - total consumption %.9g = %.9g but the reported losses sum to %.9g" % (gen, cons, gen - cons, loss), d)
    if dc_star_loss(d) > 0:
        ctx.count("dc_star_iron_loss_nets")
    # model: DC flow of every active branch sums to zero
    ppc = net._ppc
    br, bus = ppc["branch"].real, ppc["bus"].real
    for k in range(br.shape[0]):
        if not br[k, BR_STATUS] or not ppc["internal"]["branch_is"][k]:
            continue
        f, t = int(br[k, F_BUS]), int(br[k, T_BUS])
        row = "(mkB %s %s 0 0 0 0 0 0 %s %s true 0)" % (g.q(br[k, BR_R]), g.q(br[k, BR_X]), g.q(br[k, TAP]), g.q(br[k, SHIFT]))
        terms.append("run_dc_loss %s %s %s %s %s" % (row, g.q(math.pi), g.q(math.radians(bus[f, VA])), g.q(math.radians(bus[t, VA])), g.q(float(net.sn_mva))))
        pend.append(("dc", d, k, float(br[k, PF] + br[k, PT])))
    ctx.count("dc_nets")


def _one(ctx, d, terms, pend, sample=False):
    net = g.build(d)
    # numba on: the single-slack fast pfsoln (pf/pfsoln_numba.py) is selected on nets with one ext_grid, no gens and no shunt columns
    numba = bool(d.get("single_slack_resistive")) or ctx.rng.random() < 0.25
    try:
        g.run_ac(net, d, numba=numba)
    except Exception as e:
        ctx.count("ac_raised_" + type(e).__name__)
        ctx.case(d, nontrivial=False)
        return
    ctx.count("ac_numba_%s" % numba)
    if d.get("single_slack_resistive"):
        ctx.count("single_slack_resistive_nets")
    if any(g_["bus"] == 0 for g_ in d.get("gens", [])):
        ctx.count("gen_at_slack_bus_nets")
    if any(s_["bus"] == 0 for s_ in d["shunts"]) or any(w_["bus"] == 0 for w_ in d.get("ward", [])):
        ctx.count("shunt_or_ward_at_slack_bus_nets")
    ppc = net._ppc
    br, bus = ppc["branch"].real, ppc["bus"].real
    bis = np.asarray(ppc["internal"]["branch_is"], dtype=bool)
    V = bus[:, VM] * np.exp(1j * np.deg2rad(bus[:, VA]))
    sn = float(net.sn_mva)
    nb = 0
    for k in range(br.shape[0]):
        if not bis[k]:
            continue
        row = br[k]
        f, t = int(row[F_BUS]), int(row[T_BUS])
        e = cmath.exp(1j * math.pi / 180 * row[SHIFT])
        rt = "(mkB %s %s %s %s %s %s %s %s %s %s true 0)" % tuple(g.q(row[c]) for c in (BR_R, BR_X, BR_G, BR_B, BR_R_ASYM, BR_X_ASYM, BR_G_ASYM, BR_B_ASYM, TAP, SHIFT))
        terms.append("run_loss %s %s %s %s %s" % (rt, g.cplx(e), g.cplx(complex(V[f])), g.cplx(complex(V[t])), g.q(sn)))
        sym = row[BR_R_ASYM] == 0 and row[BR_X_ASYM] == 0
        # hypotheses of C03_pi_loss_nonneg on the row (a 3W star-equivalent branch may have r < 0, a T-model row g' < 0)
        hyp = sym and row[BR_R] >= 0 and row[BR_G] >= 0 and row[BR_G] + row[BR_G_ASYM] >= 0
        ctx.count("row_meets_nonneg_hypotheses_%s" % bool(hyp))
        pend.append(("ac", d, k, [float(row[PF] + row[PT]), float(row[QF] + row[QT])], sym, hyp))
        nb += 1
    shifted = any(t["shift"] != 0 or (t["tap"]["type"] and t["tap"]["pos"] != t["tap"]["neutral"]) for t in d["t2"])
    ctx.case(d, nontrivial=shifted, sample=({"input": d, "impl_totals(gen,cons,loss)": [float(x) for x in totals(net)]} if sample else None))
    ctx.count("branches", nb)
    ac_oracle(ctx, d, net)
    # table level: every pl_mw of the result tables is the ppc PF+PT of its branch (checked through the tables in ac_oracle)
    if ctx.rng.random() < 0.6:
        dc_oracle(ctx, d, terms, pend)


def _compare(ctx, pend, model):
    for item, mod in zip(pend, model):
        ctx.corr_checked += 1
        if item[0] == "dc":
            _, d, k, impl = item
            m = g.fl(mod)
            if isinstance(m, cq.Err) or abs(impl) > 1e-9 or abs(m) > 0:
                ctx.disagreement("DC branch %d: PF+PT impl=%r, model=%r (both must be 0)" % (k, impl, m), d)
            continue
        _, d, k, impl, sym, hyp = item
        if isinstance(mod, cq.Err):
            ctx.disagreement("ppc branch %d: model raises %s" % (k, mod), d)
            continue
        m = g.fl(mod)
        if not g.close(impl, m[0], 1e-8, 1e-9):
            ctx.disagreement("ppc branch %d: PF+PT / QF+QT impl=%s model=%s" % (k, impl, m[0]), d)
        elif sym and not g.close(impl[0], m[1], 1e-8, 1e-9):
            ctx.disagreement("ppc branch %d: loss %.10g but dissipation formula %.10g" % (k, impl[0], m[1]), d)
        elif hyp and m[1] < 0:
            ctx.disagreement("ppc branch %d: negative dissipation %.10g" % (k, m[1]), d)


def run(ctx):
    rng = ctx.rng
    terms, pend = [], []
    for f in sorted(glob.glob(os.path.join(cq.VERIF, "corpus", "C03", "*.json"))):
        _one(ctx, json.load(open(f))["desc"], terms, pend, sample=True)
        ctx.count("corpus")
    for k in range(ctx.n(70, 1500)):
        _one(ctx, g.gen_desc(rng, passive=True), terms, pend, sample=(k < 2))
    model = ctx.coq_eval("c03", "Base.QN Base.QC C31.Model C02.Model C03.Model", terms, shard=30, timeout=900)
    _compare(ctx, pend, model)


def replay(ctx, rec):
    terms, pend = [], []
    _one(ctx, rec["case"], terms, pend, sample=True)
    model = ctx.coq_eval("c03", "Base.QN Base.QC C31.Model C02.Model C03.Model", terms, shard=30, timeout=900)
    _compare(ctx, pend, model)
