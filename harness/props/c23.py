"""C23 — result-preserving toolbox transformations preserve power flow results.

Correspondence: replace_line_by_impedance / merge_parallel_line on line tables with shuffled, gapped indices: the created
impedance parameters (or the exception class) vs C23.Model.line_to_imp (label access and positional access kept apart);
ward / xward / ext_grid replacements: created rows, ppc bus columns PD QD GS BS of a fresh _pd2ppc before and after, the xward's
internal branch + PV node vs the created impedance + gen, BUS_TYPE / VM / VA at the ext_grid bus vs C23.Repl; fuse_buses over a
bus-bus switch: the topology tables after the real call and the bus -> ppc row partition before / after vs C23.Fuse (C07 net).
Oracle: runpp before and after each transformation on mapped buses/elements; neutrality of the ppc rows / partition."""
import copy, json, math, os, glob
from fractions import Fraction
import numpy as np
import pandas as pd
import pandapower as pp
import pandapower.toolbox as tb
from vf import coqrun as cq, nets, c23_repl as rp, c07_gen

RULE = ("meshed 20 kV nets (4-8 buses, optional 110 kV feeder) with shuffled gapped bus/line indices in 60 % of the cases; "
        "each transformation applied at random applicable targets; non-trivial = the transformation changed at least one table "
        "and the power flow converged before and after; replacement correspondence: nets with sn_mva in {1,10,100}, 1-3 wards / 0-2 "
        "xwards with shuffled indices (all or a random subset in random order), shunts with vn_kv != bus voltage and step 2, scaled "
        "loads, out-of-service elements / buses, fused buses, ext_grid with va_degree 0/10, slack True/False, with/without results; "
        "fuse correspondence: rich nets, a random bus-bus switch (closed/open, z_ohm 0 / > 0), both directions")
ASSUMPTIONS = ["runpp (Newton-Raphson) is an oracle; results compared within 1e-6 pu / 1e-5 MW",
               "equal ppc bus rows, branch rows and bus lookup partition imply equal results (C01/C02/C05 machinery); C23 proves the "
               "equality of these ppc quantities for the line/impedance, ward, xward, ext_grid replacements and fuse_buses",
               "the on/off flag of the created xward source is compared only for xwards at in-service buses (otherwise the created "
               "bus + gen island is removed by the connectivity check, outside C23/Repl.v)"]
TRUSTED = ["mapping of buses/elements before/after each transformation in props/c23.py",
           "harness/vf/c23_repl.py emitters (table -> Gallina records) and ppc readers; harness/vf/c07_gen.net_term"]
TOL = 1e-6


def q(x):
    return cq.q(Fraction(float(x)))


def line_tab_term(net):
    rows = []
    for i in net.line.index:
        l = net.line.loc[i]
        rows.append("(Build_line %d %s %s %s %s %s %s %s)" % (int(i), q(l.r_ohm_per_km), q(l.x_ohm_per_km), q(l.c_nf_per_km),
                                                              q(l.g_us_per_km), q(l.length_km), q(l.parallel),
                                                              q(net.bus.vn_kv.at[l.from_bus])))
    return cq.lst(rows)


def vm(net):
    return {int(b): (float(net.res_bus.vm_pu.at[b]), float(net.res_bus.va_degree.at[b])) for b in net.bus.index}


def same_bus_results(a, b, mapping=None):
    worst = 0.0
    for k, (v, ang) in a.items():
        k2 = mapping.get(k, k) if mapping else k
        if k2 not in b:
            continue
        v2, a2 = b[k2]
        if math.isnan(v) and math.isnan(v2):
            continue
        if math.isnan(v) != math.isnan(v2):
            return float("inf")
        worst = max(worst, abs(v - v2), abs(ang - a2) / 100.0)
    return worst


def gen_net(rng, shuffle=None):
    sh = rng.random() < 0.6 if shuffle is None else shuffle
    net = nets.rand_net(rng, nb=rng.randint(4, 8), chords=rng.randint(1, 2), n_trafo=rng.choice([0, 1]), shuffle_index=sh,
                        line_params=True)
    net.line["c_nf_per_km"] = [rng.choice([0.0, 0.0, 160.0]) for _ in net.line.index]
    net.line["g_us_per_km"] = 0.0
    return net


def rich_net(rng):
    """net for the structural transformations: coinciding indices across tables (bus / line / trafo / switch ids drawn
    from the same small range), f_hz in {50, 60, 16.7}, sn_mva in {1, 10, 100}, line capacitance, open and closed switches of
    all kinds (b, l, t, t3), out-of-service lines / trafos / loads / buses, sometimes an unsupplied second island"""
    shuffle = rng.random() < 0.4
    net = nets.rand_net(rng, nb=rng.randint(4, 7), chords=rng.randint(1, 2), n_trafo=2, shuffle_index=shuffle,
                        n_trafo3w=rng.choice([0, 0, 1]), oos=rng.choice([0.0, 0.15, 0.3]), line_params=True)
    if len(net.trafo3w):                       # same vector group as the parallel 2W transformers (no circulating currents)
        net.trafo3w["shift_mv_degree"] = 150.0
        net.trafo3w["shift_lv_degree"] = 150.0
    net.f_hz = rng.choice([50.0, 50.0, 60.0, 16.7])
    net.sn_mva = rng.choice([1.0, 1.0, 10.0, 100.0])
    net.line["c_nf_per_km"] = [rng.choice([0.0, 160.0, 256.0]) for _ in net.line.index]
    mvb = [int(x) for x in net.bus.index if net.bus.vn_kv.at[x] == 20.0]
    free = [i for i in range(0, 40) if i not in set(net.bus.index)]
    # a bus behind a closed bus-bus switch (fusable), and a normally-open tie
    nbus = pp.create_bus(net, 20.0, index=rng.choice(free[:6]))
    pp.create_load(net, nbus, 0.25, 0.125)
    pp.create_switch(net, rng.choice(mvb), nbus, et="b", closed=True)
    if len(mvb) > 2 and rng.random() < 0.6:
        a, b = rng.sample(mvb, 2)
        pp.create_switch(net, a, b, et="b", closed=False)
    # line switches: mostly closed, some open; indices of lines / trafos / buses coincide on purpose
    for li in rng.sample(list(net.line.index), min(len(net.line), rng.randint(1, 3))):
        pp.create_switch(net, int(net.line.at[li, rng.choice(["from_bus", "to_bus"])]), int(li), et="l", closed=rng.random() < 0.5)
    for ti in net.trafo.index:
        if rng.random() < 0.6:
            pp.create_switch(net, int(net.trafo.at[ti, rng.choice(["hv_bus", "lv_bus"])]), int(ti), et="t",
                             closed=(ti == net.trafo.index[0]) or rng.random() < 0.5)
    for ti in net.trafo3w.index:
        if rng.random() < 0.7:
            pp.create_switch(net, int(net.trafo3w.at[ti, rng.choice(["mv_bus", "lv_bus"])]), int(ti), et="t3",
                             closed=rng.random() < 0.5)
    for i in net.load.index:
        if rng.random() < 0.15:
            net.load.at[i, "in_service"] = False
    if rng.random() < 0.3:                       # unsupplied island
        i1, i2 = [pp.create_bus(net, 20.0) for _ in range(2)]
        pp.create_line_from_parameters(net, i1, i2, 1.0, 0.25, 0.125, 160.0, 0.5)
        pp.create_load(net, i2, 0.125, 0.0)
    return net


def component_of_ext_grid(net):
    """buses of the graph component (switch states ignored, every branch element an edge) that holds the ext_grids"""
    adj = {int(b): set() for b in net.bus.index}
    def edge(a, b):
        adj[int(a)].add(int(b)); adj[int(b)].add(int(a))
    for t, cols in (("line", ("from_bus", "to_bus")), ("trafo", ("hv_bus", "lv_bus")), ("impedance", ("from_bus", "to_bus"))):
        for a, b in zip(net[t][cols[0]].values, net[t][cols[1]].values):
            edge(a, b)
    for h, m_, l in zip(net.trafo3w.hv_bus.values, net.trafo3w.mv_bus.values, net.trafo3w.lv_bus.values):
        edge(h, m_); edge(h, l)
    for b, e, et in zip(net.switch.bus.values, net.switch.element.values, net.switch.et.values):
        if et == "b":
            edge(b, e)
    seen, todo = set(), [int(b) for b in net.ext_grid.bus.values]
    while todo:
        x = todo.pop()
        if x not in seen:
            seen.add(x)
            todo.extend(adj[x] - seen)
    return sorted(seen)


def structural_transformations(rng, net):
    out = []
    comp = component_of_ext_grid(net)
    out.append(("select_subnet_supplied_island", comp,
                lambda n: ("newnet", tb.select_subnet(n, list(comp), include_results=False))))
    closed_bb = [(int(b), int(e)) for b, e, et, c in zip(net.switch.bus.values, net.switch.element.values, net.switch.et.values,
                                                      net.switch.closed.values) if et == "b" and c and b != e]
    if closed_bb:
        a, b = rng.choice(closed_bb)
        if rng.random() < 0.5:
            a, b = b, a
        out.append(("fuse_buses_closed_switch", [a, b], lambda n, a=a, b=b: tb.fuse_buses(n, a, [b]) or {b: a}))
    out.append(("drop_out_of_service_elements", [], lambda n: tb.drop_out_of_service_elements(n)))
    out.append(("drop_inactive_elements", [], lambda n: tb.drop_inactive_elements(n)))
    out.append(("create_continuous_elements_index", [], lambda n: _cont(n)))
    if len(net.xward):
        out.append(("replace_xward_by_internal_elements", [], lambda n: tb.replace_xward_by_internal_elements(n)))
    return out


def transformations(rng, net):
    """list of (name, function(net) -> bus mapping or None, classification guard)"""
    out = []
    zero_c = [int(i) for i in net.line.index if net.line.c_nf_per_km.at[i] == 0 and net.line.in_service.at[i]]
    if zero_c:
        sel = rng.sample(zero_c, rng.randint(1, len(zero_c)))
        out.append(("replace_line_by_impedance", sel, lambda n, sel=sel: tb.replace_line_by_impedance(n, index=list(sel)) and None))
        out.append(("line_impedance_round_trip", sel, lambda n, sel=sel: tb.replace_impedance_by_line(
            n, index=tb.replace_line_by_impedance(n, index=list(sel))) and None))
    par = [int(i) for i in net.line.index if net.line.parallel.at[i] > 1]
    if par:
        i = rng.choice(par)
        out.append(("merge_parallel_line", [i], lambda n, i=i: tb.merge_parallel_line(n, i) and None))
    out.append(("replace_ext_grid_by_gen", [], lambda n: tb.replace_ext_grid_by_gen(n, slack=True) and None))
    out.append(("create_continuous_bus_index", [], lambda n: tb.create_continuous_bus_index(n, start=rng.choice([0, 3]))))
    out.append(("create_continuous_elements_index", [], lambda n: _cont(n)))
    out.append(("drop_out_of_service_elements", [], lambda n: tb.drop_out_of_service_elements(n)))
    out.append(("drop_inactive_elements", [], lambda n: tb.drop_inactive_elements(n)))
    return out


def _cont(n):
    old = sorted(int(b) for b in n.bus.index)
    tb.create_continuous_elements_index(n)
    return dict(zip(old, range(len(old))))


def extra_elements(rng, net):
    """wards / xwards / closed bus-bus switches for the corresponding transformations"""
    b = [int(x) for x in net.bus.index if net.bus.vn_kv.at[x] == 20.0]
    if rng.random() < 0.5:
        pp.create_ward(net, rng.choice(b), 0.125, 0.0625, 0.25, 0.125, index=rng.randrange(5))
    if rng.random() < 0.5:
        pp.create_xward(net, rng.choice(b), 0.125, 0.0625, 0.25, 0.125, 0.5, 1.0, 1.0, index=rng.randrange(5))


def run(ctx):
    rng = ctx.rng
    terms, expect, descs = [], [], []
    # ---------------- correspondence: replace_line_by_impedance parameters
    for k in range(ctx.n(60, 700)):
        net = gen_net(rng)
        ident = list(net.line.index) == list(range(len(net.line)))
        cand = [int(i) for i in net.line.index if net.line.c_nf_per_km.at[i] == 0]
        if not cand:
            continue
        sel = rng.sample(cand, rng.randint(1, len(cand)))
        sel = [i for i in net.line.index if i in sel]           # net.line.loc[index] order = given order; keep table order
        work = copy.deepcopy(net)
        exc, params = None, None
        try:
            new = tb.replace_line_by_impedance(work, index=list(sel))
            params = [[Fraction(float(work.impedance.rft_pu.at[j])), Fraction(float(work.impedance.xft_pu.at[j])),
                       Fraction(float(work.impedance.sn_mva.at[j]))] for j in new]
        except Exception as e:
            exc = type(e).__name__
        terms.append("run_replace %s %s %s" % (line_tab_term(net), q(net.sn_mva), cq.lst(["(%d)%%Z" % i for i in sel])))
        expect.append((exc, params))
        descs.append({"line_index": [int(i) for i in net.line.index], "selected": sel, "net": pp.to_json(net)})
        ctx.case({"line_index": [int(i) for i in net.line.index], "sel": sel}, nontrivial=True,
                 sample={"line_index": [int(i) for i in net.line.index], "selected": sel, "raised": exc} if k < 3 else None)
        ctx.count("replace_corr_identity_index" if ident else "replace_corr_shuffled_index")
    model = ctx.coq_eval("c23", "Base.QN C23.Model", terms, shard=20, timeout=280)
    for (exc, params), m, d in zip(expect, model, descs):
        ctx.corr_checked += 1
        errs = [x for x in m if isinstance(x, cq.Err)]
        if exc is not None:
            if not errs or errs[0].s != exc:
                ctx.disagreement("replace_line_by_impedance raises %s, model %s" % (exc, m), d)
            continue
        if errs:
            ctx.disagreement("replace_line_by_impedance returned normally, model raises %s" % errs[0].s, d)
            continue
        for a, b in zip(params, m):
            if any(abs(float(x) - float(y)) > 1e-9 * max(1.0, abs(float(x))) for x, y in zip(a, b)):
                ctx.disagreement("impedance parameters differ: impl=%s model=%s" % ([float(x) for x in a], [float(y) for y in b]), d)
                break
    # ---------------- correspondence: merge_parallel_line parameters
    mterms, mexp, mdesc = [], [], []
    for k in range(ctx.n(40, 400)):
        net = gen_net(rng)
        i = int(rng.choice(list(net.line.index)))
        net.line.at[i, "parallel"] = rng.choice([2, 3, 4])
        net.line.at[i, "g_us_per_km"] = rng.choice([0.0, 4.0])
        l = net.line.loc[i]
        mterms.append("run_merge (Build_line %d %s %s %s %s %s %s %s)" % (i, q(l.r_ohm_per_km), q(l.x_ohm_per_km), q(l.c_nf_per_km),
                                                                         q(l.g_us_per_km), q(l.length_km), q(l.parallel), q(20.0)))
        work = copy.deepcopy(net)
        tb.merge_parallel_line(work, i)
        w = work.line.loc[i]
        mexp.append([float(w.r_ohm_per_km), float(w.x_ohm_per_km), float(w.c_nf_per_km), float(w.g_us_per_km), float(w.parallel)])
        mdesc.append({"line": {c: float(l[c]) for c in ("r_ohm_per_km", "x_ohm_per_km", "c_nf_per_km", "g_us_per_km", "length_km", "parallel")}})
        ctx.case(mdesc[-1], nontrivial=True)
        ctx.count("merge_corr")
    for e, m_, d in zip(mexp, ctx.coq_eval("c23m", "Base.QN C23.Model", mterms, shard=40, timeout=280), mdesc):
        ctx.corr_checked += 1
        if any(abs(a - float(b)) > 1e-9 * max(1.0, abs(a)) for a, b in zip(e, m_)):
            ctx.disagreement("merge_parallel_line parameters differ: impl=%s model=%s" % (e, [float(b) for b in m_]), d)
    # ---------------- oracle: power flow results before / after
    for k in range(ctx.n(45, 500)):
        net = gen_net(rng)
        extra_elements(rng, net)
        try:
            pp.runpp(net, numba=False)
        except Exception:
            ctx.count("oracle_base_not_converged")
            continue
        before = vm(net)
        ident = list(net.line.index) == list(range(len(net.line)))
        ts = transformations(rng, net)
        if len(net.ward):
            ts.append(("replace_ward_by_internal_elements", [], lambda n: tb.replace_ward_by_internal_elements(n)))
        if len(net.xward):
            ts.append(("replace_xward_by_internal_elements", [], lambda n: tb.replace_xward_by_internal_elements(n)))
        for name, sel, fn in rng.sample(ts, min(len(ts), 4)):
            work = copy.deepcopy(net)
            case = {"transformation": name, "targets": sel, "net": pp.to_json(net)}
            known = None
            try:
                mapping = fn(work)
                pp.runpp(work, numba=False)
            except Exception as e:
                ctx.count("raised:%s:%s" % (name, type(e).__name__))
                ctx.case({"t": name, "net": case["net"][:2000]}, nontrivial=False)
                if name.startswith("drop_") or name.startswith("create_cont"):
                    ctx.violation("spec", "%s: %s: %s" % (name, type(e).__name__, e), case)
                else:
                    ctx.violation("spec", "%s raises %s: %s" % (name, type(e).__name__, str(e)[:200]), case)
                continue
            dev = same_bus_results(before, vm(work), mapping if isinstance(mapping, dict) else None)
            ctx.case({"t": name, "targets": sel, "net": case["net"][:3000]}, nontrivial=True)
            ctx.count("oracle:" + name)
            if dev > TOL and name == "replace_ext_grid_by_gen" and any(float(v) != 0.0 for v in net.ext_grid.va_degree.values):
                # a slack gen has no angle set point: is the deviation exactly a uniform shift by the ext_grid angle?
                after = vm(work)
                sh = float(net.ext_grid.va_degree.values[0])
                shifted = {b: (v, a - sh) for b, (v, a) in before.items()}
                if same_bus_results(shifted, after) <= TOL:
                    known = "C23-ext-grid-by-gen-loses-va-degree"
            if dev > TOL:
                ctx.violation(known or "spec", "%s changes bus results by %.3g (line index %s)" % (
                    name, dev, [int(i) for i in net.line.index]), case)
        # merge of two disjoint nets: block diagonal
        if k % 3 == 0:
            net2 = gen_net(rng)
            try:
                pp.runpp(net2, numba=False)
                merged, lk = tb.merge_nets(net, net2, validate=False, return_net2_reindex_lookup=True, net2_reindex_log_level=None)
                pp.runpp(merged, numba=False)
            except Exception as e:
                ctx.violation("spec", "merge_nets of two solvable nets raises %s: %s" % (type(e).__name__, str(e)[:200]),
                              {"net1": pp.to_json(net), "net2": pp.to_json(net2)})
                continue
            d1 = same_bus_results(before, vm(merged))
            d2 = same_bus_results(vm(net2), vm(merged), lk.get("bus", {}))
            ctx.case({"t": "merge_nets", "n1": len(net.bus), "n2": len(net2.bus), "k": k}, nontrivial=True)
            ctx.count("oracle:merge_nets")
            if max(d1, d2) > TOL:
                ctx.violation("spec", "merge_nets of disjoint nets changes bus results by %.3g" % max(d1, d2),
                              {"net1": pp.to_json(net), "net2": pp.to_json(net2)})
    structural_oracle(ctx, rng)
    replacement_correspondence(ctx, rng)
    fuse_correspondence(ctx, rng)


def replacement_correspondence(ctx, rng):
    """ward / xward / ext_grid replacements: the created rows and the ppc quantities of the real power flow build before and
    after the real replacement vs coq/C23/Repl.v (run_wards / run_xwards / run_egrids)"""
    from pandapower.pypower.idx_bus import BUS_TYPE, VM, VA
    terms, checks = [], []
    for k in range(ctx.n(30, 400)):
        net = rp.repl_net(rng)
        kind = ("ward", "xward", "ext_grid")[k % 3]
        if kind == "xward" and not len(net.xward):
            kind = "ward"
        work = copy.deepcopy(net)
        desc = {"kind": kind, "net": pp.to_json(net)}
        try:
            if kind in ("ward", "xward"):
                tab = net[kind]
                sel = None if rng.random() < 0.4 else rng.sample([int(i) for i in tab.index], rng.randint(1, len(tab)))
                sel_l = [int(i) for i in tab.index] if sel is None else sel
                desc["sel"] = sel
                desc["xward_buses_in_service"] = bool(all(net.bus.in_service.at[x] for x in net.xward.bus.values))
                ppc1 = rp.fresh_ppc(net)
                pairs1, bk1, rows1, vals1 = rp.observe_rows(net, ppc1)
                src1 = rp.observe_xward_sources(net, ppc1) if kind == "xward" else None
                n_load, n_shunt, n_bus, n_gen = len(work.load), len(work.shunt), len(work.bus), len(work.gen)
                if kind == "ward":
                    tb.replace_ward_by_internal_elements(work, wards=sel)
                else:
                    tb.replace_xward_by_internal_elements(work, xwards=sel)
                ppc2 = rp.fresh_ppc(work)
                pairs2, bk2, rows2, vals2 = rp.observe_rows(work, ppc2)
                ld = [[int(r.bus), float(r.p_mw), float(r.q_mvar), float(r.scaling), bool(r.in_service)] for r in work.load.iloc[n_load:].itertuples()]
                sh = [[int(r.bus), float(r.p_mw), float(r.q_mvar), float(r.vn_kv), float(r.step), bool(r.in_service)] for r in work.shunt.iloc[n_shunt:].itertuples()]
                left = [int(i) for i in work[kind].index]
                impl = [ld, sh, left, [vals1[r] for r in rows1], [vals2[r] for r in rows2]]
                if kind == "xward":
                    nb = [[int(i), float(r.vn_kv), bool(r.in_service)] for i, r in zip(work.bus.index[n_bus:], work.bus.iloc[n_bus:].itertuples())]
                    ng = [[int(r.bus), float(r.p_mw), float(r.vm_pu), float(r.scaling), bool(r.slack), bool(r.in_service)] for r in work.gen.iloc[n_gen:].itertuples()]
                    ni = [[int(r.from_bus), int(r.to_bus), float(r.rft_pu), float(r.xft_pu), float(r.rtf_pu), float(r.xtf_pu), float(r.sn_mva), bool(r.in_service)]
                          for r in work.impedance.itertuples()]
                    s_before = [src1[p] if int(i) in sel_l else None for p, i in enumerate(net.xward.index)]
                    s_after = rp.observe_internal_sources(work, ppc2, list(work.impedance.index), list(work.gen.index[n_gen:]))
                    impl += [nb, ng, ni, s_before, s_after]
                fn = "run_wards" if kind == "ward" else "run_xwards"
                terms.append("%s %s %s %s %s %s %s %s %s" % (fn, rp.repl_net_term(net), rp.nats(sel_l), rp.pairs_term(pairs1), rp.pairs_term(pairs2),
                                                          rp.bk_term(bk1), rp.bk_term(bk2), rp.nats(rows1), rp.nats(rows2)))
                # the neutrality itself on the real code: same PD QD GS BS on every row of an old bus
                r2 = dict(pairs2)
                same = all(rp.close(u, v) for bb, r in pairs1 for u, v in zip(vals1[r], vals2[r2[bb]]))
                checks.append((kind, impl, desc, same))
                ctx.count("repl_corr:%s:%s" % (kind, "all" if sel is None else "subset"))
                ctx.count("repl_corr:sn_mva=%g" % net.sn_mva)
            else:
                slack = rng.random() < 0.85
                cva = rng.random() < 0.7
                with_res = rng.random() < 0.5
                if with_res:
                    try:
                        pp.runpp(work, numba=False, calculate_voltage_angles=cva)
                    except Exception:
                        with_res = False
                resp = []
                if with_res:
                    resp = [(int(i), float(work.res_ext_grid.p_mw.at[i])) for i in work.res_ext_grid.index]
                    if any(v != v for _, v in resp):
                        continue
                ppc1 = rp.fresh_ppc(net, cva)
                lk1 = net._pd2ppc_lookups["bus"]
                v1 = []
                for e in net.ext_grid.itertuples():
                    r = int(lk1[e.bus])
                    t = int(ppc1["bus"][r, BUS_TYPE])
                    v1.append([t == 3, t == 2, float(ppc1["bus"][r, VM]), float(ppc1["bus"][r, VA])] if e.in_service and net.bus.in_service.at[e.bus] else None)
                n_gen = len(work.gen)
                tb.replace_ext_grid_by_gen(work, slack=slack)
                ng = [[int(r.bus), float(r.p_mw), float(r.vm_pu), float(r.scaling), bool(r.slack), bool(r.in_service)] for r in work.gen.iloc[n_gen:].itertuples()]
                v2 = None
                if slack:
                    ppc2 = rp.fresh_ppc(work, cva)
                    lk2 = work._pd2ppc_lookups["bus"]
                    v2 = []
                    for g in work.gen.iloc[n_gen:].itertuples():
                        r = int(lk2[g.bus])
                        t = int(ppc2["bus"][r, BUS_TYPE])
                        v2.append([t == 3, t == 2, float(ppc2["bus"][r, VM]), float(ppc2["bus"][r, VA])] if g.in_service and work.bus.in_service.at[g.bus] else None)
                impl = [ng, [int(i) for i in work.ext_grid.index], v1, v2]
                terms.append("run_egrids %s %s %s %s %s" % (rp.repl_net_term(net), cq.b(slack), cq.b(cva),
                                                         cq.lst(["(%d%%nat, %s)" % (i, rp.q(v)) for i, v in resp]),
                                                         rp.nats([int(i) for i in net.ext_grid.index])))
                desc.update({"slack": slack, "cva": cva, "with_res": with_res})
                checks.append((kind, impl, desc, True))
                ctx.count("repl_corr:ext_grid:slack=%s:va=%s" % (slack, "0" if all(v == 0 for v in net.ext_grid.va_degree.values) else "nonzero"))
        except Exception as e:
            ctx.violation("spec", "replace_%s raises %s: %s" % (kind, type(e).__name__, str(e)[:200]), desc)
            continue
        ctx.case({"kind": kind, "sel": desc.get("sel"), "net": desc["net"][:1500]}, nontrivial=True,
                 sample={"kind": kind, "sel": desc.get("sel"), "sn_mva": float(net.sn_mva)} if k < 3 else None)
    model = ctx.coq_eval("c23r", "Base.QN C23.Repl", terms, shard=10, timeout=280)
    for (kind, impl, desc, same), m in zip(checks, model):
        ctx.corr_checked += 1
        if isinstance(m, cq.Err):
            ctx.disagreement("replace_%s returned normally, model raises %s" % (kind, m.s), desc)
            continue
        if kind == "ext_grid":
            ng, left, v1, v2 = impl
            if not rp.close_rows(ng, m[0]) or left != m[1]:
                ctx.disagreement("replace_ext_grid_by_gen: created gens / remaining ext_grids differ: impl=%s model=%s" % ((ng, left), (m[0], m[1])), desc)
            elif not _vref_same(v1, m[2]) or (v2 is not None and not _vref_same(v2, m[3])):
                ctx.disagreement("ext_grid / gen reference data in the ppc differ: impl=%s model=%s" % ((v1, v2), (m[2], m[3])), desc)
            continue
        names = ["created loads", "created shunts", "remaining %s index" % kind, "PD QD GS BS before", "PD QD GS BS after",
                 "created buses", "created gens", "created impedances", "xward source (branch, PV set point) before", "internal source after"]
        for j, (a, c) in enumerate(zip(impl, m)):
            # an xward at an out-of-service bus: the created bus + gen form an island that the connectivity check takes out of
            # service (outside C23/Repl.v): the on/off flag of the internal source is compared for in-service buses only
            ok = (a == c) if j == 2 else (_src_same(a, c, flag=(j == 8 or desc["xward_buses_in_service"])) if j >= 8 else rp.close_rows(a, c))
            if not ok:
                ctx.disagreement("replace_%s_by_internal_elements: %s differ: impl=%s model=%s" % (kind, names[j], a, c), desc)
                break
        if not same:
            ctx.violation("spec", "replace_%s_by_internal_elements changes PD/QD/GS/BS of a ppc bus row" % kind, desc)
        if kind == "xward":
            # the voltage source itself on the real build: created impedance + gen == internal branch + PV node of the xward
            sb_, sa_ = [x for x in impl[8] if x is not None], impl[9]
            if desc["sel"] is None and desc["xward_buses_in_service"] and not _src_same(sb_, sa_):
                ctx.violation("spec", "replace_xward_by_internal_elements: impedance + gen differ from the xward's internal branch + PV node: %s vs %s" % (sb_, sa_), desc)


def _vref_same(a, c):
    if len(a) != len(c):
        return False
    for x, y in zip(a, c):
        if x is None or y is None:
            if (x is None) != (y is None):
                return False
            continue
        if [bool(x[0]), bool(x[1])] != [bool(y[0]), bool(y[1])] or not rp.close(x[2], y[2]) or not rp.close(x[3], y[3]):
            return False
    return True


def _src_same(a, c, flag=True):
    if len(a) != len(c):
        return False
    for x, y in zip(a, c):
        if x is None or y is None:
            if (x is None) != (y is None):
                return False
            continue
        if not flag:
            x, y = x[:-1], y[:-1]
        if len(x) != len(y) or not all(rp.close(u, v) for u, v in zip(x, y)):
            return False
    return True


def fuse_correspondence(ctx, rng):
    """fuse_buses over a closed bus-bus switch: the tables after the real fuse_buses and the bus -> ppc row partition of a fresh
    power flow build before / after vs coq/C23/Fuse.v (fuse_buses on C07.Model.net, rep = C07 lookup)"""
    terms, checks = [], []
    for k in range(ctx.n(24, 300)):
        net = rich_net(rng)
        bb = [(int(a), int(e), bool(c), float(z)) for a, e, et, c, z in zip(net.switch.bus.values, net.switch.element.values, net.switch.et.values,
                                                                      net.switch.closed.values, net.switch.z_ohm.values) if et == "b" and a != e]
        if not bb:
            continue
        if rng.random() < 0.25:
            net.switch.loc[net.switch.et == "b", "z_ohm"] = rng.choice([0.0, 0.5])
        a, e, closed, z = rng.choice(bb)
        if rng.random() < 0.5:
            a, e = e, a
        desc = {"b1": a, "b2": e, "net": pp.to_json(net)}
        work = copy.deepcopy(net)
        try:
            rp.fresh_ppc(net)
            part1 = rp.lookup_partition(net)
            tb.fuse_buses(work, a, [e])
            rp.fresh_ppc(work)
            part2 = rp.lookup_partition(work)
        except Exception as ex:
            ctx.violation("spec", "fuse_buses raises %s: %s" % (type(ex).__name__, str(ex)[:200]), desc)
            continue
        terms.append("run_fuse %s %d%%nat %d%%nat" % (c07_gen.net_term(net), a, e))
        checks.append((net, work, a, e, part1, part2, desc))
        ctx.case({"b1": a, "b2": e, "net": desc["net"][:1500]}, nontrivial=True, sample={"b1": a, "b2": e} if k < 2 else None)
    model = ctx.coq_eval("c23f", "C07.Model C23.Fuse", terms, shard=12, timeout=280)
    for (net, work, a, e, part1, part2, desc), m in zip(checks, model):
        ctx.corr_checked += 1
        m_net, m_rep1, m_rep2, g = m
        impl_tabs = rp.topo_lists(work)
        if impl_tabs != [[list(r) for r in t] for t in m_net]:
            names = ["bus", "line", "trafo", "trafo3w", "impedance", "dcline", "xward", "switch", "bus elements"]
            bad = [names[j] for j in range(9) if impl_tabs[j] != [list(r) for r in m_net[j]]]
            ctx.disagreement("fuse_buses: tables %s differ after fusing %d <- %d" % (bad, a, e), desc)
            continue
        isb1 = [int(x) for x in net.bus.index if net.bus.in_service.at[x]]
        isb2 = [int(x) for x in work.bus.index if work.bus.in_service.at[x]]
        mp1 = rp.partition_of(dict((int(x), int(r)) for x, r in m_rep1), isb1)
        mp2 = rp.partition_of(dict((int(x), int(r)) for x, r in m_rep2), isb2)
        if mp1 != part1 or mp2 != part2:
            ctx.disagreement("bus -> ppc row partition: impl before %s after %s, model before %s after %s" % (part1, part2, mp1, mp2), desc)
            continue
        # python twin of G23f
        isb = set(isb1)
        g_py = a != e and any(et == "b" and c and not (zz > 0) and int(x) in isb and int(y) in isb and {int(x), int(y)} == {a, e}
                              for x, y, et, c, zz in zip(net.switch.bus.values, net.switch.element.values, net.switch.et.values,
                                                         net.switch.closed.values, net.switch.z_ohm.values))
        if bool(g) != g_py:
            ctx.disagreement("guard G23f: model %s, python twin %s" % (g, g_py), desc)
            continue
        ctx.count("fuse_corr:G23f=%s" % g_py)
        # the theorem's statement on the real code: under G23f the partition is unchanged (b2 mapped to b1)
        mapped = sorted(sorted(set(a if x == e else x for x in c)) for c in part1)
        if g_py and mapped != part2:
            ctx.violation("spec", "fuse_buses over a closed zero-impedance switch changes the bus -> ppc row partition: %s -> %s" % (part1, part2), desc)


def structural_oracle(ctx, rng):
    for k in range(ctx.n(40, 450)):
        net = rich_net(rng)
        b20 = [int(x) for x in net.bus.index if net.bus.vn_kv.at[x] == 20.0]
        if rng.random() < 0.4:
            pp.create_xward(net, rng.choice(b20), 0.125, 0.0625, 0.25, 0.125, 0.5, 1.0, 1.0)
        try:
            pp.runpp(net, numba=False)
        except Exception:
            ctx.count("structural_base_not_converged")
            continue
        before = vm(net)
        if any(v == v and not 0.7 < v < 1.3 for v, _ in before.values()):
            ctx.count("structural_base_implausible")      # a low-voltage solution of the NR iteration: not a reference
            continue
        has_open_t3 = any(et == "t3" and not c for et, c in zip(net.switch.et.values, net.switch.closed.values))
        for name, sel, fn in structural_transformations(rng, net):
            work = copy.deepcopy(net)
            case = {"transformation": name, "targets": sel, "net": pp.to_json(net)}
            known = None
            if name == "drop_inactive_elements":
                # a trafo3w in service with one side unsupplied (e.g. behind an open switch) and the others supplied
                for h, m_, l, ins in zip(net.trafo3w.hv_bus.values, net.trafo3w.mv_bus.values, net.trafo3w.lv_bus.values,
                                         net.trafo3w.in_service.values):
                    nan = [before[int(b)][0] != before[int(b)][0] for b in (h, m_, l)]
                    if ins and any(nan) and not all(nan):
                        known = "C23-drop-inactive-trafo3w-open-side"
            try:
                mapping = fn(work)
                if isinstance(mapping, tuple) and mapping[0] == "newnet":
                    work, mapping = mapping[1], None
                pp.runpp(work, numba=False)
            except Exception as e:
                ctx.count("raised:%s:%s" % (name, type(e).__name__))
                ctx.case({"t": name, "k": k, "net": case["net"][:1500]}, nontrivial=False)
                ctx.violation("spec", "%s raises %s: %s" % (name, type(e).__name__, str(e)[:200]), case)
                continue
            dev = same_bus_results(before, vm(work), mapping if isinstance(mapping, dict) else None)
            ctx.case({"t": name, "targets": sel, "k": k, "net": case["net"][:3000]}, nontrivial=True)
            ctx.count("oracle:" + name)
            if dev > TOL and known == "C23-select-subnet-drops-t3-switches":
                # exactly the recorded defect?  put the lost t3 switches back: the deviation must vanish
                try:
                    w3 = copy.deepcopy(work)
                    lost = net.switch[(net.switch.et == "t3") & net.switch.bus.isin(w3.bus.index) &
                                      net.switch.element.isin(w3.trafo3w.index) & ~net.switch.index.isin(w3.switch.index)]
                    w3.switch = pd.concat([w3.switch, lost])
                    pp.runpp(w3, numba=False)
                    if same_bus_results(before, vm(w3)) > TOL:
                        known = None
                except Exception:
                    known = None
            if dev > TOL and known == "C23-xward-internal-elements-sn-mva":
                # exactly the recorded defect?  rescale the created impedances by net.sn_mva: the deviation must vanish
                try:
                    w3 = copy.deepcopy(work)
                    newimp = [i for i in w3.impedance.index if i not in net.impedance.index]
                    w3.impedance.loc[newimp, ["rft_pu", "xft_pu", "rtf_pu", "xtf_pu"]] *= float(net.sn_mva)
                    pp.runpp(w3, numba=False)
                    if same_bus_results(before, vm(w3)) > TOL:
                        known = None
                except Exception:
                    known = None
            if dev > TOL:
                ctx.count("violation:%s:%s" % (known or "spec", name))
                ctx.violation(known or "spec", "%s changes bus results by %.3g (f_hz=%s sn_mva=%s)" % (name, dev, net.f_hz, net.sn_mva), case)


def replay(ctx, rec):
    ctx.notes.append("replay: generators re-run with the recorded seed")
    run(ctx)
