"""C23 — result-preserving toolbox transformations preserve power flow results.

Correspondence: replace_line_by_impedance / merge_parallel_line on line tables with shuffled, gapped indices: the created
impedance parameters (or the exception class) vs C23.Model.line_to_imp (label access and positional access kept apart).
Oracle: runpp before and after each transformation on mapped buses/elements."""
import copy, json, math, os, glob
from fractions import Fraction
import numpy as np
import pandas as pd
import pandapower as pp
import pandapower.toolbox as tb
from vf import coqrun as cq, nets

RULE = ("meshed 20 kV nets (4-8 buses, optional 110 kV feeder) with shuffled gapped bus/line indices in 60 % of the cases; "
        "each transformation applied at random applicable targets; non-trivial = the transformation changed at least one table "
        "and the power flow converged before and after")
ASSUMPTIONS = ["runpp (Newton-Raphson) is an oracle; results compared within 1e-6 pu / 1e-5 MW",
               "equal ppc branch parameters imply equal results (C02/C05 machinery); here only the parameter algebra is proved"]
TRUSTED = ["mapping of buses/elements before/after each transformation in props/c23.py"]
TOL = 1e-6


def q(x):
    return cq.q(Fraction(float(x)))


def line_tab_term(net):
    rows = []
    for i in net.line.index:
        l = net.line.loc[i]
        rows.append("(Build_line %d %s %s %s %s %s %s %s)" % (int(i), q(l.r_ohm_per_km), q(l.x_ohm_per_km), q(l.c_nf_per_km),
                                                              q(l.g_us_per_km), q(l.length_km), q(l.parallel),
                                                              q(net.bus.vn_kv.at[l.from_bus])))
    return cq.lst(rows)


def vm(net):
    return {int(b): (float(net.res_bus.vm_pu.at[b]), float(net.res_bus.va_degree.at[b])) for b in net.bus.index}


def same_bus_results(a, b, mapping=None):
    worst = 0.0
    for k, (v, ang) in a.items():
        k2 = mapping.get(k, k) if mapping else k
        if k2 not in b:
            continue
        v2, a2 = b[k2]
        if math.isnan(v) and math.isnan(v2):
            continue
        if math.isnan(v) != math.isnan(v2):
            return float("inf")
        worst = max(worst, abs(v - v2), abs(ang - a2) / 100.0)
    return worst


def gen_net(rng, shuffle=None):
    sh = rng.random() < 0.6 if shuffle is None else shuffle
    net = nets.rand_net(rng, nb=rng.randint(4, 8), chords=rng.randint(1, 2), n_trafo=rng.choice([0, 1]), shuffle_index=sh,
                        line_params=True)
    net.line["c_nf_per_km"] = [rng.choice([0.0, 0.0, 160.0]) for _ in net.line.index]
    net.line["g_us_per_km"] = 0.0
    return net


def rich_net(rng):
    """net for the structural transformations: coinciding indices across tables (bus / line / trafo / switch ids drawn
    from the same small range), f_hz in {50, 60, 16.7}, sn_mva in {1, 10, 100}, line capacitance, open and closed switches of
    all kinds (b, l, t, t3), out-of-service lines / trafos / loads / buses, sometimes an unsupplied second island"""
    shuffle = rng.random() < 0.4
    net = nets.rand_net(rng, nb=rng.randint(4, 7), chords=rng.randint(1, 2), n_trafo=2, shuffle_index=shuffle,
                        n_trafo3w=rng.choice([0, 0, 1]), oos=rng.choice([0.0, 0.15, 0.3]), line_params=True)
    if len(net.trafo3w):                       # same vector group as the parallel 2W transformers (no circulating currents)
        net.trafo3w["shift_mv_degree"] = 150.0
        net.trafo3w["shift_lv_degree"] = 150.0
    net.f_hz = rng.choice([50.0, 50.0, 60.0, 16.7])
    net.sn_mva = rng.choice([1.0, 1.0, 10.0, 100.0])
    net.line["c_nf_per_km"] = [rng.choice([0.0, 160.0, 256.0]) for _ in net.line.index]
    mvb = [int(x) for x in net.bus.index if net.bus.vn_kv.at[x] == 20.0]
    free = [i for i in range(0, 40) if i not in set(net.bus.index)]
    # a bus behind a closed bus-bus switch (fusable), and a normally-open tie
    nbus = pp.create_bus(net, 20.0, index=rng.choice(free[:6]))
    pp.create_load(net, nbus, 0.25, 0.125)
    pp.create_switch(net, rng.choice(mvb), nbus, et="b", closed=True)
    if len(mvb) > 2 and rng.random() < 0.6:
        a, b = rng.sample(mvb, 2)
        pp.create_switch(net, a, b, et="b", closed=False)
    # line switches: mostly closed, some open; indices of lines / trafos / buses coincide on purpose
    for li in rng.sample(list(net.line.index), min(len(net.line), rng.randint(1, 3))):
        pp.create_switch(net, int(net.line.at[li, rng.choice(["from_bus", "to_bus"])]), int(li), et="l", closed=rng.random() < 0.5)
    for ti in net.trafo.index:
        if rng.random() < 0.6:
            pp.create_switch(net, int(net.trafo.at[ti, rng.choice(["hv_bus", "lv_bus"])]), int(ti), et="t",
                             closed=(ti == net.trafo.index[0]) or rng.random() < 0.5)
    for ti in net.trafo3w.index:
        if rng.random() < 0.7:
            pp.create_switch(net, int(net.trafo3w.at[ti, rng.choice(["mv_bus", "lv_bus"])]), int(ti), et="t3",
                             closed=rng.random() < 0.5)
    for i in net.load.index:
        if rng.random() < 0.15:
            net.load.at[i, "in_service"] = False
    if rng.random() < 0.3:                       # unsupplied island
        i1, i2 = [pp.create_bus(net, 20.0) for _ in range(2)]
        pp.create_line_from_parameters(net, i1, i2, 1.0, 0.25, 0.125, 160.0, 0.5)
        pp.create_load(net, i2, 0.125, 0.0)
    return net


def component_of_ext_grid(net):
    """buses of the graph component (switch states ignored, every branch element an edge) that holds the ext_grids"""
    adj = {int(b): set() for b in net.bus.index}
    def edge(a, b):
        adj[int(a)].add(int(b)); adj[int(b)].add(int(a))
    for t, cols in (("line", ("from_bus", "to_bus")), ("trafo", ("hv_bus", "lv_bus")), ("impedance", ("from_bus", "to_bus"))):
        for a, b in zip(net[t][cols[0]].values, net[t][cols[1]].values):
            edge(a, b)
    for h, m_, l in zip(net.trafo3w.hv_bus.values, net.trafo3w.mv_bus.values, net.trafo3w.lv_bus.values):
        edge(h, m_); edge(h, l)
    for b, e, et in zip(net.switch.bus.values, net.switch.element.values, net.switch.et.values):
        if et == "b":
            edge(b, e)
    seen, todo = set(), [int(b) for b in net.ext_grid.bus.values]
    while todo:
        x = todo.pop()
        if x not in seen:
            seen.add(x)
            todo.extend(adj[x] - seen)
    return sorted(seen)


def structural_transformations(rng, net):
    out = []
    comp = component_of_ext_grid(net)
    out.append(("select_subnet_supplied_island", comp,
                lambda n: ("newnet", tb.select_subnet(n, list(comp), include_results=False))))
    closed_bb = [(int(b), int(e)) for b, e, et, c in zip(net.switch.bus.values, net.switch.element.values, net.switch.et.values,
                                                      net.switch.closed.values) if et == "b" and c and b != e]
    if closed_bb:
        a, b = rng.choice(closed_bb)
        if rng.random() < 0.5:
            a, b = b, a
        out.append(("fuse_buses_closed_switch", [a, b], lambda n, a=a, b=b: tb.fuse_buses(n, a, [b]) or {b: a}))
    out.append(("drop_out_of_service_elements", [], lambda n: tb.drop_out_of_service_elements(n)))
    out.append(("drop_inactive_elements", [], lambda n: tb.drop_inactive_elements(n)))
    out.append(("create_continuous_elements_index", [], lambda n: _cont(n)))
    if len(net.xward):
        out.append(("replace_xward_by_internal_elements", [], lambda n: tb.replace_xward_by_internal_elements(n)))
    return out


def transformations(rng, net):
    """list of (name, function(net) -> bus mapping or None, classification guard)"""
    out = []
    zero_c = [int(i) for i in net.line.index if net.line.c_nf_per_km.at[i] == 0 and net.line.in_service.at[i]]
    if zero_c:
        sel = rng.sample(zero_c, rng.randint(1, len(zero_c)))
        out.append(("replace_line_by_impedance", sel, lambda n, sel=sel: tb.replace_line_by_impedance(n, index=list(sel)) and None))
        out.append(("line_impedance_round_trip", sel, lambda n, sel=sel: tb.replace_impedance_by_line(
            n, index=tb.replace_line_by_impedance(n, index=list(sel))) and None))
    par = [int(i) for i in net.line.index if net.line.parallel.at[i] > 1]
    if par:
        i = rng.choice(par)
        out.append(("merge_parallel_line", [i], lambda n, i=i: tb.merge_parallel_line(n, i) and None))
    out.append(("replace_ext_grid_by_gen", [], lambda n: tb.replace_ext_grid_by_gen(n, slack=True) and None))
    out.append(("create_continuous_bus_index", [], lambda n: tb.create_continuous_bus_index(n, start=rng.choice([0, 3]))))
    out.append(("create_continuous_elements_index", [], lambda n: _cont(n)))
    out.append(("drop_out_of_service_elements", [], lambda n: tb.drop_out_of_service_elements(n)))
    out.append(("drop_inactive_elements", [], lambda n: tb.drop_inactive_elements(n)))
    return out


def _cont(n):
    old = sorted(int(b) for b in n.bus.index)
    tb.create_continuous_elements_index(n)
    return dict(zip(old, range(len(old))))


def extra_elements(rng, net):
    """wards / xwards / closed bus-bus switches for the corresponding transformations"""
    b = [int(x) for x in net.bus.index if net.bus.vn_kv.at[x] == 20.0]
    if rng.random() < 0.5:
        pp.create_ward(net, rng.choice(b), 0.125, 0.0625, 0.25, 0.125, index=rng.randrange(5))
    if rng.random() < 0.5:
        pp.create_xward(net, rng.choice(b), 0.125, 0.0625, 0.25, 0.125, 0.5, 1.0, 1.0, index=rng.randrange(5))


def run(ctx):
    rng = ctx.rng
    terms, expect, descs = [], [], []
    # ---------------- correspondence: replace_line_by_impedance parameters
    for k in range(ctx.n(60, 700)):
        net = gen_net(rng)
        ident = list(net.line.index) == list(range(len(net.line)))
        cand = [int(i) for i in net.line.index if net.line.c_nf_per_km.at[i] == 0]
        if not cand:
            continue
        sel = rng.sample(cand, rng.randint(1, len(cand)))
        sel = [i for i in net.line.index if i in sel]           # net.line.loc[index] order = given order; keep table order
        work = copy.deepcopy(net)
        exc, params = None, None
        try:
            new = tb.replace_line_by_impedance(work, index=list(sel))
            params = [[Fraction(float(work.impedance.rft_pu.at[j])), Fraction(float(work.impedance.xft_pu.at[j])),
                       Fraction(float(work.impedance.sn_mva.at[j]))] for j in new]
        except Exception as e:
            exc = type(e).__name__
        terms.append("run_replace %s %s %s" % (line_tab_term(net), q(net.sn_mva), cq.lst(["(%d)%%Z" % i for i in sel])))
        expect.append((exc, params))
        descs.append({"line_index": [int(i) for i in net.line.index], "selected": sel, "net": pp.to_json(net)})
        ctx.case({"line_index": [int(i) for i in net.line.index], "sel": sel}, nontrivial=True,
                 sample={"line_index": [int(i) for i in net.line.index], "selected": sel, "raised": exc} if k < 3 else None)
        ctx.count("replace_corr_identity_index" if ident else "replace_corr_shuffled_index")
    model = ctx.coq_eval("c23", "Base.QN C23.Model", terms, shard=20, timeout=280)
    for (exc, params), m, d in zip(expect, model, descs):
        ctx.corr_checked += 1
        errs = [x for x in m if isinstance(x, cq.Err)]
        if exc is not None:
            if not errs or errs[0].s != exc:
                ctx.disagreement("replace_line_by_impedance raises %s, model %s" % (exc, m), d)
            continue
        if errs:
            ctx.disagreement("replace_line_by_impedance returned normally, model raises %s" % errs[0].s, d)
            continue
        for a, b in zip(params, m):
            if any(abs(float(x) - float(y)) > 1e-9 * max(1.0, abs(float(x))) for x, y in zip(a, b)):
                ctx.disagreement("impedance parameters differ: impl=%s model=%s" % ([float(x) for x in a], [float(y) for y in b]), d)
                break
    # ---------------- correspondence: merge_parallel_line parameters
    mterms, mexp, mdesc = [], [], []
    for k in range(ctx.n(40, 400)):
        net = gen_net(rng)
        i = int(rng.choice(list(net.line.index)))
        net.line.at[i, "parallel"] = rng.choice([2, 3, 4])
        net.line.at[i, "g_us_per_km"] = rng.choice([0.0, 4.0])
        l = net.line.loc[i]
        mterms.append("run_merge (Build_line %d %s %s %s %s %s %s %s)" % (i, q(l.r_ohm_per_km), q(l.x_ohm_per_km), q(l.c_nf_per_km),
                                                                         q(l.g_us_per_km), q(l.length_km), q(l.parallel), q(20.0)))
        work = copy.deepcopy(net)
        tb.merge_parallel_line(work, i)
        w = work.line.loc[i]
        mexp.append([float(w.r_ohm_per_km), float(w.x_ohm_per_km), float(w.c_nf_per_km), float(w.g_us_per_km), float(w.parallel)])
        mdesc.append({"line": {c: float(l[c]) for c in ("r_ohm_per_km", "x_ohm_per_km", "c_nf_per_km", "g_us_per_km", "length_km", "parallel")}})
        ctx.case(mdesc[-1], nontrivial=True)
        ctx.count("merge_corr")
    for e, m_, d in zip(mexp, ctx.coq_eval("c23m", "Base.QN C23.Model", mterms, shard=40, timeout=280), mdesc):
        ctx.corr_checked += 1
        if any(abs(a - float(b)) > 1e-9 * max(1.0, abs(a)) for a, b in zip(e, m_)):
            ctx.disagreement("merge_parallel_line parameters differ: impl=%s model=%s" % (e, [float(b) for b in m_]), d)
    # ---------------- oracle: power flow results before / after
    for k in range(ctx.n(45, 500)):
        net = gen_net(rng)
        extra_elements(rng, net)
        try:
            pp.runpp(net, numba=False)
        except Exception:
            ctx.count("oracle_base_not_converged")
            continue
        before = vm(net)
        ident = list(net.line.index) == list(range(len(net.line)))
        ts = transformations(rng, net)
        if len(net.ward):
            ts.append(("replace_ward_by_internal_elements", [], lambda n: tb.replace_ward_by_internal_elements(n)))
        if len(net.xward):
            ts.append(("replace_xward_by_internal_elements", [], lambda n: tb.replace_xward_by_internal_elements(n)))
        for name, sel, fn in rng.sample(ts, min(len(ts), 4)):
            work = copy.deepcopy(net)
            case = {"transformation": name, "targets": sel, "net": pp.to_json(net)}
            known = None
            try:
                mapping = fn(work)
                pp.runpp(work, numba=False)
            except Exception as e:
                ctx.count("raised:%s:%s" % (name, type(e).__name__))
                ctx.case({"t": name, "net": case["net"][:2000]}, nontrivial=False)
                if name.startswith("drop_") or name.startswith("create_cont"):
                    ctx.violation("spec", "%s: %s: %s" % (name, type(e).__name__, e), case)
                else:
                    ctx.violation("spec", "%s raises %s: %s" % (name, type(e).__name__, str(e)[:200]), case)
                continue
            dev = same_bus_results(before, vm(work), mapping if isinstance(mapping, dict) else None)
            ctx.case({"t": name, "targets": sel, "net": case["net"][:3000]}, nontrivial=True)
            ctx.count("oracle:" + name)
            if dev > TOL and name == "replace_ext_grid_by_gen" and any(float(v) != 0.0 for v in net.ext_grid.va_degree.values):
                # a slack gen has no angle set point: is the deviation exactly a uniform shift by the ext_grid angle?
                after = vm(work)
                sh = float(net.ext_grid.va_degree.values[0])
                shifted = {b: (v, a - sh) for b, (v, a) in before.items()}
                if same_bus_results(shifted, after) <= TOL:
                    known = "C23-ext-grid-by-gen-loses-va-degree"
            if dev > TOL:
                ctx.violation(known or "spec", "%s changes bus results by %.3g (line index %s)" % (
                    name, dev, [int(i) for i in net.line.index]), case)
        # merge of two disjoint nets: block diagonal
        if k % 3 == 0:
            net2 = gen_net(rng)
            try:
                pp.runpp(net2, numba=False)
                merged, lk = tb.merge_nets(net, net2, validate=False, return_net2_reindex_lookup=True, net2_reindex_log_level=None)
                pp.runpp(merged, numba=False)
            except Exception as e:
                ctx.violation("spec", "merge_nets of two solvable nets raises %s: %s" % (type(e).__name__, str(e)[:200]),
                              {"net1": pp.to_json(net), "net2": pp.to_json(net2)})
                continue
            d1 = same_bus_results(before, vm(merged))
            d2 = same_bus_results(vm(net2), vm(merged), lk.get("bus", {}))
            ctx.case({"t": "merge_nets", "n1": len(net.bus), "n2": len(net2.bus), "k": k}, nontrivial=True)
            ctx.count("oracle:merge_nets")
            if max(d1, d2) > TOL:
                ctx.violation("spec", "merge_nets of disjoint nets changes bus results by %.3g" % max(d1, d2),
                              {"net1": pp.to_json(net), "net2": pp.to_json(net2)})
    structural_oracle(ctx, rng)


def structural_oracle(ctx, rng):
    for k in range(ctx.n(40, 450)):
        net = rich_net(rng)
        b20 = [int(x) for x in net.bus.index if net.bus.vn_kv.at[x] == 20.0]
        if rng.random() < 0.4:
            pp.create_xward(net, rng.choice(b20), 0.125, 0.0625, 0.25, 0.125, 0.5, 1.0, 1.0)
        try:
            pp.runpp(net, numba=False)
        except Exception:
            ctx.count("structural_base_not_converged")
            continue
        before = vm(net)
        if any(v == v and not 0.7 < v < 1.3 for v, _ in before.values()):
            ctx.count("structural_base_implausible")      # a low-voltage solution of the NR iteration: not a reference
            continue
        has_open_t3 = any(et == "t3" and not c for et, c in zip(net.switch.et.values, net.switch.closed.values))
        for name, sel, fn in structural_transformations(rng, net):
            work = copy.deepcopy(net)
            case = {"transformation": name, "targets": sel, "net": pp.to_json(net)}
            known = None
            if name == "drop_inactive_elements":
                # a trafo3w in service with one side unsupplied (e.g. behind an open switch) and the others supplied
                for h, m_, l, ins in zip(net.trafo3w.hv_bus.values, net.trafo3w.mv_bus.values, net.trafo3w.lv_bus.values,
                                         net.trafo3w.in_service.values):
                    nan = [before[int(b)][0] != before[int(b)][0] for b in (h, m_, l)]
                    if ins and any(nan) and not all(nan):
                        known = "C23-drop-inactive-trafo3w-open-side"
            try:
                mapping = fn(work)
                if isinstance(mapping, tuple) and mapping[0] == "newnet":
                    work, mapping = mapping[1], None
                pp.runpp(work, numba=False)
            except Exception as e:
                ctx.count("raised:%s:%s" % (name, type(e).__name__))
                ctx.case({"t": name, "k": k, "net": case["net"][:1500]}, nontrivial=False)
                ctx.violation("spec", "%s raises %s: %s" % (name, type(e).__name__, str(e)[:200]), case)
                continue
            dev = same_bus_results(before, vm(work), mapping if isinstance(mapping, dict) else None)
            ctx.case({"t": name, "targets": sel, "k": k, "net": case["net"][:3000]}, nontrivial=True)
            ctx.count("oracle:" + name)
            if dev > TOL and known == "C23-select-subnet-drops-t3-switches":
                # exactly the recorded defect?  put the lost t3 switches back: the deviation must vanish
                try:
                    w3 = copy.deepcopy(work)
                    lost = net.switch[(net.switch.et == "t3") & net.switch.bus.isin(w3.bus.index) &
                                      net.switch.element.isin(w3.trafo3w.index) & ~net.switch.index.isin(w3.switch.index)]
                    w3.switch = pd.concat([w3.switch, lost])
                    pp.runpp(w3, numba=False)
                    if same_bus_results(before, vm(w3)) > TOL:
                        known = None
                except Exception:
                    known = None
            if dev > TOL and known == "C23-xward-internal-elements-sn-mva":
                # exactly the recorded defect?  rescale the created impedances by net.sn_mva: the deviation must vanish
                try:
                    w3 = copy.deepcopy(work)
                    newimp = [i for i in w3.impedance.index if i not in net.impedance.index]
                    w3.impedance.loc[newimp, ["rft_pu", "xft_pu", "rtf_pu", "xtf_pu"]] *= float(net.sn_mva)
                    pp.runpp(w3, numba=False)
                    if same_bus_results(before, vm(w3)) > TOL:
                        known = None
                except Exception:
                    known = None
            if dev > TOL:
                ctx.count("violation:%s:%s" % (known or "spec", name))
                ctx.violation(known or "spec", "%s changes bus results by %.3g (f_hz=%s sn_mva=%s)" % (name, dev, net.f_hz, net.sn_mva), case)


def replay(ctx, rec):
    ctx.notes.append("replay: generators re-run with the recorded seed")
    run(ctx)
