"""C13 — controller loop.
Correspondence: run_control on generated nets with DiscreteTapControl / ContinuousTapControl / ConstControl /
CharacteristicControl sets (random levels, orders, in_service, start taps); every is_converged / control_step / run call
(and, for controllers over index arrays / with hunting_limit / TapDependentImpedance, the attribute matrices _hunting_taps and
initial_values after every control_step) is recorded by wrapping the controller methods and the run function; the recorded power-flow results are the oracle
stream fed to C13.Model.run_out, whose call trace (verdicts, written values, outcome) must equal the recorded one.
Oracle: the property's own text on the returned net (every controller converged, band or limit, bounds, fresh results,
ascending order), independent of the model."""
import copy, math, json
import numpy as np
import pandapower as pp
import pandapower.control as pc
from pandapower.control.util.characteristic import Characteristic
from pandapower.control.controller.trafo.TapDependentImpedance import TapDependentImpedance
from fractions import Fraction
from vf import coqrun as cq

RULE = ("radial 110/20/0.4 kV nets with 2-4 transformers (2W and one optional 3W), random loads, 1-5 controllers "
        "(discrete/continuous tap, both sides, const, characteristic Q(V) and tap->vk; about a third of them over index ARRAYS: "
        "DiscreteTapControl / ContinuousTapControl over 1-4 transformers, CharacteristicControl over several sgens, "
        "TapDependentImpedance over one or several transformers with restore on/off; DiscreteTapControl with hunting_limit in "
        "{None,0,1,2,3}) with levels in {0,1,2,[0,1]}, random orders, in_service flags, start taps anywhere in [tap_min,tap_max], "
        "max_iter in {30,3,1,0}; non-trivial = at least one control_step was executed and at least two controllers are in service. "
        "FIXED shares of every run (forced, not left to chance): every 8th case has a lowest level -1 holding only a default "
        "ConstControl (no initial run) below the other controllers; every 8th case has a scalar-index tap controller on a trafo3w "
        "with tap_side mv/lv; 12 second-run cases (run_control, edit the loads, run_control again: fresh results, converged, band "
        "or limit); 12 trafo3w cases cycling over (tap_side, controlled side) with the physical needed-direction check")
ASSUMPTIONS = ["the power flow is an oracle: the model consumes the result vectors recorded from the real run function",
               "nothing_to_do(net) of a tap controller is constant during one run_control call (checked on every is_converged call)",
               "is_converged of tap and const controllers does not write to the element tables (checked by snapshot on every call)"]
ASSUMPTIONS += ["index arrays of one controller list distinct elements (pandas .loc assignment with duplicate labels is not modelled)",
                "vector DiscreteTapControl is created with explicit scalar vm_lower_pu / vm_upper_pu (from_tap_step_percent makes them vectors)"]
TRUSTED = ["method wrappers on the controller instances (is_converged, control_step) and the run= keyword of run_control",
           "the attribute reads _hunting_taps / initial_values after each control_step"]

KF_MULTI = "C13-multilevel-lower-level-disturbed"
KF_CHAR = "C13-characteristic-writes-in-is-converged"
KF_FRAC = "C13-discrete-step-from-fractional-tap"
KF_TDI = "C13-tdi-restore-after-last-calculation"
T2 = ["0.63 MVA 20/0.4 kV", "0.4 MVA 20/0.4 kV", "0.25 MVA 20/0.4 kV"]


_EMPTY = []
PF = dict(numba=False, lightsim2grid=False)


def empty_net():
    if not _EMPTY:
        _EMPTY.append(pp.create_empty_network())
    return copy.deepcopy(_EMPTY[0])


def build_net(rng):
    net = empty_net()
    hv = pp.create_bus(net, 110.0)
    pp.create_ext_grid(net, hv, vm_pu=rng.choice([1.0, 1.02, 0.97, 1.05]))
    mv = pp.create_bus(net, 20.0)
    pp.create_transformer(net, hv, mv, std_type=rng.choice(["25 MVA 110/20 kV", "40 MVA 110/20 kV"]))
    mvs = [mv]
    for k in range(rng.randint(0, 2)):
        b = pp.create_bus(net, 20.0)
        pp.create_line(net, rng.choice(mvs), b, length_km=rng.randint(1, 40) / 4, std_type="NA2XS2Y 1x240 RM/25 12/20 kV")
        mvs.append(b)
    for b in mvs:
        if rng.random() < 0.7:
            pp.create_load(net, b, p_mw=rng.randint(0, 64) / 4, q_mvar=rng.randint(-8, 24) / 4)
    for k in range(rng.randint(1, 3)):
        lv = pp.create_bus(net, 0.4)
        pp.create_transformer(net, rng.choice(mvs), lv, std_type=rng.choice(T2))
        pp.create_load(net, lv, p_mw=rng.randint(0, 40) / 128, q_mvar=rng.randint(-4, 12) / 128)
        if rng.random() < 0.5:
            pp.create_sgen(net, lv, p_mw=rng.randint(0, 48) / 128, q_mvar=0.0)
    if rng.random() < 0.3:
        _add_trafo3w(rng, net, hv)
    # tap data variety
    for t in net.trafo.index:
        if rng.random() < 0.25:
            net.trafo.at[t, "tap_side"] = "lv"
        if rng.random() < 0.1:
            net.trafo.at[t, "tap_step_percent"] = -net.trafo.at[t, "tap_step_percent"]
        if rng.random() < 0.1:
            net.trafo.at[t, "in_service"] = False
        lo, hi = int(net.trafo.at[t, "tap_min"]), int(net.trafo.at[t, "tap_max"])
        net.trafo.at[t, "tap_pos"] = float(rng.choice([lo, hi, 0, rng.randint(lo, hi), rng.randint(lo, hi)]))
    for t in net.trafo3w.index:
        net.trafo3w.at[t, "tap_side"] = rng.choice(["hv", "hv", "mv", "lv"])
        net.trafo3w.at[t, "tap_pos"] = float(rng.randint(-10, 10))
    return net


def _add_trafo3w(rng, net, hv=0):
    m2 = pp.create_bus(net, 20.0)
    l2 = pp.create_bus(net, 10.0)
    pp.create_transformer3w(net, hv, m2, l2, std_type="63/25/38 MVA 110/20/10 kV")
    pp.create_load(net, m2, p_mw=rng.randint(0, 40) / 2, q_mvar=rng.randint(0, 16) / 2)
    pp.create_load(net, l2, p_mw=rng.randint(0, 40) / 2, q_mvar=rng.randint(0, 16) / 2)
    t = net.trafo3w.index[-1]
    net.trafo3w.at[t, "tap_side"] = rng.choice(["hv", "hv", "mv", "lv"])
    net.trafo3w.at[t, "tap_pos"] = float(rng.randint(-10, 10))


def add_controllers(rng, net, allow_frac):
    """returns list of dicts describing the controllers (python objects inside)"""
    descs = []
    n = rng.randint(1, 5)
    levels = [0, 0, 0, 1, 1, 2, [0, 1], 0.5]
    # ties in order are resolved by np.argsort (not stable with the SIMD sort of numpy 2): mostly distinct orders, so that the
    # call trace is determined; cases with ties are checked by the order oracle and the order comparison modulo ties only
    distinct = rng.random() < 0.75
    pool = rng.sample([-1, 0, 0.5, 1, 1.5, 2, 3], 7)
    for k in range(n):
        r = rng.random()
        lev = rng.choice(levels)
        order = pool[k] if distinct else rng.choice([0, 0, 1, 2, -1, 0.5])
        ins = rng.random() < 0.88
        kw = dict(level=lev, order=order, in_service=ins)
        use3w = len(net.trafo3w) > 0 and rng.random() < 0.3
        el = "trafo3w" if use3w else "trafo"
        tid = int(rng.choice(list(net[el].index)))
        side = rng.choice(["lv", "lv", "hv"] + (["mv"] if use3w else []))
        if rng.random() < 0.36:
            _add_vector_controller(rng, net, descs, kw, el, tid, side)
            continue
        if r < 0.4:
            vs = rng.choice([0.96, 0.98, 1.0, 1.0, 1.02, 1.04])
            half = rng.choice([0.01, 0.02, 0.02, 0.03, 0.005])
            if rng.random() < 0.25:
                c = pc.DiscreteTapControl.from_tap_step_percent(net, tid, vm_set_pu=vs, side=side, element=el, **kw)
            else:
                c = pc.DiscreteTapControl(net, tid, vs - half, vs + half, side=side, element=el, **kw)
            descs.append({"type": "disc", "obj": c, "element": el, "tid": tid, "side": side})
        elif r < 0.65:
            if not allow_frac and any(d["type"] == "disc" and d["tid"] == tid and d["element"] == el for d in descs):
                continue
            c = pc.ContinuousTapControl(net, tid, vm_set_pu=rng.choice([0.97, 1.0, 1.0, 1.03, 1.2]),
                                        tol=rng.choice([1e-3, 1e-3, 1e-4, 1e-2]), side=side, element=el,
                                        check_tap_bounds=rng.random() < 0.85, **kw)
            descs.append({"type": "cont", "obj": c, "element": el, "tid": tid, "side": side})
        elif r < 0.8:
            c = pc.ConstControl(net, "load", "p_mw", int(rng.choice(list(net.load.index))), **kw)
            descs.append({"type": "const", "obj": c})
        else:
            if rng.random() < 0.6 and len(net.sgen):
                # Q(V): reads a result, writes sgen.q_mvar
                sg = int(rng.choice(list(net.sgen.index)))
                bus = int(net.sgen.at[sg, "bus"])
                q = rng.choice([0.05, 0.1, 0.2])
                ch = Characteristic(net, [0.94, 0.98, 1.02, 1.06], [q, 0.0, 0.0, -q])
                c = pc.CharacteristicControl(net, "sgen", "q_mvar", sg, "res_bus", "vm_pu", bus, ch.index,
                                             tol=rng.choice([1e-3, 1e-4, 1e-6]), **kw)
                descs.append({"type": "char", "obj": c, "in_res": True, "inp": bus, "out": 2000 + sg,
                              "pts": list(zip(ch.x_vals, ch.y_vals)), "out_el": ("sgen", "q_mvar", sg)})
            else:
                # tap -> vk_percent (no feedback through results)
                t = int(rng.choice(list(net.trafo.index)))
                vk = float(net.trafo.at[t, "vk_percent"])
                lo, hi = float(net.trafo.at[t, "tap_min"]), float(net.trafo.at[t, "tap_max"])
                ch = Characteristic(net, [lo, 0.0, hi], [vk * 0.875, vk, vk * 1.125])
                c = pc.CharacteristicControl(net, "trafo", "vk_percent", t, "trafo", "tap_pos", t, ch.index,
                                             tol=1e-3, **kw)
                descs.append({"type": "char", "obj": c, "in_res": False, "inp": t, "out": 3000 + t,
                              "pts": list(zip(ch.x_vals, ch.y_vals)), "out_el": ("trafo", "vk_percent", t)})
    return descs


def _add_vector_controller(rng, net, descs, kw, el, tid, side):
    """controllers over index arrays, hunting_limit, TapDependentImpedance"""
    r = rng.random()
    ids = list(net[el].index)
    tids = [int(t) for t in rng.sample(ids, rng.randint(1, len(ids)))]
    if r < 0.45:
        vs = rng.choice([0.96, 0.98, 1.0, 1.0, 1.02, 1.04])
        half = rng.choice([0.01, 0.02, 0.02, 0.03, 0.005])
        hl = rng.choice([None, None, 0, 1, 2, 3])
        scalar = rng.random() < 0.3
        idx = tid if scalar else tids
        c = pc.DiscreteTapControl(net, idx, vs - half, vs + half, side=side, element=el, hunting_limit=hl, **kw)
        descs.append({"type": "discv", "obj": c, "element": el, "tids": [tid] if scalar else tids, "side": side,
                      "scalar": scalar, "hl": hl})
    elif r < 0.7:
        c = pc.ContinuousTapControl(net, tids, vm_set_pu=rng.choice([0.97, 1.0, 1.0, 1.03, 1.2]),
                                    tol=rng.choice([1e-3, 1e-3, 1e-4, 1e-2]), side=side, element=el,
                                    check_tap_bounds=rng.random() < 0.85, **kw)
        descs.append({"type": "contv", "obj": c, "element": el, "tids": tids, "side": side, "scalar": False})
    elif r < 0.82 and len(net.sgen) >= 1:
        sgs = [int(x) for x in rng.sample(list(net.sgen.index), rng.randint(1, len(net.sgen)))]
        buses = [int(net.sgen.at[i, "bus"]) for i in sgs]
        q = rng.choice([0.05, 0.1, 0.2])
        ch = Characteristic(net, [0.94, 0.98, 1.02, 1.06], [q, 0.0, 0.0, -q])
        c = pc.CharacteristicControl(net, "sgen", "q_mvar", sgs, "res_bus", "vm_pu", buses, ch.index,
                                     tol=rng.choice([1e-3, 1e-4, 1e-6]), **kw)
        descs.append({"type": "charv", "obj": c, "in_res": True, "ios": [(b, 2000 + i) for b, i in zip(buses, sgs)],
                      "pts": list(zip(ch.x_vals, ch.y_vals)), "out_els": [("sgen", "q_mvar", i) for i in sgs], "tdi": None})
    else:
        # TapDependentImpedance: tap_pos -> vk_percent of the same transformers, restore on/off
        ts = [int(t) for t in rng.sample(list(net.trafo.index), rng.randint(1, len(net.trafo)))]
        scalar = rng.random() < 0.4
        t0 = ts[0]
        vk = float(net.trafo.at[t0, "vk_percent"])
        lo, hi = float(net.trafo.at[t0, "tap_min"]), float(net.trafo.at[t0, "tap_max"])
        ch = Characteristic(net, [lo, 0.0, hi], [vk * 0.875, vk, vk * 1.125])
        restore = rng.random() < 0.5
        c = TapDependentImpedance(net, t0 if scalar else ts, ch.index, restore=restore, **kw)
        if rng.random() < 0.3:
            c.applied = True       # as left by an earlier run_control call (initialize_control does not reset it)
        ts = [t0] if scalar else ts
        descs.append({"type": "charv", "obj": c, "in_res": False, "ios": [(tap_slot("trafo", t), 3000 + t) for t in ts],
                      "pts": list(zip(ch.x_vals, ch.y_vals)), "out_els": [("trafo", "vk_percent", t) for t in ts],
                      "tdi": restore})


def tap_slot(el, tid):
    return tid if el == "trafo" else 1000 + tid


def read_vars(net, descs):
    """element-table values the model tracks: tap_pos of every transformer, outputs of characteristic controls"""
    v = {}
    for t in net.trafo.index:
        v[tap_slot("trafo", int(t))] = float(net.trafo.at[t, "tap_pos"])
    for t in net.trafo3w.index:
        v[tap_slot("trafo3w", int(t))] = float(net.trafo3w.at[t, "tap_pos"])
    for d in descs:
        if d["type"] == "char":
            el, var, i = d["out_el"]
            v[d["out"]] = float(net[el].at[i, var])
        if d["type"] == "charv":
            for (_, slot), (el, var, i) in zip(d["ios"], d["out_els"]):
                v[slot] = float(net[el].at[i, var])
    return v


def read_attrs(d):
    """matrix-valued controller attributes the model tracks (None = not modelled for this controller kind)"""
    c = d["obj"]
    if d["type"] == "discv":
        h = np.asarray(c._hunting_taps, dtype=float)
        h = h.reshape(1, 1) if h.ndim == 0 else (h.reshape(1, -1) if h.ndim == 1 else h)
        return [[float(x) for x in row] for row in h]
    if d["type"] == "charv":
        if d["tdi"]:
            return [[float(x) for x in np.atleast_1d(np.asarray(c.initial_values, dtype=float))]]
        return []
    if d["type"] == "contv":
        return []
    return None


def static_ntd_v(net, d):
    el, side = d["element"], d["side"]
    eg = set(int(b) for b in net.ext_grid.loc[net.ext_grid.in_service, "bus"].values)
    controlled = [bool(net[el].at[t, "in_service"]) and int(net[el].at[t, side + "_bus"]) not in eg for t in d["tids"]]
    return not any(controlled)


def read_res(net):
    if "res_bus" not in net or len(net.res_bus) != len(net.bus):
        return {}
    return {int(b): float(net.res_bus.at[b, "vm_pu"]) for b in net.bus.index}


def table_snapshot(net):
    return {t: net[t].drop(columns=["object"], errors="ignore").to_json() for t in ("trafo", "trafo3w", "load", "sgen")}


def static_ntd(net, d):
    el, tid, side = d["element"], d["tid"], d["side"]
    if tid not in net[el].index:
        return True
    bus = int(net[el].at[tid, side + "_bus"])
    eg = set(int(b) for b in net.ext_grid.loc[net.ext_grid.in_service, "bus"].values)
    return (not bool(net[el].at[tid, "in_service"])) or bus in eg


def fnum(x):
    return None if (x is None or (isinstance(x, float) and math.isnan(x))) else x


def slots_term(dct):
    return cq.lst(["(%s, %s)" % (cq.nat(k), cq.oq(v)) for k, v in sorted(dct.items())])


def one_case(ctx, rng, forced=None):
    allow_frac = rng.random() < 0.15
    net = build_net(rng)
    if forced == "t3mv" and not len(net.trafo3w):
        _add_trafo3w(rng, net)
    descs = add_controllers(rng, net, allow_frac)
    if not descs:
        descs = [{"type": "const", "obj": pc.ConstControl(net, "load", "p_mw", int(net.load.index[0]))}]
    if forced == "lowconst":
        # FIXED share: a lowest level (-1) whose only controller needs no initial power flow (default ConstControl,
        # initial_run=False) below the levels >= 0 of the other controllers (check_for_initial_run must look at ALL levels)
        descs.append({"type": "const", "obj": pc.ConstControl(net, "load", "p_mw", int(net.load.index[0]))})
        if not any(d["type"] in ("disc", "cont", "discv", "contv") for d in descs):
            tid = int(net.trafo.index[0])
            descs.append({"type": "disc", "obj": pc.DiscreteTapControl(net, tid, 0.99, 1.01, side="lv", level=1, order=7),
                          "element": "trafo", "tid": tid, "side": "lv"})
    if forced == "t3mv":
        # FIXED share: scalar-index tap controller on a three-winding transformer whose tap changer sits on the MV (or LV) winding
        t3 = int(net.trafo3w.index[0])
        net.trafo3w.at[t3, "tap_side"] = rng.choice(["mv", "mv", "lv"])
        net.trafo3w.at[t3, "in_service"] = True
        sd = "mv" if net.trafo3w.at[t3, "tap_side"] == "mv" else "lv"
        vs = rng.choice([0.97, 1.0, 1.03])
        if rng.random() < 0.6:
            c = pc.DiscreteTapControl(net, t3, vs - 0.01, vs + 0.01, side=sd, element="trafo3w", level=0, order=7)
            descs.append({"type": "disc", "obj": c, "element": "trafo3w", "tid": t3, "side": sd})
        else:
            c = pc.ContinuousTapControl(net, t3, vm_set_pu=vs, tol=1e-3, side=sd, element="trafo3w", level=0, order=7)
            descs.append({"type": "cont", "obj": c, "element": "trafo3w", "tid": t3, "side": sd})
    if forced:
        ctx.count("forced_" + forced)
    max_iter = rng.choice([30, 30, 30, 30, 3, 1, 0, 8])
    cel = rng.random() < 0.9
    cod = rng.random() < 0.1
    trace = []
    stream = []
    notes = []
    by_idx = {}
    for d in descs:
        c = d["obj"]
        d["cid"] = int(c.index)
        by_idx[d["cid"]] = d

    def wrap(d):
        c = d["obj"]
        ic, cs = c.is_converged, c.control_step

        def is_conv(n):
            before = table_snapshot(n) if d["type"] in ("disc", "cont", "const", "discv", "contv") else None
            r = bool(ic(n))
            if before is not None and before != table_snapshot(n):
                notes.append("is_converged of controller %d wrote to the element tables" % d["cid"])
            if d["type"] in ("disc", "cont", "discv", "contv") and bool(c.nothing_to_do(n)) != d["ntd"]:
                notes.append("nothing_to_do of controller %d changed during the run" % d["cid"])
            trace.append(["conv", d["cid"], r, read_vars(n, descs)])
            return r

        def step(n):
            cs(n)
            trace.append(["step", d["cid"], read_vars(n, descs), read_attrs(d)])

        rp = c.repair_control

        def repair(n):
            rp(n)
            trace.append(["repair", d["cid"]])

        c.is_converged, c.control_step, c.repair_control = is_conv, step, repair

    def run(n, **kw):
        try:
            pp.runpp(n, **{**PF, **kw})
        except Exception as e:
            stream.append((read_res(n), False))
            trace.append(["run", False])
            raise
        stream.append((read_res(n), True))
        trace.append(["run", True])

    for d in descs:
        if d["type"] in ("disc", "cont"):
            d["ntd"] = static_ntd(net, d)
        if d["type"] in ("discv", "contv"):
            d["ntd"] = static_ntd(net, dict(d, tid=d["tids"][0])) if d["scalar"] else static_ntd_v(net, d)
        wrap(d)
    vars0 = read_vars(net, descs)
    res0 = read_res(net)
    applied0 = {d["cid"]: bool(d["obj"].applied) for d in descs if d["type"] in ("const", "char", "charv")}
    ctab = net.controller.copy()
    outcome = "ok"
    try:
        pc.run_control(net, run=run, max_iter=max_iter, check_each_level=cel, continue_on_divergence=cod)
    except pp.auxiliary.ControllerNotConverged:
        outcome = cq.Err("ControllerNotConverged")
    except pp.auxiliary.NetCalculationNotConverged:
        outcome = cq.Err("NetCalculationNotConverged")
    except pp.LoadflowNotConverged:
        outcome = cq.Err("LoadflowNotConverged")
    except UserWarning:
        outcome = cq.Err("UserWarning")
    # unwrap
    for d in descs:
        for a in ("is_converged", "control_step", "repair_control"):
            d["obj"].__dict__.pop(a, None)
    final_vars = read_vars(net, descs)

    # ---------------- model term (parameters are read after initialize_control re-read them from the net)
    ents = []
    for d in descs:
        c = d["obj"]
        row = ctab.loc[d["cid"]]
        lev = row["level"]
        levs = [float(x) for x in (lev if isinstance(lev, (list, tuple, np.ndarray)) else [lev])]
        if d["type"] in ("disc", "cont"):
            el, tid = d["element"], d["tid"]
            deg = float(net[el].at[tid, "tap_step_degree"])
            cs_ = None if math.isnan(deg) else int(np.sign(np.cos(np.deg2rad(deg))))
            tap_side = net[el].at[tid, "tap_side"]
            dirt = "(dir_of %s %s %s %s)" % (cq.b(tap_side == "hv"), cq.b(d["side"] == "hv"),
                                             cq.b(float(net[el].at[tid, "tap_step_percent"]) < 0), cq.opt(cs_, cq.z))
            bus = int(net[el].at[tid, d["side"] + "_bus"])
            tapc = "{| t_trafo := %s; t_bus := %s; t_min := %s; t_max := %s; t_dir := %s; t_ntd := %s |}" % (
                cq.nat(tap_slot(el, tid)), cq.nat(bus), cq.q(float(net[el].at[tid, "tap_min"])),
                cq.q(float(net[el].at[tid, "tap_max"])), dirt, cq.b(d["ntd"]))
            if d["type"] == "disc":
                kind = "(KDisc %s %s %s)" % (tapc, cq.q(float(c.vm_lower_pu)), cq.q(float(c.vm_upper_pu)))
            else:
                kind = "(KCont %s {| k_vset := %s; k_tol := %s; k_step := %s; k_tnom := %s; k_check := %s |})" % (
                    tapc, cq.q(float(c.vm_set_pu)), cq.q(float(c.tol)), cq.q(float(net[el].at[tid, "tap_step_percent"])),
                    cq.q(float(c.t_nom)), cq.b(c.check_tap_bounds))
        elif d["type"] in ("discv", "contv"):
            el = d["element"]
            recs = []
            for tid in d["tids"]:
                deg = float(net[el].at[tid, "tap_step_degree"])
                cs_ = None if math.isnan(deg) else int(np.sign(np.cos(np.deg2rad(deg))))
                dirt = "(dir_of %s %s %s %s)" % (cq.b(net[el].at[tid, "tap_side"] == "hv"), cq.b(d["side"] == "hv"),
                                                 cq.b(float(net[el].at[tid, "tap_step_percent"]) < 0), cq.opt(cs_, cq.z))
                recs.append("{| t_trafo := %s; t_bus := %s; t_min := %s; t_max := %s; t_dir := %s; t_ntd := false |}" % (
                    cq.nat(tap_slot(el, tid)), cq.nat(int(net[el].at[tid, d["side"] + "_bus"])),
                    cq.q(float(net[el].at[tid, "tap_min"])), cq.q(float(net[el].at[tid, "tap_max"])), dirt))
            if d["type"] == "discv":
                kind = "(KDiscV %s %s %s %s %s)" % (cq.lst(recs), cq.b(d["ntd"]), cq.q(float(c.vm_lower_pu)),
                                                    cq.q(float(c.vm_upper_pu)), cq.opt(d["hl"], cq.nat))
            else:
                tn = np.atleast_1d(np.asarray(c.t_nom, dtype=float))
                pars = ["{| k_vset := %s; k_tol := %s; k_step := %s; k_tnom := %s; k_check := %s |}" % (
                    cq.q(float(c.vm_set_pu)), cq.q(float(c.tol)), cq.q(float(net[el].at[tid, "tap_step_percent"])),
                    cq.q(float(tn[k])), cq.b(c.check_tap_bounds)) for k, tid in enumerate(d["tids"])]
                kind = "(KContV %s %s)" % (cq.lst(["(%s, %s)" % (a, b_) for a, b_ in zip(recs, pars)]), cq.b(d["ntd"]))
        elif d["type"] == "charv":
            kind = "(KCharV %s %s %s %s %s)" % (
                cq.b(d["in_res"]), cq.lst(["(%s, %s)" % (cq.nat(i), cq.nat(o)) for i, o in d["ios"]]),
                cq.lst(["(%s, %s)" % (cq.q(float(x)), cq.q(float(y))) for x, y in d["pts"]]), cq.q(float(c.tol)),
                cq.opt(d["tdi"], cq.b))
        elif d["type"] == "const":
            kind = "KConst"
        else:
            inp = d["inp"] if d["in_res"] else tap_slot("trafo", d["inp"])
            kind = "(KChar %s %s %s %s %s)" % (cq.b(d["in_res"]), cq.nat(inp), cq.nat(d["out"]),
                                               cq.lst(["(%s, %s)" % (cq.q(float(x)), cq.q(float(y))) for x, y in d["pts"]]),
                                               cq.q(float(c.tol)))
        ents.append("(Build_centry (%s, %s) (Some %s) %s %s %s)" % (
            cq.nat(d["cid"]), kind, cq.lst([cq.q(x) for x in levs]), cq.q(float(row["order"])),
            cq.b(bool(row["in_service"])), cq.b(bool(row["initial_run"]))))
    st = "{| vars := %s; res := %s; applied := %s; attrs := []; stream := %s |}" % (
        slots_term(vars0), slots_term(res0),
        cq.lst(["(%s, %s)" % (cq.nat(k), cq.b(v)) for k, v in sorted(applied0.items())]),
        cq.lst(["(%s, %s)" % (slots_term(r), cq.b(ok)) for r, ok in stream]))
    term = "run_out %s %s %s %s %s" % (cq.z(max_iter), cq.b(cod), cq.b(cel), cq.lst(ents), st)
    oterm = "order_out %s" % cq.lst(ents)

    # ---------------- spec oracle on the real net (independent of the model)
    case = {"net": pp.to_json(_strip(net)), "controllers": [_cdesc(d, ctab) for d in descs], "max_iter": max_iter,
            "check_each_level": cel, "continue_on_divergence": cod, "vars0": vars0,
            "trace": [[e[0], e[1]] + ([e[2]] if e[0] == "conv" else []) for e in trace]}
    in_service = [d for d in descs if bool(ctab.at[d["cid"], "in_service"])]
    nonempty_levels = sorted({l for d in in_service for l in _levels(ctab, d)})
    multi = len(nonempty_levels) > 1
    steps = sum(1 for e in trace if e[0] == "step")
    viol = []
    post = []
    if outcome == "ok":
        # (a) every in-service controller reports convergence (original methods, table order)
        last_level = nonempty_levels[-1] if nonempty_levels else None
        # with check_each_level=False only the last entry of the level list (levels of out-of-service controllers included) is checked
        top_level = max(l for d in descs for l in _levels(ctab, d))
        el_saved = {t: net[t].copy() for t in ("trafo", "trafo3w", "sgen", "load")}
        for d in in_service:
            ok = bool(d["obj"].is_converged(net))   # CharacteristicControl writes here: element tables are restored below
            post.append([d["cid"], ok])
            if not ok:
                lv = _levels(ctab, d)
                if not cel and max(lv) != top_level:
                    ctx.count("unconverged_lower_level_with_check_each_level_off")
                    continue
                kind = KF_MULTI if (multi and min(lv) < last_level) else "spec"
                if kind == "spec" and (_tdi_restored(d, trace) or _shares_restored_slot(d, in_service, trace)):
                    kind = KF_TDI
                viol.append((kind, "run_control returned but controller %d (%s, level %s) reports not converged" % (
                    d["cid"], d["type"], lv)))
        # (c) band or limit in the needed direction, read from the tables
        for d in in_service:
            if d["type"] not in ("disc", "cont", "discv", "contv") or d["ntd"]:
                continue
            w = None
            for tid in ([d["tid"]] if "tid" in d else d["tids"]):       # EVERY element of a vector controller
                w = w or _band_or_limit(net, dict(d, tid=tid, type=d["type"][:4]))
            if w:
                lv = _levels(ctab, d)
                if not cel and max(lv) != top_level:
                    continue
                kind = KF_MULTI if (multi and min(lv) < last_level) else "spec"
                viol.append((kind, w))
        # (d) fresh results: snapshot, then a fresh power flow of the final element state (in place, last)
        for t, df in el_saved.items():
            net[t] = df
        snap = {t: net[t].copy() for t in ("res_bus", "res_trafo", "res_line", "res_trafo3w") if t in net}
        fresh_bad = None
        try:
            n2 = net
            pp.runpp(n2, **PF)
            for t, df in snap.items():
                a, b_ = df.values.astype(float), n2[t].values.astype(float)
                if a.shape != b_.shape or not np.allclose(a, b_, rtol=0, atol=1e-6, equal_nan=True):
                    dmax = float(np.nanmax(np.abs(a - b_))) if a.shape == b_.shape and a.size else float("nan")
                    fresh_bad = "%s differs from a fresh power flow of the final element state (max abs diff %.3g)" % (t, dmax)
                    break
        except Exception as e:
            fresh_bad = "fresh power flow of the final state raised %s" % type(e).__name__
        if fresh_bad:
            kind = "spec"
            tdis = [d for d in in_service if _tdi_restored(d, trace)]
            if tdis:
                # the recorded finding exactly: with the values the TapDependentImpedance controllers had written (and
                # finalize_control took back) the results ARE the fresh power flow
                for d in tdis:
                    last = [e for e in trace if e[0] == "step" and e[1] == d["cid"]][-1]
                    for (_, slot), (el, var, i) in zip(d["ios"], d["out_els"]):
                        net[el].at[i, var] = last[2][slot]
                try:
                    pp.runpp(net, **PF)
                    if all(np.allclose(df.values.astype(float), net[t].values.astype(float), rtol=0, atol=1e-6, equal_nan=True)
                           for t, df in snap.items()):
                        kind = KF_TDI
                except Exception:
                    pass
            viol.append((kind, fresh_bad))
    # (b) bounds after every step (given a start inside)
    for e in trace:
        if e[0] != "step":
            continue
        d = by_idx[e[1]]
        if d["type"] not in ("disc", "cont", "discv", "contv"):
            continue
        if d["type"] in ("cont", "contv") and not d["obj"].check_tap_bounds:
            continue
        el = d["element"]
        bad = False
        for tid in ([d["tid"]] if "tid" in d else d["tids"]):       # element-wise for index arrays
            tp = e[2][tap_slot(el, tid)]
            lo, hi = float(net[el].at[tid, "tap_min"]), float(net[el].at[tid, "tap_max"])
            prev = _prev_tap(trace, e, tap_slot(el, tid), vars0)
            if not math.isnan(tp) and not (lo <= tp <= hi) and prev is not None and lo <= prev <= hi:
                frac = d["type"] == "disc" and prev != int(prev)
                viol.append((KF_FRAC if frac else "spec", "controller %d moved tap_pos of %s %d to %r outside [%r, %r]" % (
                    d["cid"], el, tid, tp, lo, hi)))
                bad = True
                break
        if bad:
            break
    # (b2) hunting_limit: the window never holds more than max(hunting_limit, 1) rows and its last row is the written taps
    for e in trace:
        if e[0] == "step" and by_idx[e[1]]["type"] == "discv" and e[3] is not None and not by_idx[e[1]]["ntd"]:
            d = by_idx[e[1]]
            rows = e[3]
            want = [e[2][tap_slot(d["element"], t)] for t in d["tids"]]
            if d["hl"] is not None and len(rows) > max(d["hl"], 1):
                viol.append(("spec", "controller %d: _hunting_taps has %d rows, hunting_limit %r" % (d["cid"], len(rows), d["hl"])))
                break
            if not rows or not all((math.isnan(a) and math.isnan(b_)) or a == b_ for a, b_ in zip(rows[-1], want)):
                viol.append(("spec", "controller %d: last row of _hunting_taps %r is not the written tap vector %r" % (
                    d["cid"], rows[-1] if rows else None, want)))
                break
    # (e) ascending (level, order) inside every pass
    w = _order_ok(trace, ctab)
    if w:
        viol.append(("spec", w))
    for kind, what in viol:
        ctx.violation(kind, what, case)
    for nt in notes[:1]:
        ctx.violation("spec", "assumption broken: " + nt, case)
    ctx.count("outcome_%s" % (outcome if outcome == "ok" else outcome.s))
    ctx.count("levels_%d" % len(nonempty_levels))
    ctx.count("steps_%d" % min(steps, 6))
    for d in in_service:
        ctx.count("ctrl_" + d["type"] + ("_tdi" if d.get("tdi") is not None else ""))
        if d["type"] == "discv":
            ctx.count("hunting_limit_%s" % d["hl"])
        if d["type"] in ("discv", "contv") and not d["scalar"]:
            ctx.count("vector_elements_%d" % len(d["tids"]))
    ctx.case(case, nontrivial=steps > 0 and len(in_service) >= 2,
             sample={"controllers": case["controllers"], "outcome": str(outcome), "trace": case["trace"][:12]})
    tie = False
    for a in in_service:
        for b_ in in_service:
            if a["cid"] < b_["cid"] and float(ctab.at[a["cid"], "order"]) == float(ctab.at[b_["cid"], "order"]) \
                    and set(_levels(ctab, a)) & set(_levels(ctab, b_)):
                tie = True
    if tie:
        ctx.count("order_ties_trace_not_compared")
    impl = [outcome, trace, final_vars, post, tie]
    return term, oterm, impl, case, ctab, descs


def _tdi_restored(d, trace):
    """guard of the recorded finding: a TapDependentImpedance with restore=True that has written a value different from the
    one finalize_control puts back"""
    if d["type"] != "charv" or not d["tdi"]:
        return False
    steps = [e for e in trace if e[0] == "step" and e[1] == d["cid"]]
    if not steps:
        return False
    init = steps[-1][3][0]
    return any(abs(steps[-1][2][slot] - v0) > 1e-12 for (_, slot), v0 in zip(d["ios"], init))


def _out_slots(d):
    if d["type"] == "char":
        return {d["out"]}
    if d["type"] == "charv":
        return {slot for _, slot in d["ios"]}
    return set()


def _shares_restored_slot(d, in_service, trace):
    """the same recorded finding seen through another characteristic controller: it writes a slot that a restoring
    TapDependentImpedance has put back to its initial value after the last calculation"""
    return any(o is not d and _tdi_restored(o, trace) and (_out_slots(o) & _out_slots(d)) for o in in_service)


def _strip(net):
    n = copy.deepcopy(net)
    if "controller" in n:
        n.controller = n.controller.iloc[0:0]
    if "characteristic" in n:
        n.characteristic = n.characteristic.iloc[0:0]
    return n


def _levels(ctab, d):
    lev = ctab.at[d["cid"], "level"]
    return [float(x) for x in (lev if isinstance(lev, (list, tuple, np.ndarray)) else [lev])]


def _cdesc(d, ctab):
    c = d["obj"]
    out = {"cid": d["cid"], "type": d["type"], "level": _levels(ctab, d), "order": float(ctab.at[d["cid"], "order"]),
           "in_service": bool(ctab.at[d["cid"], "in_service"])}
    if d["type"] in ("disc", "cont"):
        out.update(element=d["element"], tid=d["tid"], side=d["side"])
        if d["type"] == "disc":
            out.update(vm_lower_pu=float(c.vm_lower_pu), vm_upper_pu=float(c.vm_upper_pu))
        else:
            out.update(vm_set_pu=float(c.vm_set_pu), tol=float(c.tol), check_tap_bounds=bool(c.check_tap_bounds))
    if d["type"] == "char":
        out.update(in_res=d["in_res"], inp=d["inp"], out_el=list(d["out_el"]), pts=[list(map(float, p)) for p in d["pts"]],
                   tol=float(c.tol))
    if d["type"] in ("discv", "contv"):
        out.update(element=d["element"], tids=d["tids"], side=d["side"], scalar_index=d["scalar"])
        if d["type"] == "discv":
            out.update(vm_lower_pu=float(c.vm_lower_pu), vm_upper_pu=float(c.vm_upper_pu), hunting_limit=d["hl"])
        else:
            out.update(vm_set_pu=float(c.vm_set_pu), tol=float(c.tol), check_tap_bounds=bool(c.check_tap_bounds))
    if d["type"] == "charv":
        out.update(in_res=d["in_res"], ios=[list(x) for x in d["ios"]], out_els=[list(x) for x in d["out_els"]],
                   pts=[list(map(float, p)) for p in d["pts"]], tol=float(c.tol), tap_dependent_impedance_restore=d["tdi"])
    return out


def _prev_tap(trace, ev, slot, vars0):
    prev = vars0.get(slot)
    for e in trace:
        if e is ev:
            return prev
        if e[0] == "conv":
            prev = e[3].get(slot, prev)
        elif e[0] == "step":
            prev = e[2].get(slot, prev)
    return prev


def _band_or_limit(net, d):
    """the property text, from the tables: voltage inside the band / within tolerance, or tap at a limit; the direction
    of the limit is checked physically elsewhere (_direction_check)"""
    c = d["obj"]
    el, tid, side = d["element"], d["tid"], d["side"]
    bus = int(net[el].at[tid, side + "_bus"])
    vm = float(net.res_bus.at[bus, "vm_pu"])
    tap = float(net[el].at[tid, "tap_pos"])
    lo, hi = float(net[el].at[tid, "tap_min"]), float(net[el].at[tid, "tap_max"])
    if math.isnan(vm):
        return None
    at_limit = tap == lo or tap == hi
    if d["type"] == "disc":
        if c.vm_lower_pu < vm < c.vm_upper_pu or at_limit:
            return None
        return "discrete tap controller %d: vm_pu %.6f outside [%.4f, %.4f] and tap_pos %r not at a limit [%r, %r]" % (
            d["cid"], vm, c.vm_lower_pu, c.vm_upper_pu, tap, lo, hi)
    if abs(1 - c.vm_set_pu / vm) < c.tol or (c.check_tap_bounds and at_limit):
        return None
    return "continuous tap controller %d: vm_pu %.6f not within tol %.1e of %.4f and tap_pos %r not at a limit" % (
        d["cid"], vm, c.tol, c.vm_set_pu, tap)


def _order_ok(trace, ctab):
    """Controllers run in ascending (level, order): the sequence of is_converged calls must be a concatenation of complete
    passes, each pass listing the in-service members of one level with non-decreasing order values, levels never descending.
    Checked with a small NFA over states (level index, position in pass) so that controllers listed in several levels and
    ties in order are handled."""
    def levs(cid):
        lv = ctab.at[cid, "level"]
        return [float(x) for x in (lv if isinstance(lv, (list, tuple, np.ndarray)) else [lv])]
    ins = [int(c) for c in ctab.index if bool(ctab.at[c, "in_service"])]
    all_levels = sorted({l for c in ins for l in levs(c)})
    members = []
    for l in all_levels:
        m = [c for c in ins if l in levs(c)]
        members.append((sorted(float(ctab.at[c, "order"]) for c in m), set(m)))
    seq = [e[1] for e in trace if e[0] == "conv"]
    states = {(j, 0) for j in range(len(members))}
    for k, cid in enumerate(seq):
        nxt = set()
        o = float(ctab.at[cid, "order"])
        for (j, p) in states:
            orders, mem = members[j]
            if cid in mem and p < len(orders) and orders[p] == o:
                if p + 1 == len(orders):
                    for j2 in range(j, len(members)):
                        nxt.add((j2, 0))
                else:
                    nxt.add((j, p + 1))
        if not nxt:
            return "is_converged call #%d (controller %d, levels %s, order %s) does not fit ascending (level, order); calls so far %s" % (
                k, cid, levs(cid), o, seq[:k + 1])
        states = nxt
    return None


def _direction_check(ctx, rng):
    """physical check of 'the limit in the needed direction': for a discrete controller that reports reached_limit, moving
    the tap one step back inside must not bring the voltage closer to the band"""
    net = build_net(rng)
    t = int(rng.choice(list(net.trafo.index)))
    if not net.trafo.at[t, "in_service"]:
        return
    side = "lv"   # the net is fed from the hv side: only there the physical direction is unambiguous
    bus = int(net.trafo.at[t, side + "_bus"])
    if bus in set(net.ext_grid.bus.values):
        return
    lo, hi = float(net.trafo.at[t, "tap_min"]), float(net.trafo.at[t, "tap_max"])
    at = rng.choice([lo, hi])
    net.trafo.at[t, "tap_pos"] = at
    try:
        pp.runpp(net, **PF)
    except Exception:
        return
    vm = float(net.res_bus.at[bus, "vm_pu"])
    band = rng.choice([(vm + 0.01, vm + 0.03), (vm - 0.03, vm - 0.01)])
    c = pc.DiscreteTapControl(net, t, band[0], band[1], side=side)
    c.initialize_control(net)
    conv = bool(c.is_converged(net))
    n2 = copy.deepcopy(net)
    n2.trafo.at[t, "tap_pos"] = at + (1 if at == lo else -1)
    pp.runpp(n2, **PF)
    vm2 = float(n2.res_bus.at[bus, "vm_pu"])
    dist = lambda v: max(band[0] - v, v - band[1], 0.0)
    case = {"net": pp.to_json(_strip(net)), "trafo": t, "side": side, "tap": at, "band": band, "vm": vm, "vm_inside_step": vm2}
    ctx.case(case, nontrivial=True)
    ctx.count("direction_check_%s" % ("limit" if conv else "free"))
    if conv and dist(vm2) < dist(vm) - 1e-9:
        ctx.violation("spec", "controller reports the tap limit as reached, but one step back inside moves vm_pu from %.5f to %.5f, closer to the band %s" % (vm, vm2, band), case)
    if not conv and dist(vm2) > dist(vm) + 1e-9:
        ctx.violation("spec", "controller at a tap limit reports not converged, but the only possible step moves vm_pu from %.5f to %.5f, away from the band %s" % (vm, vm2, band), case)


def _multi_element_oracle(ctx, rng):
    """controllers over several elements (element_index lists): on return EVERY element must satisfy the convergence
    condition - evaluated here from the tables, not through is_converged - and the results must be fresh"""
    net = build_net(rng)
    case = {"kind": "multi_element"}
    lvb = [int(b) for b in net.bus.index if net.bus.at[b, "vn_kv"] == 0.4]
    sg = []
    for b in lvb:
        sg.append(int(pp.create_sgen(net, b, p_mw=rng.randint(8, 64) / 128, q_mvar=0.0)))
    which = rng.choice(["char", "char", "disc"]) if len(lvb) >= 2 else "char"
    if which == "char" and len(sg) >= 2:
        q = rng.choice([0.05, 0.1, 0.2])
        ch = Characteristic(net, [0.90, 0.98, 1.02, 1.10], [q, 0.0, 0.0, -q])
        buses = [int(net.sgen.at[i, "bus"]) for i in sg]
        tol = rng.choice([1e-3, 1e-4])
        pc.CharacteristicControl(net, "sgen", "q_mvar", sg, "res_bus", "vm_pu", buses, ch.index, tol=tol)
        case.update(ctrl="char", sgens=sg, tol=tol)
    else:
        tids = [int(t) for t in net.trafo.index if net.bus.at[net.trafo.at[t, "lv_bus"], "vn_kv"] == 0.4 and net.trafo.at[t, "in_service"]]
        if len(tids) < 2:
            return
        vs = rng.choice([0.98, 1.0, 1.02])
        pc.DiscreteTapControl(net, tids, vs - 0.015, vs + 0.015, side="lv")
        case.update(ctrl="disc", trafos=tids, band=[vs - 0.015, vs + 0.015])
    try:
        pc.run_control(net, **PF)
    except Exception as e:
        ctx.count("multi_element_raised_%s" % type(e).__name__)
        ctx.case(case, nontrivial=False)
        return
    case["net"] = pp.to_json(_strip(net))
    if case["ctrl"] == "char":
        for i, b in zip(sg, buses):
            want = float(ch(net.res_bus.at[b, "vm_pu"]))
            have = float(net.sgen.at[i, "q_mvar"])
            if not abs(want - have) < tol:
                ctx.violation("spec", "run_control returned but element sgen %d of the characteristic controller is not converged: "
                              "q_mvar %.6f, characteristic of the bus voltage %.6f, tol %g" % (i, have, want, tol), case)
                break
    else:
        for t in tids:
            vm = float(net.res_bus.at[net.trafo.at[t, "lv_bus"], "vm_pu"])
            tap, lo, hi = (float(net.trafo.at[t, c]) for c in ("tap_pos", "tap_min", "tap_max"))
            if not (case["band"][0] < vm < case["band"][1] or tap in (lo, hi) or math.isnan(vm)):
                ctx.violation("spec", "run_control returned but trafo %d of the multi-element tap controller is outside its band "
                              "(vm %.5f, band %s) with tap %r not at a limit" % (t, vm, case["band"], tap), case)
                break
    snap = net.res_bus.vm_pu.values.copy()
    pp.runpp(net, **PF)
    if not np.allclose(snap, net.res_bus.vm_pu.values, atol=1e-6, equal_nan=True):
        ctx.violation("spec", "multi-element controller: res_bus differs from a fresh power flow of the final element state", case)
    ctx.count("multi_element_" + case["ctrl"])
    ctx.case(case, nontrivial=True)


def _hunting_oracle(ctx, rng):
    """C13_hunting_limit_irrelevant_over_runs on the real code: the same net and DiscreteTapControl (scalar or index array)
    run with hunting_limit = None and with a small limit must end with the same outcome, taps and voltages"""
    net = build_net(rng)
    tids = [int(t) for t in rng.sample(list(net.trafo.index), rng.randint(1, len(net.trafo)))]
    vs = rng.choice([0.98, 1.0, 1.02, 1.04])
    half = rng.choice([0.002, 0.005, 0.01, 0.02])       # narrow bands provoke hunting
    hl = rng.choice([0, 1, 2, 3])
    idx = tids[0] if rng.random() < 0.3 else tids
    outs = []
    for lim in (None, hl):
        n = copy.deepcopy(net)
        pc.DiscreteTapControl(n, idx, vs - half, vs + half, side="lv", hunting_limit=lim)
        try:
            pc.run_control(n, max_iter=12, **PF)
            o = "ok"
        except Exception as e:
            o = type(e).__name__
        outs.append((o, n.trafo.tap_pos.values.astype(float).copy(),
                     n.res_bus.vm_pu.values.astype(float).copy() if len(n.res_bus) else np.array([])))
    case = {"kind": "hunting", "net": pp.to_json(net), "index": idx, "band": [vs - half, vs + half], "hunting_limit": hl}
    ctx.case(case, nontrivial=True)
    ctx.count("hunting_oracle_%s" % outs[0][0])
    (o1, t1, v1), (o2, t2, v2) = outs
    if o1 != o2 or not np.array_equal(t1, t2, equal_nan=True) or v1.shape != v2.shape or not np.allclose(v1, v2, atol=1e-12, equal_nan=True):
        ctx.violation("spec", "hunting_limit=%r changes the run: outcome %s vs %s, taps %s vs %s" % (hl, o1, o2, t1, t2), case)


def _fresh_bad(net):
    snap = {t: net[t].values.astype(float).copy() for t in ("res_bus", "res_trafo", "res_line", "res_trafo3w") if t in net and len(net[t])}
    n2 = copy.deepcopy(net)
    pp.runpp(n2, **PF)
    for t, a in snap.items():
        b_ = n2[t].values.astype(float)
        if a.shape != b_.shape or not np.allclose(a, b_, rtol=0, atol=1e-6, equal_nan=True):
            return "%s differs from a fresh power flow of the final element state (max abs diff %.3g)" % (
                t, float(np.nanmax(np.abs(a - b_))) if a.shape == b_.shape else float("nan")), n2
    return None, n2


def _second_run_oracle(ctx, rng, k):
    """FIXED share of every run: a lowest level that needs no initial power flow (default ConstControl: level -1,
    initial_run=False, already applied by the first call) below a tap controller; run_control, the user edits the loads,
    run_control AGAIN: on return the results must be a fresh power flow of the final element state, every controller
    converged, the voltage in the band or the tap at a limit"""
    net = build_net(rng)
    net.trafo["in_service"] = True
    for t in net.trafo.index:
        net.trafo.at[t, "tap_pos"] = 0.0
    pc.ConstControl(net, "load", "p_mw", int(net.load.index[0]))                 # level -1, order -1, initial_run False
    tid = int(net.trafo.index[0]) if k % 2 == 0 else int(rng.choice(list(net.trafo.index)))
    vs = rng.choice([0.99, 1.0, 1.01, 1.02])
    if k % 3 == 2:
        c = pc.ContinuousTapControl(net, tid, vm_set_pu=vs, tol=1e-3, side="lv", level=k % 2)
        desc = {"type": "cont", "obj": c, "element": "trafo", "tid": tid, "side": "lv", "cid": int(c.index)}
    else:
        c = pc.DiscreteTapControl(net, tid, vs - 0.01, vs + 0.01, side="lv", level=k % 2)
        desc = {"type": "disc", "obj": c, "element": "trafo", "tid": tid, "side": "lv", "cid": int(c.index)}
    case = {"kind": "second_run", "controller": desc["type"], "trafo": tid, "vm_set": vs}
    try:
        pc.run_control(net, **PF)
    except Exception as e:
        ctx.count("second_run_first_raised_%s" % type(e).__name__)
        ctx.case(case, nontrivial=False)
        return
    # the user changes the element state
    f = rng.choice([0.0, 0.25, 2.5, 4.0])
    net.load["p_mw"] = net.load.p_mw.values * f + rng.choice([0.0, 0.05])
    net.load["q_mvar"] = net.load.q_mvar.values * f
    case.update(net=pp.to_json(_strip(net)), load_factor=f)
    try:
        pc.run_control(net, **PF)
    except (pp.auxiliary.ControllerNotConverged, pp.auxiliary.NetCalculationNotConverged, pp.LoadflowNotConverged) as e:
        ctx.count("second_run_raised_%s" % type(e).__name__)
        ctx.case(case, nontrivial=True)
        return
    ctx.count("second_run_ok")
    ctx.case(case, nontrivial=True)
    bad, _ = _fresh_bad(net)
    if bad:
        ctx.violation("spec", "second run_control call after an edit of the loads: " + bad, case)
        return
    for idx in net.controller.index[net.controller.in_service]:
        if not net.controller.object.at[idx].is_converged(net):
            ctx.violation("spec", "second run_control call returned but controller %d reports not converged" % idx, case)
            return
    w = _band_or_limit(net, desc)
    if w and not static_ntd(net, desc):
        ctx.violation("spec", "second run_control call: " + w, case)


T3_COMBOS = [("mv", "mv"), ("hv", "mv"), ("mv", "mv"), ("lv", "lv"), ("hv", "lv"), ("mv", "mv")]   # (tap_side, controlled side)


def _trafo3w_oracle(ctx, rng, k):
    """FIXED share of every run: scalar-index tap controller on a three-winding transformer with the tap changer on the
    hv / mv / lv winding; on return: in the band (within tolerance) or at the tap limit in the NEEDED direction - checked
    physically: one step back from the limit must not bring the voltage closer to the band -, taps in range, fresh results"""
    tap_side, side = T3_COMBOS[k % len(T3_COMBOS)]
    net = empty_net()
    bh, bm, bl = pp.create_bus(net, 110.0), pp.create_bus(net, 20.0), pp.create_bus(net, 10.0)
    pp.create_ext_grid(net, bh, vm_pu=rng.choice([0.98, 1.0, 1.02]))
    pp.create_transformer3w(net, bh, bm, bl, std_type="63/25/38 MVA 110/20/10 kV")
    net.trafo3w.at[0, "tap_side"] = tap_side
    net.trafo3w.at[0, "tap_pos"] = float(rng.choice([0, 0, -2, 3]))
    pp.create_load(net, bm, p_mw=rng.randint(4, 50) / 2, q_mvar=rng.randint(0, 20) / 2)
    pp.create_load(net, bl, p_mw=rng.randint(2, 30) / 2, q_mvar=rng.randint(0, 10) / 2)
    bus = bm if side == "mv" else bl
    pp.runpp(net, **PF)
    vm0 = float(net.res_bus.vm_pu.at[bus])
    # the voltage starts outside the band; every third case needs more steps than the tap range offers
    off = rng.choice([0.03, -0.03, 0.05, -0.05]) if k % 3 else rng.choice([0.3, -0.3])
    vs = round(vm0 + off, 3)
    disc = k % 4 != 3
    if disc:
        c = pc.DiscreteTapControl(net, 0, vs - 0.008, vs + 0.008, side=side, element="trafo3w")
        lo_b, hi_b = vs - 0.008, vs + 0.008
    else:
        c = pc.ContinuousTapControl(net, 0, vm_set_pu=vs, tol=1e-3, side=side, element="trafo3w")
        lo_b, hi_b = vs / (1 + 1e-3), vs / (1 - 1e-3)
    case = {"kind": "trafo3w_scalar", "tap_side": tap_side, "side": side, "type": "disc" if disc else "cont", "vm_start": vm0,
            "band": [lo_b, hi_b], "net": pp.to_json(_strip(net))}
    try:
        pc.run_control(net, **PF)
    except (pp.auxiliary.ControllerNotConverged, pp.auxiliary.NetCalculationNotConverged, pp.LoadflowNotConverged) as e:
        ctx.count("trafo3w_raised_%s" % type(e).__name__)
        ctx.case(case, nontrivial=True)
        return
    ctx.case(case, nontrivial=True)
    bad, fresh = _fresh_bad(net)
    if bad:
        ctx.violation("spec", "trafo3w tap controller (tap_side %s, side %s): %s" % (tap_side, side, bad), case)
        return
    tp, tmin, tmax = (float(net.trafo3w.at[0, x]) for x in ("tap_pos", "tap_min", "tap_max"))
    vm = float(fresh.res_bus.vm_pu.at[bus])
    dist = lambda v: max(lo_b - v, v - hi_b, 0.0)
    if not tmin <= tp <= tmax:
        ctx.violation("spec", "trafo3w tap controller moved tap_pos to %r outside [%r, %r]" % (tp, tmin, tmax), case)
    elif dist(vm) == 0.0:
        ctx.count("trafo3w_%s_%s_in_band" % (tap_side, side))
    elif tp not in (tmin, tmax):
        ctx.violation("spec", "trafo3w tap controller (tap_side %s, side %s) returned with vm_pu %.5f outside [%.4f, %.4f] and "
                      "tap_pos %r not at a limit" % (tap_side, side, vm, lo_b, hi_b, tp), case)
    else:
        ctx.count("trafo3w_%s_%s_at_limit" % (tap_side, side))
        back = copy.deepcopy(net)
        back.trafo3w.at[0, "tap_pos"] = tp + (1 if tp == tmin else -1)
        pp.runpp(back, **PF)
        vb = float(back.res_bus.vm_pu.at[bus])
        if dist(vb) < dist(vm) - 1e-6:
            ctx.violation("spec", "trafo3w tap controller (tap_side %s, controlled side %s): vm_pu %.5f outside [%.4f, %.4f] with tap_pos %r "
                          "at the limit in the WRONG direction (one step back gives vm_pu %.5f)" % (tap_side, side, vm, lo_b, hi_b, tp, vb), case)


def _cmp_slots(a, b):
    """a: dict from impl; b: list of [k, v] from model"""
    bd = {k: v for k, v in b}
    if set(a.keys()) != set(bd.keys()):
        return False
    for k, v in a.items():
        m = bd[k]
        if fnum(v) is None or m is None:
            if not (fnum(v) is None and m is None):
                return False
        elif abs(float(m) - v) > 1e-9 * max(1.0, abs(v)):
            return False
    return True


def _cmp_rows(a, b):
    if len(a) != len(b):
        return False
    for ra, rb in zip(a, b):
        if len(ra) != len(rb):
            return False
        for x, y in zip(ra, rb):
            if fnum(x) is None or y is None:
                if not (fnum(x) is None and y is None):
                    return False
            elif abs(float(y) - x) > 1e-9 * max(1.0, abs(x)):
                return False
    return True


def compare(impl, mod):
    outcome, trace, final_vars, post, tie = impl
    if tie:
        return None
    if isinstance(mod, cq.Err):
        return None if outcome == mod else "model raises %r, impl %r" % (mod, outcome)
    mo, mt, mv, mpost = mod
    if mo != outcome:
        return "outcome: impl %r model %r" % (outcome, mo)
    if len(mt) != len(trace):
        return "trace length: impl %d model %d (impl %s / model %s)" % (len(trace), len(mt), [e[:3] if e[0] == "conv" else e[:2] for e in trace][:14],
                                                                          [e[:3] if e[0] == "conv" else e[:2] for e in mt][:14])
    for k, (a, m) in enumerate(zip(trace, mt)):
        if a[0] != m[0]:
            return "event %d: impl %s model %s" % (k, a[:3], m[:3])
        if a[0] == "conv":
            if a[1] != m[1] or a[2] != m[2] or not _cmp_slots(a[3], m[3]):
                return "event %d: impl %s model %s" % (k, a, m)
        elif a[0] == "step":
            if a[1] != m[1] or not _cmp_slots(a[2], m[2]):
                return "event %d: impl %s model %s" % (k, a, m)
            if a[3] is not None and not _cmp_rows(a[3], m[3]):
                return "event %d: controller attribute (_hunting_taps / initial_values) impl %s model %s" % (k, a[3], m[3])
        elif a[0] in ("run", "repair"):
            if a[1] != m[1]:
                return "event %d: impl %s model %s" % (k, a, m)
    if outcome == "ok":
        if not _cmp_slots(final_vars, mv):
            return "final element values differ: impl %s model %s" % (final_vars, mv)
        if [list(p) for p in post] != [list(p) for p in mpost]:
            return "final verdicts differ: impl %s model %s" % (post, mpost)
    return None


def impl_order(net):
    from pandapower.control.run_control import get_controller_order
    try:
        ll, co = get_controller_order(net, net.controller)
    except UserWarning:
        return cq.Err("UserWarning")
    return [[Fraction(float(x)) for x in ll], [[int(c.index) for c, _ in lv] for lv in co]]


def _same_order(a, b, ctab):
    if isinstance(a, cq.Err) or isinstance(b, cq.Err):
        return a == b
    if a[0] != b[0] or len(a[1]) != len(b[1]):
        return False
    for la, lb in zip(a[1], b[1]):
        ka = [(float(ctab.at[c, "order"]), c) for c in la]
        kb = [(float(ctab.at[c, "order"]), c) for c in lb]
        if [k[0] for k in ka] != [k[0] for k in kb] or sorted(ka) != sorted(kb):
            return False
    return True


def run(ctx):
    rng = ctx.rng
    terms, oterms, impls, cases, ctabs = [], [], [], [], []
    import glob, os
    for k in range(ctx.n(80, 1500)):
        # ordering is compared on the table before the run
        st = rng.getstate()
        term, oterm, impl, case, ctab, descs = one_case(ctx, rng, forced={0: "lowconst", 4: "t3mv"}.get(k % 8))
        terms.append(term)
        oterms.append(oterm)
        impls.append(impl)
        cases.append(case)
        ctabs.append((ctab, descs))
    model = ctx.coq_eval("c13", "Base.QN C13.Model", terms, shard=10, timeout=1200)
    for case, impl, mod in zip(cases, impls, model):
        ctx.corr_checked += 1
        w = compare(impl, mod)
        if not impl[4] and not isinstance(mod, cq.Err):
            ctx.count("attribute_matrices_compared", sum(1 for e in impl[1] if e[0] == "step" and e[3] is not None and len(e[3]) > 0))
        if w:
            ctx.disagreement("run_control call trace differs from the Coq loop: " + w[:600], case)
    omodel = ctx.coq_eval("c13o", "Base.QN C13.Model", oterms, shard=50, timeout=1200)
    for case, (ctab, descs), om in zip(cases, ctabs, omodel):
        ctx.corr_checked += 1
        # rebuild the impl order from the stored controller table
        class _N(dict):
            pass
        from pandapower.control.run_control import get_controller_order
        try:
            ll, co = get_controller_order({}, ctab)
            io = [[Fraction(float(x)) for x in ll], [[int(c.index) for c, _ in lv] for lv in co]]
        except UserWarning:
            io = cq.Err("UserWarning")
        if not _same_order(io, om, ctab):
            ctx.disagreement("get_controller_order differs: impl %s model %s" % (io, om), case)
    for k in range(ctx.n(30, 300)):
        _direction_check(ctx, rng)
    for k in range(ctx.n(30, 300)):
        _multi_element_oracle(ctx, rng)
    for k in range(ctx.n(12, 150)):
        _hunting_oracle(ctx, rng)
    for k in range(ctx.n(12, 120)):
        _second_run_oracle(ctx, rng, k)
    for k in range(ctx.n(12, 120)):
        _trafo3w_oracle(ctx, rng, k)


def replay(ctx, rec):
    ctx.notes.append("replay: re-running the generators with the recorded seed reproduces the case")
    run(ctx)
