"""C14 — contingency extremes and causes.
Correspondence: run_contingency driven with a stub evaluation function writing generated result
arrays (NaN, ties, raising cases, out-of-service elements, shuffled indices) vs C14.Model.run_table; the same runs
through the table-level model C14.Write.run_write_out (evaluation trace, returned dict with its key order, res_* tables
after write_to_net, with stub res tables that carry extra and name-colliding columns).
Oracle: real run_contingency on generated meshed nets vs a brute-force loop of fresh power flows."""
import copy, math
import numpy as np, pandas as pd
import pandapower as pp
from fractions import Fraction
from vf import coqrun as cq, nets

RULE = ("stub-driven case sequences (1-10 outages over line/trafo/trafo3w tables with shuffled indices, NaN/tie/"
        "raising/out-of-service mix) compared exactly with the Coq fold; real meshed nets (5-9 buses) compared with a "
        "brute-force N-1 loop and their res_* tables before/after with C14.Write.write_table; non-trivial = at least 2 successful cases and at least one masked (NaN or out-of-service) observation")
ASSUMPTIONS = ["runpp is an oracle for the real-net part; the stub part needs no solver",
               "np.fmax/np.fmin/> follow IEEE NaN semantics as modelled in C14.Model (gt, fmax, fmin)"]
TRUSTED = ["stub injection through the public contingency_evaluation_function parameter",
           "table level: the res_ tables the evaluation leaves have the element table's index (true for runpp and the stub)"]
ET = {"line": 0, "trafo": 1, "trafo3w": 2}
ETN = {v: k for k, v in ET.items()}


def _mk_stub_net(rng):
    net = nets.rand_net(rng, nb=rng.randint(3, 6), chords=rng.randint(0, 2), n_trafo=rng.randint(1, 2),
                        shuffle_index=rng.random() < 0.6, n_trafo3w=rng.choice([0, 0, 1]), oos=0.2)
    if rng.random() < 0.3:
        net.line["max_loading_percent_nminus1"] = [rng.choice([50.0, 80.0, 120.0]) for _ in net.line.index]
    net.line["max_loading_percent"] = [rng.choice([40.0, 60.0, 100.0]) for _ in net.line.index]
    if rng.random() < 0.2:
        net.bus.loc[rng.choice(list(net.bus.index)), "in_service"] = False
    return net


def _gen_vals(rng, net, tab):
    """result values of one evaluation for table tab"""
    vals = []
    for i in net[tab].index:
        ins = bool(net[tab].at[i, "in_service"])
        r = rng.random()
        if tab == "bus":
            v = float("nan") if (r < 0.15 or (not ins and r < 0.8)) else rng.randint(56, 72) / 64
        elif not ins:
            v = 0.0 if r < 0.7 else (float("nan") if r < 0.85 else rng.randint(0, 20) * 8.0)
        else:
            v = float("nan") if r < 0.12 else rng.choice([0.0, 8.0, 40.0, 40.0, 64.0, 100.0, 104.0, 128.0, rng.randint(0, 160) * 1.0])
        vals.append(v)
    return vals


_XCOLS = {"bus": ["va_degree", "p_mw", "max_vm_pu", "min_vm_pu"],
          "branch": ["p_from_mw", "i_ka", "max_loading_percent", "min_loading_percent", "cause_index", "cause_element",
                     "causes_overloading"]}


def _mk_res_table(rng, net, t, vals):
    """a res_ table as the evaluation leaves it: the result variable plus extra columns in random order; some extras
    carry the name of a key of the contingency result dict (write_to_net must leave them alone)"""
    var = "vm_pu" if t == "bus" else "loading_percent"
    extras = [c for c in _XCOLS["bus" if t == "bus" else "branch"] if rng.random() < 0.22]
    cols = [var] + extras
    rng.shuffle(cols)
    data = {c: (list(vals) if c == var else [rng.randint(-8, 8) / 4 for _ in vals]) for c in cols}
    return pd.DataFrame(data, index=net[t].index, columns=cols), [(c, list(data[c])) for c in cols]


def _cell(key, x):
    """python value of a dict entry / table cell in the shape of the model output"""
    if x is None or (isinstance(x, float) and math.isnan(x)):
        return None
    if isinstance(x, str):
        return ET.get(x, x)
    if isinstance(x, (bool, np.bool_)):
        return bool(x)
    if key in ("index", "cause_index") and float(x) == int(x):
        return int(x)
    return Fraction(float(x))


def _ocell(key, x):
    """the same cell as a Gallina term of type out"""
    v = _cell(key, x)
    if v is None:
        return "ONone"
    if isinstance(v, bool):
        return "OB %s" % cq.b(v)
    if isinstance(v, int):
        return "OZ %s" % cq.z(v)
    if isinstance(v, str):
        return "OS %s" % cq.s(v)
    return "oq %s" % cq.q(v)


def _otable(cols):
    return cq.lst(["(%s, %s)" % (cq.s(c), cq.lst([_ocell(c, x) for x in vals])) for c, vals in cols])


def _stub_case(ctx, rng):
    net = _mk_stub_net(rng)
    tabs = [t for t in ("line", "trafo", "trafo3w") if len(net[t]) > 0]
    cases = {}
    order = []
    for t in rng.sample(tabs, len(tabs)):
        if rng.random() < 0.8:
            ids = list(net[t].index)
            k = rng.randint(1, min(len(ids), 5))
            sel = [rng.choice(ids) for _ in range(k)] if rng.random() < 0.2 else rng.sample(ids, k)
            cases[t] = {"index": sel}
    if not cases:
        cases = {"line": {"index": [net.line.index[0]]}}
    log = []   # per call: dict(raises, vals per table, ins per table, kw)
    raise_p = rng.choice([0.0, 0.15, 0.4])
    ins_before = {t: net[t].in_service.values.copy() for t in tabs + ["bus"]}
    # the outages that must be evaluated, in order: every listed element that is in service in the base net
    labels_seq = [(t, i) for t, v in cases.items() for i in v["index"] if net[t].at[i, "in_service"]]
    n_nm1 = len(labels_seq)
    # options: N-1 evaluations must receive pf_options_nminus1 + kwargs, the N-0 one pf_options + kwargs,
    # and a recycle argument must never reach the evaluation as anything but False
    pf0 = rng.choice([None, {"opt_a": 1}, {"opt_a": 1, "opt_b": "x"}])
    pf1 = rng.choice([None, {"opt_a": 2}, {"opt_c": True}])
    kw = rng.choice([{}, {}, {"recycle": {"bus_pq": True, "trafo": False, "gen": False}}, {"opt_a": 7}, {"extra": 3}])
    if rng.random() < 0.15:
        net.user_pf_options = {"opt_u": 5}

    def stub(n, **kwa):
        nm1 = len(log) < n_nm1
        rec = {"raises": rng.random() < raise_p and nm1, "kw": dict(kwa)}
        rec["ins"] = {t: [bool(x) for x in n[t].in_service.values] for t in tabs + ["bus"]}
        rec["vals"] = {t: _gen_vals(rng, n, t) for t in tabs + ["bus"]}
        log.append(rec)
        if rec["raises"]:
            raise RuntimeError("stub raise")
        rec["tables"] = {}
        for t in tabs + ["bus"]:
            n["res_" + t], rec["tables"][t] = _mk_res_table(rng, n, t, rec["vals"][t])

    from pandapower.contingency import run_contingency
    callkw = dict(kw)
    if pf0 is not None:
        callkw["pf_options"] = pf0
    if pf1 is not None:
        callkw["pf_options_nminus1"] = pf1
    res = run_contingency(net, cases, contingency_evaluation_function=stub, **callkw)
    ins_after = {t: net[t].in_service.values.copy() for t in tabs + ["bus"]}
    restored = all((ins_before[t] == ins_after[t]).all() for t in ins_before)
    # ---- protocol checks on the evaluation calls themselves (spec: each listed in-service element is outaged
    #      alone, once, with the right options; then one N-0 evaluation)
    proto_bad = []
    if len(log) != n_nm1 + 1:
        proto_bad.append("%d evaluations were made, expected %d N-1 cases + the N-0 case" % (len(log), n_nm1))
    else:
        user = dict(getattr(net, "user_pf_options", {}) or {})
        exp0 = {k: v for k, v in (pf0 if pf0 is not None else user).items() if k not in kw}
        exp1 = {k: v for k, v in (pf1 if pf1 is not None else user).items() if k not in kw}
        kwx = dict(kw)
        if "recycle" in kwx:
            kwx["recycle"] = False
        for k, (lab, rec) in enumerate(zip(labels_seq + [None], log)):
            exp_ins = {t: [bool(x) for x in ins_before[t]] for t in tabs + ["bus"]}
            if lab is not None:
                exp_ins[lab[0]][list(net[lab[0]].index).index(lab[1])] = False
            if rec["ins"] != exp_ins:
                proto_bad.append("evaluation #%d (%s) ran on in_service flags that are not the base net with exactly that outage" % (k, lab))
                break
            expkw = dict(exp1 if lab is not None else exp0, **kwx)
            if rec["kw"] != expkw:
                proto_bad.append("evaluation #%d (%s) received options %r, expected %r" % (k, lab, rec["kw"], expkw))
                break
    if proto_bad:
        desc = {"cases": {t: [int(i) for i in v["index"]] for t, v in cases.items()},
                "tables": {t: [int(i) for i in net[t].index] for t in tabs}, "call": {k: repr(v) for k, v in callkw.items()},
                "log": [{"raises": r["raises"], "ins": r["ins"], "kw": {k: repr(v) for k, v in r["kw"].items()}} for r in log]}
        return None, None, desc, restored, True, True, proto_bad, None
    # ---- model input
    succ = [(lab, rec) for lab, rec in zip(labels_seq, log[:-1]) if not rec["raises"]]
    limcol = {t: ("max_loading_percent_nminus1" if "max_loading_percent_nminus1" in net[t].columns else "max_loading_percent") for t in tabs}
    lims = {t: [float(x) for x in net[t][limcol[t]].values] for t in tabs}

    def obs(ins, v, lim):
        return "{| o_in := %s; o_val := %s; o_lim := %s |}" % (cq.b(ins), cq.oq(v), cq.oq(lim))

    def case_term(lab, rec, tabsel):
        rows = []
        for t in tabsel:
            L = lims[t] if t != "bus" else [float("nan")] * len(rec["vals"][t])
            rows += [obs(i, v, l) for i, v, l in zip(rec["ins"][t], rec["vals"][t], L)]
        return "{| lab := (%s, %s); rows := %s |}" % (cq.nat(ET[lab[0]]), cq.z(lab[1]), cq.lst(rows))

    parts = []
    for t in tabs:
        cl = cq.lst([case_term(l, r, [t]) for l, r in succ])
        parts.append("olist oacc (run_table %s %s)" % (cq.nat(len(net[t])), cl))
    parts.append("run_out_bus %s %s" % (cq.nat(len(net.bus)), cq.lst([case_term(l, r, ["bus"]) for l, r in succ])))
    all_labels = [(t, int(i)) for t in tabs for i in net[t].index]
    call = cq.lst([case_term(l, r, tabs) for l, r in succ])
    parts.append("olist (fun c => OB (causes_overloading %s c)) %s" % (
        call, cq.lst(["(%s, %s)" % (cq.nat(ET[t]), cq.z(i)) for t, i in all_labels])))
    term = "OL [" + "; ".join(parts) + "]"

    # ---- impl observation in the same shape
    def fr(x):
        return None if (x is None or (isinstance(x, float) and math.isnan(x))) else Fraction(float(x))

    impl = []
    for t in tabs:
        r = res[t]
        n = len(net[t])
        mxs = r.get("max_loading_percent", [float("nan")] * n)
        mns = r.get("min_loading_percent", [float("nan")] * n)
        rows = []
        for j in range(n):
            ce, ci = r["cause_element"][j], int(r["cause_index"][j])
            cause = None if ce is None else [ET[ce], ci]
            if ce is None and ci != -1:
                cause = ["garbage", ci]
            rows.append([fr(mxs[j]), fr(mns[j]), cause])
        impl.append(rows)
    rb = res["bus"]
    nb = len(net.bus)
    impl.append([[fr(a), fr(b_), None] for a, b_ in zip(rb.get("max_vm_pu", [float("nan")] * nb), rb.get("min_vm_pu", [float("nan")] * nb))])
    impl.append([bool(res[t]["causes_overloading"][list(net[t].index).index(i)]) for t, i in all_labels])
    # ---- the spec itself, evaluated on the impl's output for this stub history (failing-input search)
    spec_bad = []
    for ti, t in enumerate(tabs):
        for j, eid in enumerate(net[t].index):
            vals = [(lab, rec["vals"][t][j]) for lab, rec in succ if rec["ins"][t][j] and rec["vals"][t][j] == rec["vals"][t][j]]
            mxi, mni, ci = impl[ti][j]
            if not vals:
                if mxi is not None or mni is not None:
                    spec_bad.append("%s %d: max/min reported without a valid case" % (t, eid))
                continue
            m = max(v for _, v in vals); mn_ = min(v for _, v in vals)
            if mxi != Fraction(m) or mni != Fraction(mn_):
                spec_bad.append("%s %d: reported max/min %s/%s but the valid cases give %s/%s" % (t, eid, mxi, mni, m, mn_))
            att = [[ET[l[0]], int(l[1])] for l, v in vals if v == m]
            if ci not in att:
                spec_bad.append("%s %d: cause %s does not attain the maximum %s (attained by %s)" % (t, eid, ci, m, att))
    n0_ok = all(_same(res[t]["loading_percent"], log[-1]["vals"][t]) for t in tabs) and _same(res["bus"]["vm_pu"], log[-1]["vals"]["bus"])
    masked = sum(1 for l, r in succ for t in tabs for i, v in zip(r["ins"][t], r["vals"][t]) if (not i) or v != v)
    desc = {"cases": {t: [int(i) for i in v["index"]] for t, v in cases.items()},
            "tables": {t: [int(i) for i in net[t].index] for t in tabs}, "call": {k: repr(v) for k, v in callkw.items()},
            "log": [{"raises": r["raises"], "ins": r["ins"], "vals": {t: [None if v != v else v for v in vs] for t, vs in r["vals"].items()}} for r in log]}
    # ---- table-level model (C14.Write): the whole run with the logged evaluation results as the oracle stream
    rowtabs = tabs + ["bus"]                      # row vector of the model: line ++ trafo ++ trafo3w ++ bus
    dict_tabs = ["bus"] + tabs                    # order of contingency_results (:83)
    off, k0 = {}, 0
    for t in rowtabs:
        off[t] = k0
        k0 += len(net[t])
    evs = cq.lst(["None" if r["raises"] else "(Some %s)" % cq.lst([cq.oq(v) for t in rowtabs for v in r["vals"][t]]) for r in log])
    limv = cq.lst([cq.oq(x) for t in tabs for x in lims[t]] + ["None"] * len(net.bus))
    outs = cq.lst(["((%s, %s), %s)" % (cq.nat(ET[t]), cq.z(i), cq.nat(off[t] + list(net[t].index).index(i)))
                   for t, v in cases.items() for i in v["index"]])
    tabspecs = cq.lst(["{| t_bus := %s; t_type := %s; t_var := %s; t_index := %s; t_off := %s |}" % (
        cq.b(t == "bus"), cq.nat(ET.get(t, 9)), cq.s("vm_pu" if t == "bus" else "loading_percent"),
        cq.lst([cq.z(i) for i in net[t].index]), cq.nat(off[t])) for t in dict_tabs])
    ins0 = cq.lst([cq.b(x) for t in rowtabs for x in ins_before[t]])
    pre = {t: log[-1]["tables"][t] for t in dict_tabs}     # the res_ tables as the N-0 evaluation left them
    wterm = "run_write_out %s %s %s %s %s %s" % (evs, limv, outs, tabspecs, ins0, cq.lst([_otable(pre[t]) for t in dict_tabs]))
    post = {t: [(c, list(net["res_" + t][c].values)) for c in net["res_" + t].columns] for t in dict_tabs}
    wimpl = [[bool(x) for t in rowtabs for x in ins_after[t]],
             [[bool(x) for t in rowtabs for x in r["ins"][t]] for r in log],
             [[[k, [_cell(k, x) for x in list(v)]] for k, v in res[t].items()] for t in dict_tabs],
             [[[c, [_cell(c, x) for x in vals]] for c, vals in post[t]] for t in dict_tabs]]
    ctx.count("pre_existing_columns_named_like_a_result_key_%d" % min(3, sum(
        1 for t in dict_tabs for c, _ in pre[t] if c in res[t] and c not in ("loading_percent", "vm_pu"))))
    if list(res.keys()) != dict_tabs:
        spec_bad.append("result dict has tables %s, expected %s" % (list(res.keys()), dict_tabs))
    # the write_to_net spec itself on the real tables (independent of the model)
    for t in dict_tabs:
        spec_bad += _write_spec(t, pre[t], post[t], res[t])
    return term, impl, desc, restored, n0_ok, (len(succ) >= 2 and masked > 0), spec_bad, (wterm, wimpl)


def _veq(key, a, b):
    return _js([_cell(key, x) for x in a]) == _js([_cell(key, x) for x in b])


def _write_spec(t, pre, post, rdict, veq=_veq):
    """write_to_net: exactly the keys of the result dict other than "index" and the names already present become new
    columns (after the old ones), with the dict's values; every column that was there before is untouched"""
    bad = []
    precols = [c for c, _ in pre]
    want = precols + [k for k in rdict.keys() if k != "index" and k not in precols]
    if [c for c, _ in post] != want:
        bad.append("res_%s has columns %s after write_to_net, expected %s" % (t, [c for c, _ in post], want))
        return bad
    postd = dict(post)
    for c, vals in pre:
        if not veq(c, vals, postd[c]):
            bad.append("res_%s.%s existed before write_to_net and was changed" % (t, c))
    for k in want[len(precols):]:
        if not veq(k, list(rdict[k]), postd[k]):
            bad.append("res_%s.%s differs from the returned dict entry" % (t, k))
    return bad


def _same(a, b):
    a = np.asarray(a, dtype=float)
    b = np.asarray(b, dtype=float)
    return a.shape == b.shape and bool(np.all((a == b) | (np.isnan(a) & np.isnan(b))))


def _real_oracle(ctx, rng):
    """real runpp; brute-force spec vs run_contingency"""
    from pandapower.contingency import run_contingency
    net = nets.rand_net(rng, nb=rng.randint(4, 8), chords=rng.randint(1, 3), n_trafo=2, shuffle_index=rng.random() < 0.5,
                        oos=0.1, sgens=False)
    net.line["max_loading_percent"] = [rng.choice([10.0, 30.0, 60.0]) for _ in net.line.index]
    lid = list(net.line.index)
    tid = list(net.trafo.index)
    cases = {"line": {"index": rng.sample(lid, rng.randint(1, len(lid)))}}
    if rng.random() < 0.6:
        cases["trafo"] = {"index": rng.sample(tid, rng.randint(1, len(tid)))}
    if rng.random() < 0.5:
        cases = dict(reversed(list(cases.items())))
    js = pp.to_json(net)
    ins0 = {t: net[t].in_service.values.copy() for t in ("line", "trafo", "bus")}
    try:
        res = run_contingency(net, cases)
    except Exception as e:
        ctx.count("real_n0_failed")
        return
    # brute force on a fresh copy
    ref = pp.from_json_string(js)
    per = {t: {int(i): [] for i in ref[t].index} for t in ("line", "trafo")}
    perb = {int(i): [] for i in ref.bus.index}
    over = {}
    for t, v in cases.items():
        for i in v["index"]:
            if not ref[t].at[i, "in_service"]:
                continue
            n2 = pp.from_json_string(js)
            n2[t].at[i, "in_service"] = False
            try:
                pp.runpp(n2)
            except Exception:
                continue
            anyover = False
            for tt in ("line", "trafo"):
                for j in n2[tt].index:
                    val = n2["res_" + tt].at[j, "loading_percent"]
                    if val > n2[tt].at[j, "max_loading_percent"]:
                        anyover = True
                    if n2[tt].at[j, "in_service"] and not math.isnan(val):
                        per[tt][int(j)].append(((t, int(i)), val))
            for j in n2.bus.index:
                val = n2.res_bus.at[j, "vm_pu"]
                if n2.bus.at[j, "in_service"] and not math.isnan(val):
                    perb[int(j)].append(val)
            over[(t, int(i))] = over.get((t, int(i)), False) or anyover
    case = {"net": js, "cases": {t: [int(i) for i in v["index"]] for t, v in cases.items()}}
    tol = 1e-6

    def bad(what):
        ctx.violation("spec", what, case)

    for tt in ("line", "trafo"):
        r = res[tt]
        for pos, j in enumerate(ref[tt].index):
            vals = per[tt][int(j)]
            mxs = r.get("max_loading_percent")
            if not vals:
                if mxs is not None and not math.isnan(mxs[pos]):
                    bad("%s %d: max reported %r but no valid case" % (tt, j, mxs[pos]))
                continue
            m = max(v for _, v in vals)
            mn = min(v for _, v in vals)
            if abs(mxs[pos] - m) > tol or abs(r["min_loading_percent"][pos] - mn) > tol:
                bad("%s %d: reported max/min %r/%r, brute force %r/%r" % (tt, j, mxs[pos], r["min_loading_percent"][pos], m, mn))
            ce, ci = r["cause_element"][pos], int(r["cause_index"][pos])
            att = [lab for lab, v in vals if abs(v - m) <= tol]
            if (ce, ci) not in att:
                bad("%s %d: cause (%s,%s) does not attain the maximum %r (attained by %s)" % (tt, j, ce, ci, m, att))
            if abs(net["res_" + tt].at[j, "max_loading_percent"] - m) > tol:
                bad("res_%s.max_loading_percent not written for %d" % (tt, j))
        for pos, j in enumerate(ref[tt].index):
            exp = over.get((tt, int(j)), False)
            if bool(r["causes_overloading"][pos]) != exp:
                bad("%s %d: causes_overloading %r, brute force %r" % (tt, j, bool(r["causes_overloading"][pos]), exp))
    for pos, j in enumerate(ref.bus.index):
        vals = perb[int(j)]
        if vals and (abs(res["bus"]["max_vm_pu"][pos] - max(vals)) > tol or abs(res["bus"]["min_vm_pu"][pos] - min(vals)) > tol):
            bad("bus %d: max/min vm %r/%r vs %r/%r" % (j, res["bus"]["max_vm_pu"][pos], res["bus"]["min_vm_pu"][pos], max(vals), min(vals)))
    pp.runpp(ref)
    for tt in ("line", "trafo"):
        if not np.allclose(res[tt]["loading_percent"], ref["res_" + tt].loading_percent.values, atol=tol, equal_nan=True):
            bad("N-0 loading of %s differs from a plain power flow" % tt)
    if not np.allclose(res["bus"]["vm_pu"], ref.res_bus.vm_pu.values, atol=tol, equal_nan=True):
        bad("N-0 vm_pu differs from a plain power flow")
    for t in ins0:
        if not (ins0[t] == net[t].in_service.values).all():
            bad("in_service of %s not restored" % t)
    # res_* tables: before = what a plain power flow leaves (ref), after = net.res_* after the real run_contingency
    wr = []
    for tt in ("bus", "line", "trafo"):
        pre = [(c, list(ref["res_" + tt][c].values)) for c in ref["res_" + tt].columns]
        post = [(c, list(net["res_" + tt][c].values)) for c in net["res_" + tt].columns]
        for w in _write_spec(tt, pre, post, res[tt], veq=_vclose):
            bad(w)
        vals = []

        def idt(cols):
            out = []
            for c, vs in cols:
                ids = []
                for x in vs:
                    vals.append(_cell(c, x))
                    ids.append("OZ %s" % cq.z(len(vals) - 1))
                out.append("(%s, %s)" % (cq.s(c), cq.lst(ids)))
            return cq.lst(out)
        wr.append(("olist okv (write_table %s %s)" % (idt(pre), idt([(k_, list(v)) for k_, v in res[tt].items()])), vals,
                   [[c, [_cell(c, x) for x in vs]] for c, vs in post], case))
    nvalid = sum(len(v) for v in per["line"].values())
    ctx.case(case, nontrivial=nvalid >= 2, sample=None)
    ctx.count("real_nets")
    return wr


def _vclose(key, a, b, tol=1e-6):
    a = [_cell(key, x) for x in a]
    b = [_cell(key, x) for x in b]
    return len(a) == len(b) and all((x is None and y is None) or (x is not None and y is not None and (
        x == y or (not isinstance(x, (bool, str)) and not isinstance(y, (bool, str)) and abs(x - y) <= tol * max(1, abs(x))))) for x, y in zip(a, b))


def _raise_restore(ctx, rng):
    """in_service restored when the evaluation raises and raise_errors=True"""
    from pandapower.contingency import run_contingency
    net = _mk_stub_net(rng)
    ids = [i for i in net.line.index if net.line.at[i, "in_service"]]
    if not ids:
        return
    k = rng.randrange(len(ids))
    calls = [0]

    def stub(n, **kw):
        calls[0] += 1
        if calls[0] - 1 == k:
            raise RuntimeError("boom")
        n["res_line"] = pd.DataFrame({"loading_percent": 1.0}, index=n.line.index)
        n["res_trafo"] = pd.DataFrame({"loading_percent": 1.0}, index=n.trafo.index)
        if len(n.trafo3w):
            n["res_trafo3w"] = pd.DataFrame({"loading_percent": 1.0}, index=n.trafo3w.index)
        n["res_bus"] = pd.DataFrame({"vm_pu": 1.0}, index=n.bus.index)

    before = net.line.in_service.values.copy()
    try:
        run_contingency(net, {"line": {"index": ids}}, contingency_evaluation_function=stub, raise_errors=True)
    except RuntimeError:
        pass
    case = {"lines": [int(i) for i in net.line.index], "raise_at": k}
    ctx.case(case, nontrivial=True)
    ctx.count("raise_restore")
    if not (before == net.line.in_service.values).all():
        ctx.violation("spec", "in_service not restored after the evaluation of outage #%d raised (raise_errors=True)" % k, case)


def run(ctx):
    rng = ctx.rng
    terms, impls, descs = [], [], []
    wterms, wimpls = [], []
    for k in range(ctx.n(250, 3000)):
        term, impl, desc, restored, n0_ok, nontriv, spec_bad, wr = _stub_case(ctx, rng)
        for w in spec_bad[:1]:
            ctx.violation('spec', w, desc)
        if term is not None:
            terms.append(term)
            impls.append(impl)
            descs.append(desc)
            wterms.append(wr[0])
            wimpls.append(wr[1])
        ctx.case(desc, nontrivial=nontriv, sample={"input": desc, "impl": _js(impl)} if k < 2 else None)
        ctx.count("stub_cases")
        ctx.count("succ_cases_%d" % min(sum(1 for r in desc["log"][:-1] if not r["raises"]), 6))
        ctx.count("call_kwargs_%s" % ",".join(sorted(desc.get("call", {}).keys())))
        if not restored:
            ctx.violation("spec", "in_service flags not restored after run_contingency", desc)
        if not n0_ok:
            ctx.violation("spec", "N-0 values are not the values of the plain (last) evaluation", desc)
    nw = ctx.n(110, 3000)      # the table-level model runs on the first nw stub cases (time budget of the quick tier)
    real = []
    for k in range(ctx.n(25, 300)):
        real += _real_oracle(ctx, rng) or []
    real = real[:ctx.n(18, 300)]
    # one evaluation for all three families of terms (coqc start-up dominates the cost of a shard)
    allterms = terms + wterms[:nw] + [r[0] for r in real]
    allmodel = ctx.coq_eval("c14", "Base.QN C14.Model C14.Write", allterms, shard=ctx.n(200, 300))
    model, wmodel, rmodel = allmodel[:len(terms)], allmodel[len(terms):len(terms) + len(wterms[:nw])], allmodel[len(terms) + len(wterms[:nw]):]
    for desc, impl, mod in zip(descs, impls, model):
        ctx.corr_checked += 1
        if _js(impl) != _js(mod):
            ctx.disagreement("contingency result dict differs from the Coq fold: impl=%s model=%s" % (_js(impl)[:300], _js(mod)[:300]), desc)
    for desc, impl, mod in zip(descs, wimpls, wmodel):
        ctx.corr_checked += 1
        if _js(impl) != _js(mod):
            names = ["in_service afterwards", "evaluation trace", "returned dict", "res tables after write_to_net"]
            which = [n for n, a, b_ in zip(names, impl, mod if isinstance(mod, list) else [None] * 4) if _js(a) != _js(b_)]
            ctx.disagreement("table-level run differs from C14.Write.run_write_out in %s: impl=%s model=%s" % (
                which, _js(impl)[:300], _js(mod)[:300]), desc)
    for (term, vals, post, case), mod in zip(real, rmodel):
        ctx.corr_checked += 1
        # the model works on cell ids (write_to_net only moves cells); translate back to the values
        ok = isinstance(mod, list) and [c for c, _ in mod] == [c for c, _ in post] and all(
            _vclose(None, [vals[i] for i in a[1]], b_[1]) for a, b_ in zip(mod, post))
        if not ok:
            ctx.disagreement("real net: res table after run_contingency differs from C14.Write.write_table(plain-runpp table, "
                             "returned dict): impl=%s model=%s" % (_js(post)[:300], _js(mod)[:300]), case)
    for k in range(ctx.n(40, 400)):
        _raise_restore(ctx, rng)


def _js(x):
    if isinstance(x, Fraction):
        return "%d/%d" % (x.numerator, x.denominator)
    if isinstance(x, list):
        return "[" + ",".join(_js(i) for i in x) + "]"
    return repr(x)


def replay(ctx, rec):
    ctx.notes.append("replay: re-running the generators with the recorded seed reproduces the case")
    run(ctx)
