"""C12 — time series == fresh power flow.
Correspondence: for generated controller sets (ConstControl on (element, variable) pairs of the finite domain, tap
controllers, a non-recyclable controller class) and OutputWriter request lists, compare with C12.Model.run_ts:
the recycle entry of every controller, the combined recycle flags (get_recycle_settings), for every time step whether
the voltages solved by run_timeseries equal a fresh power flow of the tables, and what the writer does at the end
(per-step reading, batch reading, KeyError, ValueError).
Dependency table: deps(element, variable) of the model is re-derived mechanically from the code on every run (vf/c12_deps.py:
single-cell perturbation + fresh _pd2ppc diff, pandas access trace, trace of the recycled power flow) and compared exactly with
the Coq table over the whole domain (deps_check).
Oracle: run_timeseries against a hand-written loop "write the step's values, fresh runpp, read the variable"."""
import copy, math
import numpy as np, pandas as pd
import pandapower as pp
import pandapower.control as pc
from pandapower.control.basic_controller import Controller
from pandapower.timeseries import DFData, OutputWriter, run_timeseries
import pandapower.timeseries.run_time_series as rts
from vf import coqrun as cq
from vf import c12_deps as dd

RULE = ("meshed 110/20/10 kV net (2 parallel 2W transformers, 3W transformer, 3-line ring, loads/sgen/storage/gen/shunt/ward/"
        "impedance, random values); 1-3 controllers drawn from ConstControl over the (element, variable) domain (quick: seeded "
        "sample biased to every element class; thorough: every pair), DiscreteTapControl, a non-recyclable controller class, "
        "recycle=False given by the user; 3-4 time steps with pairwise different profile values; OutputWriter requests of 1-3 "
        "(table, variable) entries as constructor 2-tuples or log_variable() entries; non-trivial = recycling active (combined "
        "flags not False) or batch reading active.  On EVERY run, before the generated cases: the dependency table deps(element, "
        "variable) of the model is re-derived from the code on one fixed 22-bus test net with rows in all 13 element tables of the domain "
        "(2 ext_grids, 6 two-winding transformers incl. ideal / symmetrical / characteristic-table tap changers, 3 three-winding "
        "transformers, 21 lines in 3 rings, impedances, shunts, wards, 6 switches incl. an open line switch, fused buses and a bus-bus "
        "switch with impedance): (a) perturbation - change one cell (x1.37, flip, +1, other bus, other tap side / changer type; create the "
        "column when the table lacks it), rebuild with a fresh pd2ppc._pd2ppc, diff the ppc columns the Newton-Raphson power flow reads, "
        "mapped to parts; (b) pandas access trace of one _pd2ppc attributed to the innermost ppc build function as a superset witness; "
        "(c) the build functions that run in runpp(recycle=flags) for all 8 flag combinations; compared with deps / domain / "
        "set_recycle_const / recycled_pf of the Coq model over the whole domain (1053 pairs) plus every column of the test net")
ASSUMPTIONS = ["the mechanical derivation of the dependency table sees a dependency only as far as the fixed test net of vf/c12_deps.py exercises it "
               "(every default column of the 13 element tables is perturbed; columns read by a build function without an observable effect are "
               "listed in the histogram as deps_read_insensitive_*); for in_service / bus-reference / net.bus / net.switch columns the parts "
               "next to PTopo are the knock-on effects on that net",
               "a time step whose Newton-Raphson iteration does not converge from the previous step's voltages, with or without recycling "
               "(checked with a plain runpp(init='results') loop), is skipped: convergence of the solver is not part of the model",
               "the Newton-Raphson solver is an oracle: 'fresh' means the cached ppc parts equal a rebuild from the tables; equality of the "
               "solved voltages with a fresh runpp is observed (|dV| <= 1e-7), not proved",
               "numerical equality of the batch readers (read_batch_results.py) with the per-step result extraction is differential only"]
TRUSTED = ["vf/c12_deps.py FUNC_PART / REBUILDER: the hand-written map ppc build function -> ppc parts it writes (17 functions; over-approximated for "
           "_build_bus_ppc, _select_is_elements_numba and the switch / out-of-service stages, whose output every builder reads) - the only "
           "hand-written piece of the dependency derivation; the column table itself is derived",
           "vf/c12_deps.py full_net: one fixed test net must exercise every column (a column whose effect needs a configuration the net lacks "
           "shows up as 'read but insensitive' in the histogram, the perturbation result decides); optional columns that create_* does not "
           "add (temperature_degree_celsius, tap2_*, leakage ratios ...) are probed only if they are in the Coq domain",
           "vf/c12_deps.py snapshot: the list of ppc columns the Newton-Raphson power flow reads (bus PD QD CID/CZD GS BS VM VA BUS_TYPE, gen "
           "GEN_BUS PG QG QMIN QMAX VG GEN_STATUS, branch F_BUS T_BUS BR_STATUS BR_R BR_X BR_B BR_G TAP SHIFT *_ASYM), read off "
           "makeYbus / makeSbus / bustypes / _get_pf_variables_from_ppci; BR_STATUS counts for the row's part and for the topology",
           "temporary monkeypatches of pandas (DataFrame.__getitem__, .loc/.iloc/.at/.iat, .values, to_numpy, ...) and sys.setprofile, "
           "active only during the traced _pd2ppc / runpp calls of the derivation, harness process only",
           "recording wrapper around pandapower.timeseries.run_time_series.get_recycle_settings (module attribute, harness process only)",
           "output_writer_fct keyword of run_timeseries used to snapshot net._ppc voltages after every time step"]

KF_LINE = "C12-line-recycled-under-trafo-flag"
KF_INS = "C12-trafo-in-service-recycled"
KF_KEY = "C12-batch-keyerror"
KF_TWICE = "C12-batch-same-table-twice"
KF_POISON = "C12-diverged-initial-run-recycled"
KF_SILENT = "C12-only-v-results-ignores-divergence"

VALS = {"p_mw": [1.5, 2.5, 0.5, 2.0], "q_mvar": [0.25, 0.75, -0.25, 0.5], "scaling": [0.5, 1.5, 0.75, 1.25],
        "vm_pu": [1.02, 0.99, 1.03, 1.0], "va_degree": [5., -5., 2., 0.], "tap_pos": [1, -2, 2, 0],
        "vk_percent": [10., 14., 11., 13.], "vkr_percent": [0.3, 0.6, 0.4, 0.5], "length_km": [1.0, 6.0, 2.5, 4.5],
        "r_ohm_per_km": [0.2, 0.05, 0.3, 0.1], "x_ohm_per_km": [0.2, 0.05, 0.3, 0.1], "c_nf_per_km": [100., 400., 10., 250.],
        "g_us_per_km": [10., 0., 50., 25.], "max_i_ka": [0.2, 0.5, 0.3, 0.4], "in_service": [False, True, False, True],
        "parallel": [2, 1, 3, 1], "df": [0.5, 1.0, 0.75, 0.25], "const_z_p_percent": [50., 0., 100., 25.],
        "const_i_p_percent": [50., 0., 100., 25.], "ps_mw": [0.5, 1., 0.25, 0.75], "qs_mvar": [0.5, 1., 0.25, 0.75],
        "pz_mw": [0.5, 1., 0.25, 0.75], "rft_pu": [0.02, 0.03, 0.01, 0.015], "xft_pu": [0.02, 0.03, 0.01, 0.015],
        "sn_mva": [30., 20., 40., 25.], "pfe_kw": [10., 50., 20., 30.], "i0_percent": [0.1, 0.2, 0.05, 0.15],
        "min_q_mvar": [-1., -2., -3., -4.], "max_q_mvar": [1., 2., 3., 4.], "vk_hv_percent": [9., 12., 10., 11.],
        "vk_mv_percent": [9., 12., 10., 11.], "vkr_hv_percent": [0.2, 0.35, 0.25, 0.3], "step": [2, 0, 1, 3],
        "tap_step_percent": [1.0, 2.0, 1.25, 1.75], "max_loading_percent": [50., 80., 100., 60.], "name": None}
ELEMENTS = ["load", "sgen", "storage", "gen", "ext_grid", "trafo", "trafo3w", "line", "shunt", "ward", "impedance"]
LINE_PF = ["length_km", "r_ohm_per_km", "x_ohm_per_km", "c_nf_per_km", "g_us_per_km", "parallel", "in_service"]
KEYS = {"res_line": ["i_ka", "i_from_ka", "i_to_ka", "loading_percent"], "res_trafo": ["i_ka", "i_hv_ka", "i_lv_ka", "loading_percent"],
        "res_trafo3w": ["i_h", "i_m", "i_l", "loading_percent"], "res_bus": ["vm_pu", "va_degree"]}
OUTVARS = {"res_bus": ["vm_pu", "va_degree", "p_mw", "q_mvar"],
           "res_line": ["loading_percent", "i_ka", "i_from_ka", "i_to_ka", "p_from_mw", "q_from_mvar", "pl_mw", "vm_from_pu"],
           "res_trafo": ["loading_percent", "i_hv_ka", "i_lv_ka", "p_hv_mw", "pl_mw"],
           "res_trafo3w": ["loading_percent", "i_hv_ka", "p_hv_mw"],
           "res_load": ["p_mw", "q_mvar"], "res_ext_grid": ["p_mw", "q_mvar"], "res_gen": ["q_mvar", "vm_pu"], "res_sgen": ["p_mw"]}
TABLE_LEN = {"res_bus": 5, "res_line": 3, "res_trafo": 2, "res_trafo3w": 1, "res_load": 3, "res_ext_grid": 1, "res_gen": 1, "res_sgen": 1}
EVAL = {"max": np.max, "min": np.min, "sum": np.sum}
_EMPTY = []


def norm_logs(case):
    """[table, variable, long, index, eval] (older corpus entries have three fields)"""
    return [list(l) + [None] * (5 - len(l)) for l in case["logs"]]


def base_net(rng):
    if not _EMPTY:
        _EMPTY.append(pp.create_empty_network())
    net = copy.deepcopy(_EMPTY[0])
    b0 = pp.create_bus(net, 110.); b1 = pp.create_bus(net, 20.); b2 = pp.create_bus(net, 20.); b3 = pp.create_bus(net, 20.)
    b4 = pp.create_bus(net, 10.)
    pp.create_ext_grid(net, b0, vm_pu=1.01)
    pp.create_transformer(net, b0, b1, "25 MVA 110/20 kV")
    pp.create_transformer(net, b0, b1, "25 MVA 110/20 kV")
    for (a, b_) in ((b1, b2), (b2, b3), (b1, b3)):
        pp.create_line(net, a, b_, rng.randint(4, 16) / 4, "NA2XS2Y 1x240 RM/25 12/20 kV")
    pp.create_transformer3w(net, b0, b2, b4, "63/25/38 MVA 110/20/10 kV")
    pp.create_load(net, b2, rng.randint(8, 20) / 4, 1.0)
    pp.create_load(net, b3, rng.randint(8, 16) / 4, 0.5)
    pp.create_load(net, b4, 2.0, 0.5)
    pp.create_sgen(net, b3, 1.0, 0.25)
    pp.create_storage(net, b2, 0.5, 1.0, q_mvar=0.125)
    pp.create_gen(net, b3, 2.0, vm_pu=1.0)
    pp.create_shunt(net, b2, q_mvar=0.5)
    pp.create_ward(net, b3, 0.125, 0.125, 0.125, 0.125)
    pp.create_impedance(net, b1, b2, 0.01, 0.02, 25.)
    net.trafo["shift_degree"] = 0.0      # the 3W transformer feeding the same 20 kV ring has no phase shift
    return net


def py_domain(net):
    dom = []
    for e in ELEMENTS:
        for v in net[e].columns:
            if VALS.get(v) is not None:
                dom.append((e, v))
    return dom


class StepShunt(Controller):
    """a controller class without recycle support (basic Controller default recycle=False): writes net.shunt.step"""

    def __init__(self, net, values, **kw):
        super().__init__(net, **kw)
        self.values = values
        self.applied = False

    def time_step(self, net, time):
        self.applied = False
        net.shunt.at[0, "step"] = self.values[time]

    def is_converged(self, net):
        return self.applied

    def control_step(self, net):
        self.applied = True


def gen_case(rng, dom, forced=None):
    n = rng.choice([3, 3, 4])
    ctrls = []
    k = rng.choice([1, 1, 2, 2, 3])
    used = set()
    for i in range(k):
        r = rng.random()
        if forced is not None and i == 0:
            e, v = forced
            ctrls.append({"kind": "const", "e": e, "v": v, "user_off": False})
            used.add((e, v))
        elif r < 0.8:
            if rng.random() < 0.65:
                e, v = rng.choice([p for p in dom if (p[0] in ("load", "sgen", "storage") and p[1] in ("p_mw", "q_mvar", "scaling"))
                                   or (p[0] == "gen" and p[1] in ("p_mw", "vm_pu", "scaling")) or (p[0] == "ext_grid" and p[1] in ("vm_pu", "va_degree"))
                                   or (p[0] in ("trafo", "trafo3w") and p[1] != "in_service")
                                   or (p[0] == "line" and rng.random() < 0.25)])
            else:
                e = rng.choice(ELEMENTS)
                v = rng.choice([v for (ee, v) in dom if ee == e])
            if (e, v) in used or (v == "in_service" and e in ("ext_grid",)):
                continue
            used.add((e, v))
            ctrls.append({"kind": "const", "e": e, "v": v, "user_off": rng.random() < 0.07})
        elif r < 0.93:
            if any(c["kind"] == "tap" for c in ctrls) or ("trafo", "tap_pos") in used:
                continue
            ctrls.append({"kind": "tap", "e": "trafo", "user_off": rng.random() < 0.15})
        else:
            if any(c["kind"] == "other" for c in ctrls) or ("shunt", "step") in used:
                continue
            ctrls.append({"kind": "other", "e": "shunt", "v": "step"})
    if not ctrls:
        ctrls.append({"kind": "const", "e": "load", "v": "p_mw", "user_off": False})
    # continue_on_divergence with one step that cannot be solved (5 GW load), anywhere in the profile
    cod = rng.random() < 0.3
    div_step = None
    if (cod and rng.random() < 0.75) or rng.random() < 0.05:
        div_step = rng.randrange(n)
    for c in ctrls:
        if c["kind"] in ("const", "other"):
            vals = list(VALS[c["v"]])
            sh = rng.randrange(4)
            c["values"] = (vals[sh:] + vals[:sh])[:n]
            if c["v"] == "in_service":
                # a boolean profile cannot be pairwise different: switch once after the first step so that a part cached in
                # step 1 is wrong in every later step
                first = rng.random() < 0.5
                c["values"] = [first] + [not first] * (n - 1)
    if div_step is not None:
        vals = [1.0, 2.0, 1.5, 0.5][:n]
        vals[div_step] = 5000.0
        ctrls.append({"kind": "const", "e": "load", "v": "p_mw", "user_off": False, "idx": 1, "values": vals})
    # OutputWriter requests
    logs = []
    style = rng.random()
    m = rng.choice([1, 1, 2, 2, 3])
    for i in range(m):
        if rng.random() < 0.8 or style < 0.5:
            t = rng.choice(["res_bus", "res_line", "res_trafo", "res_trafo3w"])
        else:
            t = rng.choice(list(OUTVARS))
        if rng.random() < (0.9 if style < 0.5 else 0.6) and t in KEYS:
            v = rng.choice([x for x in KEYS[t] if x in OUTVARS[t]] or OUTVARS[t])
        else:
            v = rng.choice(OUTVARS[t])
        if (t, v) in [(e[0], e[1]) for e in logs]:
            continue
        lg = style > 0.8 or (style > 0.65 and rng.random() < 0.5)
        index, ev = None, None
        if lg and rng.random() < 0.6:
            # explicit index: subset, permutation of the full index, or full index in table order
            full = list(range(TABLE_LEN[t]))
            r = rng.random()
            if r < 0.45:
                index = rng.sample(full, rng.randint(1, len(full)))
            elif r < 0.85:
                index = rng.sample(full, len(full))
            else:
                index = full
        if lg and rng.random() < 0.25:
            ev = rng.choice(["max", "min", "sum"])
        logs.append((t, v, lg, index, ev))
    if not logs:
        logs = [("res_bus", "vm_pu", False, None, None)]
    return {"n": n, "ctrls": ctrls, "logs": [list(l) for l in logs], "net_seed": rng.randrange(1 << 30), "cod": cod,
            "div_step": div_step}


def build(case):
    import random
    net = base_net(random.Random(case["net_seed"]))
    objs = []
    n = case["n"]
    for c in case["ctrls"]:
        if c["kind"] == "const":
            vals = c["values"]
            df = pd.DataFrame({"a": vals}, dtype=object if c["v"] == "in_service" else None)
            kw = {"recycle": False} if c["user_off"] else {}
            o = pc.ConstControl(net, c["e"], c["v"], c.get("idx", 0), data_source=DFData(df), profile_name="a", **kw)
        elif c["kind"] == "tap":
            kw = {"recycle": False} if c["user_off"] else {}
            o = pc.DiscreteTapControl(net, 0, 0.99, 1.03, side="lv", **kw)
        else:
            o = StepShunt(net, c["values"])
        objs.append(o)
    return net, objs


def volt(net):
    """complex bus voltages of the last solve, from the ppc (works with only_v_results)"""
    from pandapower.pypower.idx_bus import VM, VA
    ppc = net._ppc
    lk = net._pd2ppc_lookups["bus"]
    out = {}
    for b in net.bus.index:
        row = ppc["bus"][lk[b]]
        out[int(b)] = (float(row[VM]), float(row[VA]))
    return out


def run_impl(case):
    net, objs = build(case)
    rec_col = []
    for o in objs:
        r = net.controller.at[o.index, "recycle"]
        rec_col.append([bool(r["trafo"]), bool(r["gen"]), bool(r["bus_pq"])] if isinstance(r, dict) else None)
    logs = norm_logs(case)
    two = [(t, v) for t, v, lg, ix, ev in logs if not lg]
    ow = OutputWriter(net, time_steps=range(case["n"]), log_variables=list(two))
    for j, (t, v, lg, ix, ev) in enumerate(logs):
        if lg:
            ow.log_variable(t, v, index=ix, eval_function=EVAL.get(ev), eval_name=("ev%d" % j) if ev else None)
    seen = {}
    orig = rts.get_recycle_settings

    def rec_settings(n_, **kw):
        r = orig(n_, **kw)
        seen["r"] = copy.deepcopy(r) if isinstance(r, dict) else r
        return r

    volts = []
    from pandapower.timeseries.run_time_series import _call_output_writer

    def owf(n_, time_step, pf_converged, ctrl_converged, ts_variables):
        try:
            volts.append(volt(n_) if pf_converged else None)
        except Exception:
            volts.append(None)
        return _call_output_writer(n_, time_step, pf_converged, ctrl_converged, ts_variables)

    rts.get_recycle_settings = rec_settings
    exc = None
    try:
        run_timeseries(net, time_steps=range(case["n"]), verbose=False, output_writer_fct=owf, numba=False,
                       continue_on_divergence=bool(case.get("cod", False)))
    except Exception as e:
        exc = type(e).__name__
    finally:
        rts.get_recycle_settings = orig
    r = seen.get("r")
    comb = [bool(r["trafo"]), bool(r["gen"]), bool(r["bus_pq"])] if isinstance(r, dict) else None
    batch = bool(isinstance(r, dict) and r.get("batch_read"))
    outputs = {}
    failed = None
    if exc is None:
        failed = [bool(x) for x in ow.output["Parameters"]["powerflow_failed"].values]
        for j, (t, v, lg, ix, ev) in enumerate(logs):
            df = ow.output.get("%s.%s" % (t, v))
            if df is None:
                outputs[j] = None
            elif ev:
                outputs[j] = {"ev": df["ev%d" % j].values.astype(float)} if ("ev%d" % j) in df.columns else None
            else:
                # by element label: the column of element i must hold the value of element i
                labels = ix if ix is not None else list(range(TABLE_LEN[t]))
                outputs[j] = {int(i): df[i].values.astype(float) for i in labels} if all(i in df.columns for i in labels) else None
    return {"rec_col": rec_col, "comb": comb, "batch": batch, "exc": exc, "volts": volts, "outputs": outputs, "failed": failed}


def run_reference(case, init_results=False):
    """loop of fresh power flows: write the step's values, runpp (with run_control for the tap controller), read.
    init_results=True: every power flow after the first starts from the previous results (what every power flow inside a
    time series does), used to tell solver start-vector sensitivity from a recycling error"""
    import random
    net = base_net(random.Random(case["net_seed"]))
    has_tap = any(c["kind"] == "tap" for c in case["ctrls"])
    if has_tap:
        pc.DiscreteTapControl(net, 0, 0.99, 1.03, side="lv")
    logs = norm_logs(case)
    volts, outs, failed = [], {j: {} for j in range(len(logs))}, []
    for k in range(case["n"]):
        for c in case["ctrls"]:
            if c["kind"] in ("const", "other"):
                net[c["e"]].at[c.get("idx", 0), c["v"]] = c["values"][k]
        try:
            if init_results and k > 0 and not failed[-1]:
                pp.runpp(net, run_control=has_tap, numba=False, init="results")
            else:
                pp.runpp(net, run_control=has_tap, numba=False)
        except Exception as e:
            failed.append(True)
            volts.append(None)
            continue
        failed.append(False)
        volts.append(volt(net))
        for j, (t, v, lg, ix, ev) in enumerate(logs):
            col = net[t][v]
            if ev:
                vals = col.loc[ix].values if ix is not None else col.values
                outs[j].setdefault("ev", {})[k] = float(EVAL[ev](vals.astype(float)))
            else:
                for i in (ix if ix is not None else list(col.index)):
                    outs[j].setdefault(int(i), {})[k] = float(col.at[i])
    return {"volts": volts, "outputs": outs, "failed": failed}


def same_v(a, b, tol=1e-7):
    if a is None or b is None:
        return False
    for k in a:
        (m1, a1), (m2, a2) = a[k], b[k]
        if math.isnan(m1) and math.isnan(m2):
            continue
        if not (abs(m1 - m2) <= tol and abs(a1 - a2) <= 1e-5):
            return False
    return True


def model_term(case, divs):
    cs = []
    for c in case["ctrls"]:
        if c["kind"] == "const":
            cs.append("(CConst %s %s %s)" % (cq.b(c["user_off"]), cq.s(c["e"]), cq.s(c["v"])))
        elif c["kind"] == "tap":
            cs.append("(CTap %s %s)" % (cq.b(c["user_off"]), cq.s(c["e"])))
        else:
            cs.append("(COther %s %s)" % (cq.s(c["e"]), cq.s(c["v"])))
    logs = norm_logs(case)
    terms = ["{| l_table := %s; l_var := %s; l_long := %s |}" % (cq.s(t), cq.s(v), cq.b(lg)) for t, v, lg, ix, ev in logs]
    # the two-tuples come first in ow.log_variables, entries added with log_variable() afterwards
    order = [l for l, e in zip(terms, logs) if not e[2]] + [l for l, e in zip(terms, logs) if e[2]]
    return "run_ts_div %s %s %s" % (cq.lst(cs), cq.lst([cq.b(d) for d in divs]), cq.lst(order))


def guards(case, comb):
    """python re-implementation of the guards on the input.  After the repairs (ConstControl.set_recycle, batch eligibility
    per variable, get_batch_outputs) the first four failures are not expected any more; the classification keys are kept so
    that a regression is reported under its old name"""
    logs = norm_logs(case)
    line = any(c["kind"] == "const" and not c["user_off"] and c["e"] == "line" and c["v"] in LINE_PF for c in case["ctrls"])
    tins = any(c["kind"] == "const" and not c["user_off"] and c["e"] in ("trafo", "trafo3w") and c["v"] == "in_service" for c in case["ctrls"])
    elig = comb is not None and not comb[0] and all((not lg) and t in KEYS for t, v, lg, ix, ev in logs)
    keyerr = twice = False
    if elig:
        seen = set()
        for t, v, lg, ix, ev in logs:
            if t != "res_trafo3w" and t in seen:
                twice = True
                break
            seen.add(t)
            if v not in KEYS[t]:
                keyerr = True
                break
    # G12c: a controller with an initial run (every class but ConstControl) together with active recycling
    poison = comb is not None and any(c["kind"] in ("tap", "other") for c in case["ctrls"])
    return line, tins, keyerr, twice, poison


def judge(ctx, case, impl, ref, divs, desc, mod):
    n = case["n"]
    logs = norm_logs(case)
    m_rec, m_comb, m_steps, m_w = mod          # m_steps[k]: None = reported failed, bool = solved fresh / stale
    # ---- what the implementation did, per step: None = flagged failed, "raised", or fresh bool
    status = []
    done = len(impl["volts"])
    for k in range(n):
        if impl["exc"] in (None, "KeyError", "ValueError"):
            if k < done and impl["volts"][k] is None:
                status.append(None)
            elif k < done:
                status.append(bool(ref["volts"][k] is not None and same_v(impl["volts"][k], ref["volts"][k])) if ref["volts"][k] is not None else "solved_unsolvable")
            else:
                status.append("missing")
        else:
            if k < done:
                status.append(None if impl["volts"][k] is None else (bool(same_v(impl["volts"][k], ref["volts"][k])) if ref["volts"][k] is not None else "solved_unsolvable"))
            elif k == done:
                status.append("raised")
            else:
                status.append("aborted")
    if impl["exc"] is None and impl["failed"] is not None:
        for k in range(n):
            if impl["failed"][k] != (status[k] is None):
                status[k] = "flag_mismatch"
    # a step the fresh loop solves but the time series reports as failed / raises on although the model expects a solve:
    # is it the solver's sensitivity to the start vector (previous voltages)?  then there is nothing to compare
    suspicious = [k for k in range(n) if status[k] in (None, "raised") and not divs[k] and m_steps[k] is not None]
    if suspicious:
        r2 = run_reference(case, init_results=True)
        if r2["failed"][suspicious[0]]:
            ctx.count("solver_diverges_from_previous_results_skipped")
            ctx.case(desc, nontrivial=False)
            return
    if impl["exc"] in ("KeyError", "ValueError"):
        wv = cq.Err(impl["exc"])
    elif impl["batch"]:
        wv = "batch"
    else:
        wv = "per_step"
    # ---- correspondence
    ctx.corr_checked += 1
    cmp_steps = []
    for k in range(n):
        if status[k] in ("aborted", "missing"):
            break
        mk = "solved_unsolvable" if m_steps[k] == "silent" else m_steps[k]
        cmp_steps.append((status[k], mk if status[k] != "raised" else ("raised" if mk is None else mk)))
        if mk == "solved_unsolvable":
            break       # what a power flow started from silently diverged internals gives afterwards is not modelled
    steps_differ = [k for k, (a, b_) in enumerate(cmp_steps) if a != b_]
    pf_failed = impl["exc"] is not None and impl["exc"] not in ("KeyError", "ValueError")
    if m_rec != impl["rec_col"]:
        ctx.disagreement("recycle column: impl %s model %s" % (impl["rec_col"], m_rec), desc)
    elif m_comb != impl["comb"]:
        ctx.disagreement("combined recycle flags: impl %s model %s" % (impl["comb"], m_comb), desc)
    elif steps_differ:
        ctx.disagreement("per time step (None = reported failed, True/False = solve equals / differs from a fresh power flow): impl %s model %s (exception %s)" % (
            [a for a, _ in cmp_steps], [b_ for _, b_ in cmp_steps], impl["exc"]), desc)
    elif not pf_failed and m_w != wv:
        ctx.disagreement("writer: impl %s (batch=%s) model %s" % (wv, impl["batch"], m_w), desc)
    # ---- oracle: the property itself, against the fresh loop
    line, tins, keyerr, twice, poison = guards(case, impl["comb"])
    viol = []
    if impl["exc"] == "KeyError":
        viol.append((KF_KEY if (keyerr and m_w == cq.Err("KeyError")) else "spec", "run_timeseries raised KeyError instead of recording %s" % logs))
    elif impl["exc"] == "ValueError":
        viol.append((KF_TWICE if (twice and m_w == cq.Err("ValueError")) else "spec", "run_timeseries raised ValueError instead of recording %s" % logs))
    else:
        for k in range(n):
            st = status[k]
            if st in ("aborted", "missing"):
                break
            if divs[k]:
                # the fresh power flow of this step does not converge: the time series must say so
                if st not in (None, "raised"):
                    kind = KF_SILENT if (impl["batch"] and k >= 1 and m_steps[k] == "silent") else "spec"
                    viol.append((kind, "time step %d cannot be solved by a fresh power flow, but run_timeseries does not report it as failed (%s)" % (k, st)))
                    break
                continue
            if st is True:
                continue
            earlier_div = any(divs[:k])
            if st in (None, "raised", "flag_mismatch"):
                kind = KF_POISON if (poison and earlier_div and case.get("cod") and m_steps[k] is None) else "spec"
                viol.append((kind, "time step %d is reported as failed (%s) although a fresh power flow of its tables converges%s" % (
                    k, st, " (an earlier step diverged)" if earlier_div else "")))
            else:
                if (line or tins) and m_steps[k] is False:
                    kind = KF_LINE if line else KF_INS
                else:
                    kind = "spec"
                viol.append((kind, "time step %d of run_timeseries differs from a fresh power flow of the step's tables" % k))
            break
    if impl["exc"] is None and not viol:
        for j, (t, v, lg, ix, ev) in enumerate(logs):
            got = impl["outputs"].get(j)
            exp = ref["outputs"][j]
            bad = None
            if got is None:
                bad = "requested %s.%s (index %s, eval %s) is missing from OutputWriter.output" % (t, v, ix, ev)
            else:
                for lab, series in exp.items():
                    for k, val in series.items():
                        if status[k] is not True:
                            continue
                        g = got[lab][k]
                        if not (abs(g - val) <= 1e-6 * max(1.0, abs(val)) or (g != g and val != val)):
                            bad = "recorded %s.%s[%s] at time step %d is %r, the fresh loop gives %r (index %s, eval %s, batch=%s)" % (
                                t, v, lab, k, g, val, ix, ev, impl["batch"])
                            break
                    if bad:
                        break
            if bad:
                viol.append(("spec", bad))
                break
    for kind, what in viol[:1]:
        ctx.violation(kind, what, desc)
    ctx.count("writer_%s" % (wv if isinstance(wv, str) else wv.s))
    ctx.count("recycle_%s" % ("off" if impl["comb"] is None else "".join("TGB"[i] if f else "-" for i, f in enumerate(impl["comb"]))))
    ctx.count("all_steps_fresh" if all(x is True for x in status) else "some_step_not_fresh_or_failed")
    if any(divs):
        ctx.count("diverging_step_cod_%s" % bool(case.get("cod")))
    for e in logs:
        ctx.count("log_%s%s%s" % ("long" if e[2] else "tuple", "_index" if e[3] is not None else "", "_eval" if e[4] else ""))
    for c in case["ctrls"]:
        ctx.count("ctrl_%s_%s" % (c["kind"], c["e"]))
    ctx.case(desc, nontrivial=impl["comb"] is not None or impl["batch"],
             sample={"case": desc, "impl": {"recycle": impl["rec_col"], "combined": impl["comb"], "steps": [str(x) for x in status], "writer": str(wv)}})


def deps_check(ctx):
    """derive deps mechanically from the code and compare with the Coq table over the whole domain"""
    net = dd.full_net()
    pp.runpp(net, **dd.PF_KW)
    reads = dd.access_trace(net)
    d_el, d_col, d_len = ctx.coq_eval("c12dom", "C12.Model", ["run_domain"], timeout=600)[0]
    m_dom = [(e, v) for e in d_el for v in d_col]
    if d_len != len(m_dom) or len(set(m_dom)) != len(m_dom):
        ctx.disagreement("the model's domain has %s pairs, its axes give %d" % (d_len, len(set(m_dom))), {"deps": "domain"})
    dom_set = set(m_dom)
    table, errors, tried = dd.perturbation_table(net, reads, m_dom)
    pairs = list(m_dom) + [k for k in table if k not in dom_set]
    term = "run_deps %s" % cq.lst(["(%s, %s)" % (cq.s(e), cq.s(v)) for e, v in pairs])
    m_rows = ctx.coq_eval("c12deps", "C12.Model", [term], timeout=600)[0]
    tables = set(dd.ELEMS)
    if {e for e, _ in m_dom} != tables:
        ctx.disagreement("element tables of the Coq domain %s differ from the tables of the test net %s" % (sorted({e for e, _ in m_dom}), sorted(tables)), {"deps": "tables"})
    flag_objs = {}
    for (e, v), (m_parts, m_flags) in zip(pairs, m_rows):
        desc = {"deps_pair": [e, v]}
        in_dom = (e, v) in dom_set
        exists = v in net[e].columns
        derived = table.get((e, v))
        tparts = dd.trace_parts(reads.get((e, v), ()))
        pf_read = bool(tparts)
        ctx.corr_checked += 1
        if tried.get((e, v), 0) == 0:
            # every perturbed net was rejected by pd2ppc (or no alternative value): nothing derivable from the diff
            ctx.count("deps_underivable_%s.%s" % (e, v))
            if m_parts:
                ctx.disagreement("deps %s.%s = %s in the model but no perturbation of the test net could be converted" % (e, v, m_parts), desc)
            continue
        if errors.get((e, v)):
            ctx.count("deps_some_perturbation_rejected")
        if sorted(m_parts) != sorted(derived):
            ctx.disagreement("deps %s.%s: model %s, derived from the code by perturbation %s (access trace: %s)" % (
                e, v, m_parts, derived, sorted(reads.get((e, v), ()))), desc)
            continue
        missing = [p for p in derived if p not in tparts]
        if exists and missing:
            ctx.disagreement("deps %s.%s: perturbation changes %s but the access trace saw no read in a build function of %s (reads: %s)" % (
                e, v, derived, missing, sorted(reads.get((e, v), ()))), desc)
            continue
        if (derived or pf_read) and not in_dom:
            ctx.disagreement("%s.%s is %s but is not in the model's domain" % (e, v, "computed into %s" % derived if derived else "read by %s" % sorted(reads[(e, v)])), desc)
            continue
        if pf_read and not derived:
            ctx.count("deps_read_in_build_function_but_insensitive")     # the perturbation result decides
            ctx.count("deps_read_insensitive_%s.%s" % (e, v))
        ctx.count("deps_pair_%s" % ("+".join(derived) if derived else ("none_column_absent" if not exists else "none")))
        # the recycle entry ConstControl really claims for the pair (columns of the test net only)
        if exists and e in ("load", "sgen", "storage", "gen", "ext_grid", "trafo", "trafo3w", "line", "shunt", "ward", "impedance"):
            ctx.corr_checked += 1
            c = pc.ConstControl(net, e, v, net[e].index[0], data_source=None)
            r = net.controller.at[c.index, "recycle"]
            got = [bool(r["trafo"]), bool(r["gen"]), bool(r["bus_pq"])] if isinstance(r, dict) else None
            if got != m_flags:
                ctx.disagreement("ConstControl(%s, %s).set_recycle: impl %s model %s" % (e, v, got, m_flags), desc)
    net.controller.drop(net.controller.index, inplace=True)
    # which parts a recycled power flow rebuilds, for the 8 flag combinations
    rb, builders = dd.rebuilt_by_flags(net)
    combos = sorted(rb)
    m_rb = ctx.coq_eval("c12rb", "C12.Model", ["run_rebuilt %s %s %s" % (cq.b(t), cq.b(g), cq.b(b_)) for t, g, b_ in combos], timeout=600)
    for k, mp in zip(combos, m_rb):
        ctx.corr_checked += 1
        got = sorted(p for p, ok in rb[k]["parts"].items() if ok)
        if not rb[k]["recycled"]:
            ctx.disagreement("runpp(recycle=%s) on stored internals did not take the recycled power flow" % (k,), {"deps_flags": list(k)})
        elif got != sorted(mp):
            ctx.disagreement("recycled power flow under flags (trafo, gen, bus_pq)=%s rebuilds %s (functions %s), the model says %s" % (
                k, got, rb[k]["called"], sorted(mp)), {"deps_flags": list(k)})
    missing_builders = [p for p in dd.BASE_PARTS + ["PYbus", "PSbus"] if p not in builders]
    if missing_builders:
        ctx.disagreement("no build function of %s ran in the full power flow of the test net" % missing_builders, {"deps": "builders"})
    ctx.extra["deps_pairs_compared"] = len(pairs)
    ctx.extra["deps_domain_pairs"] = len(m_dom)
    ctx.extra["deps_perturbed_nets"] = int(sum(tried.values()))
    ctx.extra["deps_columns_in_test_net"] = int(sum(len(net[e].columns) for e in dd.ELEMS))


def run(ctx):
    rng = ctx.rng
    import random, os, glob, json
    deps_check(ctx)
    dom = py_domain(base_net(random.Random(1)))
    cases = []
    for f in sorted(glob.glob(os.path.join(cq.VERIF, "corpus", "C12", "*.json"))):
        cases.append(json.load(open(f)))
    # every element class at least twice, then random
    forced = []
    for e in ELEMENTS:
        vs = [p for p in dom if p[0] == e and not (p == ("ext_grid", "in_service"))]
        forced += rng.sample(vs, min(len(vs), ctx.n(2, len(vs))))
    forced += [("line", "length_km"), ("line", "max_i_ka"), ("trafo", "tap_pos")]
    for p in forced:
        cases.append(gen_case(rng, dom, forced=p))
    for k in range(ctx.n(50, 800)):
        cases.append(gen_case(rng, dom))
    pre = []
    for case in cases:
        ref = run_reference(case)
        impl = run_impl(case)
        desc = {k: case.get(k) for k in ("n", "ctrls", "logs", "net_seed", "cod", "div_step")}
        pre.append((case, impl, ref, list(ref["failed"]), desc))
    terms = [model_term(c, divs) for c, _, _, divs, _ in pre]
    model = ctx.coq_eval("c12", "C12.Model", terms, shard=40, timeout=1200)
    for (case, impl, ref, divs, desc), mod in zip(pre, model):
        judge(ctx, case, impl, ref, divs, desc, mod)
    ctx.extra["domain_pairs_in_net"] = len(dom)


def replay(ctx, rec):
    case = rec["case"]
    ref = run_reference(case)
    impl = run_impl(case)
    divs = list(ref["failed"])
    mod = ctx.coq_eval("c12r", "C12.Model", [model_term(case, divs)], timeout=1200)[0]
    judge(ctx, case, impl, ref, divs, {k: case.get(k) for k in ("n", "ctrls", "logs", "net_seed", "cod", "div_step")}, mod)
