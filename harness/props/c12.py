"""C12 — time series == fresh power flow.
Correspondence: for generated controller sets (ConstControl on (element, variable) pairs of the finite domain, tap
controllers, a non-recyclable controller class) and OutputWriter request lists, compare with C12.Model.run_ts:
the recycle entry of every controller, the combined recycle flags (get_recycle_settings), for every time step whether
the voltages solved by run_timeseries equal a fresh power flow of the tables, and what the writer does at the end
(per-step reading, batch reading, KeyError, ValueError).
Oracle: run_timeseries against a hand-written loop "write the step's values, fresh runpp, read the variable"."""
import copy, math
import numpy as np, pandas as pd
import pandapower as pp
import pandapower.control as pc
from pandapower.control.basic_controller import Controller
from pandapower.timeseries import DFData, OutputWriter, run_timeseries
import pandapower.timeseries.run_time_series as rts
from vf import coqrun as cq

RULE = ("meshed 110/20/10 kV net (2 parallel 2W transformers, 3W transformer, 3-line ring, loads/sgen/storage/gen/shunt/ward/"
        "impedance, random values); 1-3 controllers drawn from ConstControl over the (element, variable) domain (quick: seeded "
        "sample biased to every element class; thorough: every pair), DiscreteTapControl, a non-recyclable controller class, "
        "recycle=False given by the user; 3-4 time steps with pairwise different profile values; OutputWriter requests of 1-3 "
        "(table, variable) entries as constructor 2-tuples or log_variable() entries; non-trivial = recycling active (combined "
        "flags not False) or batch reading active")
ASSUMPTIONS = ["a time step whose Newton-Raphson iteration does not converge from the previous step's voltages, with or without recycling "
               "(checked with a plain runpp(init='results') loop), is skipped: convergence of the solver is not part of the model",
               "the Newton-Raphson solver is an oracle: 'fresh' means the cached ppc parts equal a rebuild from the tables; equality of the "
               "solved voltages with a fresh runpp is observed (|dV| <= 1e-7), not proved",
               "numerical equality of the batch readers (read_batch_results.py) with the per-step result extraction is differential only"]
TRUSTED = ["recording wrapper around pandapower.timeseries.run_time_series.get_recycle_settings (module attribute, harness process only)",
           "output_writer_fct keyword of run_timeseries used to snapshot net._ppc voltages after every time step"]

KF_LINE = "C12-line-recycled-under-trafo-flag"
KF_INS = "C12-trafo-in-service-recycled"
KF_KEY = "C12-batch-keyerror"
KF_TWICE = "C12-batch-same-table-twice"

VALS = {"p_mw": [1.5, 2.5, 0.5, 2.0], "q_mvar": [0.25, 0.75, -0.25, 0.5], "scaling": [0.5, 1.5, 0.75, 1.25],
        "vm_pu": [1.02, 0.99, 1.03, 1.0], "va_degree": [5., -5., 2., 0.], "tap_pos": [1, -2, 2, 0],
        "vk_percent": [10., 14., 11., 13.], "vkr_percent": [0.3, 0.6, 0.4, 0.5], "length_km": [1.0, 6.0, 2.5, 4.5],
        "r_ohm_per_km": [0.2, 0.05, 0.3, 0.1], "x_ohm_per_km": [0.2, 0.05, 0.3, 0.1], "c_nf_per_km": [100., 400., 10., 250.],
        "g_us_per_km": [10., 0., 50., 25.], "max_i_ka": [0.2, 0.5, 0.3, 0.4], "in_service": [False, True, False, True],
        "parallel": [2, 1, 3, 1], "df": [0.5, 1.0, 0.75, 0.25], "const_z_p_percent": [50., 0., 100., 25.],
        "const_i_p_percent": [50., 0., 100., 25.], "ps_mw": [0.5, 1., 0.25, 0.75], "qs_mvar": [0.5, 1., 0.25, 0.75],
        "pz_mw": [0.5, 1., 0.25, 0.75], "rft_pu": [0.02, 0.03, 0.01, 0.015], "xft_pu": [0.02, 0.03, 0.01, 0.015],
        "sn_mva": [30., 20., 40., 25.], "pfe_kw": [10., 50., 20., 30.], "i0_percent": [0.1, 0.2, 0.05, 0.15],
        "min_q_mvar": [-1., -2., -3., -4.], "max_q_mvar": [1., 2., 3., 4.], "vk_hv_percent": [9., 12., 10., 11.],
        "vk_mv_percent": [9., 12., 10., 11.], "vkr_hv_percent": [0.2, 0.35, 0.25, 0.3], "step": [2, 0, 1, 3],
        "tap_step_percent": [1.0, 2.0, 1.25, 1.75], "max_loading_percent": [50., 80., 100., 60.], "name": None}
ELEMENTS = ["load", "sgen", "storage", "gen", "ext_grid", "trafo", "trafo3w", "line", "shunt", "ward", "impedance"]
LINE_PF = ["length_km", "r_ohm_per_km", "x_ohm_per_km", "c_nf_per_km", "g_us_per_km", "parallel", "in_service"]
KEYS = {"res_line": ["i_ka", "i_from_ka", "i_to_ka", "loading_percent"], "res_trafo": ["i_ka", "i_hv_ka", "i_lv_ka", "loading_percent"],
        "res_trafo3w": ["i_h", "i_m", "i_l", "loading_percent"], "res_bus": ["vm_pu", "va_degree"]}
OUTVARS = {"res_bus": ["vm_pu", "va_degree", "p_mw", "q_mvar"],
           "res_line": ["loading_percent", "i_ka", "i_from_ka", "i_to_ka", "p_from_mw", "q_from_mvar", "pl_mw", "vm_from_pu"],
           "res_trafo": ["loading_percent", "i_hv_ka", "i_lv_ka", "p_hv_mw", "pl_mw"],
           "res_trafo3w": ["loading_percent", "i_hv_ka", "p_hv_mw"],
           "res_load": ["p_mw", "q_mvar"], "res_ext_grid": ["p_mw", "q_mvar"], "res_gen": ["q_mvar", "vm_pu"], "res_sgen": ["p_mw"]}
_EMPTY = []


def base_net(rng):
    if not _EMPTY:
        _EMPTY.append(pp.create_empty_network())
    net = copy.deepcopy(_EMPTY[0])
    b0 = pp.create_bus(net, 110.); b1 = pp.create_bus(net, 20.); b2 = pp.create_bus(net, 20.); b3 = pp.create_bus(net, 20.)
    b4 = pp.create_bus(net, 10.)
    pp.create_ext_grid(net, b0, vm_pu=1.01)
    pp.create_transformer(net, b0, b1, "25 MVA 110/20 kV")
    pp.create_transformer(net, b0, b1, "25 MVA 110/20 kV")
    for (a, b_) in ((b1, b2), (b2, b3), (b1, b3)):
        pp.create_line(net, a, b_, rng.randint(4, 16) / 4, "NA2XS2Y 1x240 RM/25 12/20 kV")
    pp.create_transformer3w(net, b0, b2, b4, "63/25/38 MVA 110/20/10 kV")
    pp.create_load(net, b2, rng.randint(8, 20) / 4, 1.0)
    pp.create_load(net, b3, rng.randint(8, 16) / 4, 0.5)
    pp.create_load(net, b4, 2.0, 0.5)
    pp.create_sgen(net, b3, 1.0, 0.25)
    pp.create_storage(net, b2, 0.5, 1.0, q_mvar=0.125)
    pp.create_gen(net, b3, 2.0, vm_pu=1.0)
    pp.create_shunt(net, b2, q_mvar=0.5)
    pp.create_ward(net, b3, 0.125, 0.125, 0.125, 0.125)
    pp.create_impedance(net, b1, b2, 0.01, 0.02, 25.)
    return net


def py_domain(net):
    dom = []
    for e in ELEMENTS:
        for v in net[e].columns:
            if VALS.get(v) is not None:
                dom.append((e, v))
    return dom


class StepShunt(Controller):
    """a controller class without recycle support (basic Controller default recycle=False): writes net.shunt.step"""

    def __init__(self, net, values, **kw):
        super().__init__(net, **kw)
        self.values = values
        self.applied = False

    def time_step(self, net, time):
        self.applied = False
        net.shunt.at[0, "step"] = self.values[time]

    def is_converged(self, net):
        return self.applied

    def control_step(self, net):
        self.applied = True


def gen_case(rng, dom, forced=None):
    n = rng.choice([3, 3, 4])
    ctrls = []
    k = rng.choice([1, 1, 2, 2, 3])
    used = set()
    for i in range(k):
        r = rng.random()
        if forced is not None and i == 0:
            e, v = forced
            ctrls.append({"kind": "const", "e": e, "v": v, "user_off": False})
            used.add((e, v))
        elif r < 0.8:
            if rng.random() < 0.65:
                e, v = rng.choice([p for p in dom if (p[0] in ("load", "sgen", "storage") and p[1] in ("p_mw", "q_mvar", "scaling"))
                                   or (p[0] == "gen" and p[1] in ("p_mw", "vm_pu", "scaling")) or (p[0] == "ext_grid" and p[1] in ("vm_pu", "va_degree"))
                                   or (p[0] in ("trafo", "trafo3w") and p[1] != "in_service")
                                   or (p[0] == "line" and rng.random() < 0.25)])
            else:
                e = rng.choice(ELEMENTS)
                v = rng.choice([v for (ee, v) in dom if ee == e])
            if (e, v) in used or (v == "in_service" and e in ("ext_grid",)):
                continue
            used.add((e, v))
            ctrls.append({"kind": "const", "e": e, "v": v, "user_off": rng.random() < 0.07})
        elif r < 0.93:
            if any(c["kind"] == "tap" for c in ctrls) or ("trafo", "tap_pos") in used:
                continue
            ctrls.append({"kind": "tap", "e": "trafo", "user_off": rng.random() < 0.15})
        else:
            if any(c["kind"] == "other" for c in ctrls) or ("shunt", "step") in used:
                continue
            ctrls.append({"kind": "other", "e": "shunt", "v": "step"})
    if not ctrls:
        ctrls.append({"kind": "const", "e": "load", "v": "p_mw", "user_off": False})
    for c in ctrls:
        if c["kind"] in ("const", "other"):
            vals = list(VALS[c["v"]])
            sh = rng.randrange(4)
            c["values"] = (vals[sh:] + vals[:sh])[:n]
            if c["v"] == "in_service":
                # a boolean profile cannot be pairwise different: switch once after the first step so that a part cached in
                # step 1 is wrong in every later step
                first = rng.random() < 0.5
                c["values"] = [first] + [not first] * (n - 1)
    # OutputWriter requests
    logs = []
    style = rng.random()
    m = rng.choice([1, 1, 2, 2, 3])
    for i in range(m):
        if rng.random() < 0.8 or style < 0.5:
            t = rng.choice(["res_bus", "res_line", "res_trafo", "res_trafo3w"])
        else:
            t = rng.choice(list(OUTVARS))
        if rng.random() < (0.9 if style < 0.5 else 0.6) and t in KEYS:
            v = rng.choice([x for x in KEYS[t] if x in OUTVARS[t]] or OUTVARS[t])
        else:
            v = rng.choice(OUTVARS[t])
        if (t, v) in [(a, b_) for a, b_, _ in logs]:
            continue
        logs.append((t, v, style > 0.8 or (style > 0.65 and rng.random() < 0.5)))
    if not logs:
        logs = [("res_bus", "vm_pu", False)]
    return {"n": n, "ctrls": ctrls, "logs": [list(l) for l in logs], "net_seed": rng.randrange(1 << 30)}


def build(case):
    import random
    net = base_net(random.Random(case["net_seed"]))
    objs = []
    n = case["n"]
    for c in case["ctrls"]:
        if c["kind"] == "const":
            vals = c["values"]
            df = pd.DataFrame({"a": vals}, dtype=object if c["v"] == "in_service" else None)
            kw = {"recycle": False} if c["user_off"] else {}
            o = pc.ConstControl(net, c["e"], c["v"], 0, data_source=DFData(df), profile_name="a", **kw)
        elif c["kind"] == "tap":
            kw = {"recycle": False} if c["user_off"] else {}
            o = pc.DiscreteTapControl(net, 0, 0.99, 1.03, side="lv", **kw)
        else:
            o = StepShunt(net, c["values"])
        objs.append(o)
    return net, objs


def volt(net):
    """complex bus voltages of the last solve, from the ppc (works with only_v_results)"""
    from pandapower.pypower.idx_bus import VM, VA
    ppc = net._ppc
    lk = net._pd2ppc_lookups["bus"]
    out = {}
    for b in net.bus.index:
        row = ppc["bus"][lk[b]]
        out[int(b)] = (float(row[VM]), float(row[VA]))
    return out


def run_impl(case):
    net, objs = build(case)
    rec_col = []
    for o in objs:
        r = net.controller.at[o.index, "recycle"]
        rec_col.append([bool(r["trafo"]), bool(r["gen"]), bool(r["bus_pq"])] if isinstance(r, dict) else None)
    two = [(t, v) for t, v, lg in case["logs"] if not lg]
    ow = OutputWriter(net, time_steps=range(case["n"]), log_variables=list(two))
    for t, v, lg in case["logs"]:
        if lg:
            ow.log_variable(t, v)
    seen = {}
    orig = rts.get_recycle_settings

    def rec_settings(n_, **kw):
        r = orig(n_, **kw)
        seen["r"] = copy.deepcopy(r) if isinstance(r, dict) else r
        return r

    volts = []
    from pandapower.timeseries.run_time_series import _call_output_writer

    def owf(n_, time_step, pf_converged, ctrl_converged, ts_variables):
        try:
            volts.append(volt(n_) if pf_converged else None)
        except Exception:
            volts.append(None)
        return _call_output_writer(n_, time_step, pf_converged, ctrl_converged, ts_variables)

    rts.get_recycle_settings = rec_settings
    exc = None
    try:
        run_timeseries(net, time_steps=range(case["n"]), verbose=False, output_writer_fct=owf, numba=False)
    except Exception as e:
        exc = type(e).__name__
    finally:
        rts.get_recycle_settings = orig
    r = seen.get("r")
    comb = [bool(r["trafo"]), bool(r["gen"]), bool(r["bus_pq"])] if isinstance(r, dict) else None
    batch = bool(isinstance(r, dict) and r.get("batch_read"))
    outputs = {}
    if exc is None:
        for t, v, lg in case["logs"]:
            key = "%s.%s" % (t, v)
            outputs[key] = ow.output[key].values.astype(float) if key in ow.output else None
    return {"rec_col": rec_col, "comb": comb, "batch": batch, "exc": exc, "volts": volts, "outputs": outputs}


def run_reference(case, init_results=False):
    """loop of fresh power flows: write the step's values, runpp (with run_control for the tap controller), read.
    init_results=True: every power flow after the first starts from the previous results (what every power flow inside a
    time series does), used to tell solver start-vector sensitivity from a recycling error"""
    import random
    net = base_net(random.Random(case["net_seed"]))
    has_tap = any(c["kind"] == "tap" for c in case["ctrls"])
    if has_tap:
        pc.DiscreteTapControl(net, 0, 0.99, 1.03, side="lv")
    volts, outs = [], {"%s.%s" % (t, v): [] for t, v, _ in case["logs"]}
    for k in range(case["n"]):
        for c in case["ctrls"]:
            if c["kind"] in ("const", "other"):
                net[c["e"]].at[0, c["v"]] = c["values"][k]
        try:
            if init_results and k > 0:
                pp.runpp(net, run_control=has_tap, numba=False, init="results")
            else:
                pp.runpp(net, run_control=has_tap, numba=False)
        except Exception as e:
            return None
        volts.append(volt(net))
        for t, v, _ in case["logs"]:
            outs["%s.%s" % (t, v)].append(net[t][v].values.astype(float).copy())
    return {"volts": volts, "outputs": {k: np.array(v) for k, v in outs.items()}}


def same_v(a, b, tol=1e-7):
    if a is None or b is None:
        return False
    for k in a:
        (m1, a1), (m2, a2) = a[k], b[k]
        if math.isnan(m1) and math.isnan(m2):
            continue
        if not (abs(m1 - m2) <= tol and abs(a1 - a2) <= 1e-5):
            return False
    return True


def model_term(case):
    cs = []
    for c in case["ctrls"]:
        if c["kind"] == "const":
            cs.append("(CConst %s %s %s)" % (cq.b(c["user_off"]), cq.s(c["e"]), cq.s(c["v"])))
        elif c["kind"] == "tap":
            cs.append("(CTap %s %s)" % (cq.b(c["user_off"]), cq.s(c["e"])))
        else:
            cs.append("(COther %s %s)" % (cq.s(c["e"]), cq.s(c["v"])))
    logs = ["{| l_table := %s; l_var := %s; l_long := %s |}" % (cq.s(t), cq.s(v), cq.b(lg)) for t, v, lg in case["logs"]]
    # the two-tuples come first in ow.log_variables, entries added with log_variable() afterwards
    order = [l for l, (t, v, lg) in zip(logs, case["logs"]) if not lg] + [l for l, (t, v, lg) in zip(logs, case["logs"]) if lg]
    return "run_ts %s %s %s" % (cq.lst(cs), cq.nat(case["n"]), cq.lst(order))


def guards(case, comb):
    """python re-implementation of the guards G12a / G12b on the input"""
    # after the repairs (ConstControl.set_recycle, batch eligibility per variable, get_batch_outputs) none of the four recorded
    # failures is expected any more; the classification keys are kept so that a regression is reported under its old name
    line = any(c["kind"] == "const" and not c["user_off"] and c["e"] == "line" and c["v"] in LINE_PF for c in case["ctrls"])
    tins = any(c["kind"] == "const" and not c["user_off"] and c["e"] in ("trafo", "trafo3w") and c["v"] == "in_service" for c in case["ctrls"])
    elig = comb is not None and not comb[0] and all((not lg) and t in KEYS for t, v, lg in case["logs"])
    keyerr = twice = False
    if elig:
        seen = set()
        for t, v, lg in case["logs"]:
            if t != "res_trafo3w" and t in seen:
                twice = True
                break
            seen.add(t)
            if v not in KEYS[t]:
                keyerr = True
                break
    return line, tins, keyerr, twice


def evaluate(ctx, case, mod):
    impl = run_impl(case)
    ref = run_reference(case)
    desc = {k: case[k] for k in ("n", "ctrls", "logs", "net_seed")}
    if ref is None:
        ctx.count("reference_power_flow_failed")
        return
    if impl["exc"] == "LoadflowNotConverged" and run_reference(case, init_results=True) is None:
        # Newton-Raphson started from the previous step's voltages does not converge on this input even without any
        # recycling: solver convergence is an oracle (ASSUMPTIONS), nothing to compare
        ctx.count("solver_diverges_from_previous_results_skipped")
        ctx.case(desc, nontrivial=False)
        return
    fresh = []
    for k in range(case["n"]):
        fresh.append(k < len(impl["volts"]) and same_v(impl["volts"][k], ref["volts"][k]))
    if impl["exc"] in ("KeyError", "ValueError"):
        wv = cq.Err(impl["exc"])
    elif impl["batch"]:
        wv = "batch"
    else:
        wv = "per_step"
    # ---- correspondence
    ctx.corr_checked += 1
    m_rec, m_comb, m_fresh, m_w = mod
    pf_failed = impl["exc"] is not None and impl["exc"] not in ("KeyError", "ValueError")
    if m_rec != impl["rec_col"]:
        ctx.disagreement("recycle column: impl %s model %s" % (impl["rec_col"], m_rec), desc)
    elif m_comb != impl["comb"]:
        ctx.disagreement("combined recycle flags: impl %s model %s" % (impl["comb"], m_comb), desc)
    elif m_fresh != fresh and not (pf_failed and not all(m_fresh)):
        ctx.disagreement("time steps equal to a fresh power flow: impl %s model %s (exception %s)" % (fresh, m_fresh, impl["exc"]), desc)
    elif not pf_failed and m_w != wv:
        ctx.disagreement("writer: impl %s (batch=%s) model %s" % (wv, impl["batch"], m_w), desc)
    # ---- oracle: the property itself
    line, tins, keyerr, twice = guards(case, impl["comb"])
    viol = []
    if impl["exc"] == "KeyError":
        viol.append((KF_KEY if (keyerr and m_w == cq.Err("KeyError")) else "spec", "run_timeseries raised KeyError instead of recording %s" % case["logs"]))
    elif impl["exc"] == "ValueError":
        viol.append((KF_TWICE if (twice and m_w == cq.Err("ValueError")) else "spec", "run_timeseries raised ValueError instead of recording %s" % case["logs"]))
    elif impl["exc"] is not None or not all(fresh):
        bad = [k for k, f in enumerate(fresh) if not f]
        if (line or tins) and m_fresh == fresh or (pf_failed and not all(m_fresh)):
            kind = KF_LINE if line else KF_INS
        else:
            kind = "spec"
        viol.append((kind, "time steps %s of run_timeseries differ from a fresh power flow of the step's tables (exception: %s)" % (bad, impl["exc"])))
    if impl["exc"] is None:
        for key, arr in impl["outputs"].items():
            refv = ref["outputs"][key]
            if arr is None or arr.shape != refv.shape or not np.allclose(arr, refv, rtol=1e-6, atol=1e-6, equal_nan=True):
                if all(fresh):
                    viol.append(("spec", "recorded %s differs from the fresh loop although the voltages agree (batch=%s)" % (key, impl["batch"])))
                break
    for kind, what in viol[:1]:
        ctx.violation(kind, what, desc)
    ctx.count("writer_%s" % (wv if isinstance(wv, str) else wv.s))
    ctx.count("recycle_%s" % ("off" if impl["comb"] is None else "".join("TGB"[i] if f else "-" for i, f in enumerate(impl["comb"]))))
    ctx.count("fresh_all" if all(fresh) else "stale_some")
    for c in case["ctrls"]:
        ctx.count("ctrl_%s_%s" % (c["kind"], c["e"]))
    ctx.case(desc, nontrivial=impl["comb"] is not None or impl["batch"],
             sample={"case": desc, "impl": {"recycle": impl["rec_col"], "combined": impl["comb"], "fresh": fresh, "writer": str(wv)}})


def run(ctx):
    rng = ctx.rng
    import random, os, glob, json
    dom = py_domain(base_net(random.Random(1)))
    cases = []
    for f in sorted(glob.glob(os.path.join(cq.VERIF, "corpus", "C12", "*.json"))):
        cases.append(json.load(open(f)))
    # every element class at least twice, then random
    forced = []
    for e in ELEMENTS:
        vs = [p for p in dom if p[0] == e and not (p == ("ext_grid", "in_service"))]
        forced += rng.sample(vs, min(len(vs), ctx.n(2, len(vs))))
    forced += [("line", "length_km"), ("line", "max_i_ka"), ("trafo", "tap_pos")]
    for p in forced:
        cases.append(gen_case(rng, dom, forced=p))
    for k in range(ctx.n(50, 800)):
        cases.append(gen_case(rng, dom))
    terms = [model_term(c) for c in cases]
    model = ctx.coq_eval("c12", "C12.Model", terms, shard=40, timeout=1200)
    for case, mod in zip(cases, model):
        evaluate(ctx, case, mod)
    ctx.extra["domain_pairs_in_net"] = len(dom)


def replay(ctx, rec):
    case = rec["case"]
    mod = ctx.coq_eval("c12r", "C12.Model", [model_term(case)])[0]
    evaluate(ctx, case, mod)
