"""C01 — nodal power balance.
Correspondence: ppc bus rows, element results, generator P/Q split, res_bus and the predicted nodal residual of
PPV.C01.Model against pandapower on generated nets with rich element mixes per bus.
Oracle: nodal balance evaluated on the result tables only (AC and DC)."""
import json, math, hashlib
import numpy as np
import pandapower as pp
from fractions import Fraction
from vf import coqrun as cq, c01_pf as pf

RULE = ("random meshed MV nets (2-8 buses, 0-1 HV/MV trafo, line std types or explicit parameters, shuffled indices, optional bus "
        "section fused by a closed bus-bus switch, optional second ext_grid on the slack bus), 1-6 loads with ZIP fractions on a 25 % "
        "grid (mixed with constant-power loads on deliberately shared buses), sgens, storages, shunts (vn_kv != bus vn, steps 0-3), "
        "wards, xwards, motors, asymmetric elements, 0-3 gens sharing buses with/without q limits, random scaling in {0,.5,1,1.25} "
        "and in_service flags; options voltage_depend_loads on/off, numba on/off; plus DC power flows; plus nets meeting the guard of the numba "
        "single-slack shortcut (one ext_grid, no gen, purely resistive shunts/wards, numba=True); plus two-step histories "
        "(enforce_q_lims with a gen at its limit, then a recycled run after a set point change); plus nets of the C02 generator "
        "(vf/c02_gen: lines, 2W/3W transformers with tap changers, impedances, xward, impedance switches) for the composed chain "
        "element parameters -> C02 branch rows -> stamps -> flows -> nodal sum; "
        "non-trivial = some ppc bus carries >= 2 in-service bus elements")
ASSUMPTIONS = [
    "the Newton solver is an oracle: its |V|, and the injections V*conj(Ybus*V) computed from net._ppc['internal'], are inputs of the model (rounded to 30 bits)",
    "the branch side of the main stream takes the two-port rows from the run's Yf/Yt (inputs); in the rows stream they are produced by the C02 branch model from the element parameters (C01_flow_sum_identity_rows) and compared with V*conj(Ybus*V) and the PF/QF/PT/QT columns of the run",
    "motor / asymmetric element P,Q are taken from _get_motor_pq / _get_symmetric_pq_of_unsymetric_element (sqrt oracle)",
    "iteration order of the Python set of load buses (build_bus.py:616) is computed by the same expression in the harness",
    "all ppci gen rows are in service when _update_p runs (checked per case)",
    "float rounding inside pandapower covered by the comparison tolerance 1e-7 relative (1e-6 MVA for solver-dependent quantities)",
]
TRUSTED = ["python re-implementation of the guards G01p/G01q (vf/c01_pf.py:py_guards), cross-checked against the Coq guards on every case"]

TOL_S = 2e-6      # MVA, nodal residual (solver tolerance 1e-8 p.u.)


def _runpp(net, opts):
    try:
        if opts.get("dc"):
            pp.rundcpp(net)
        else:
            pp.runpp(net, **{k: v for k, v in opts.items() if k != "dc"})
        return None
    except pp.LoadflowNotConverged:
        return "not_converged"
    except Exception as e:
        return "raise:" + type(e).__name__


def _nz(v):
    return 0.0 if (v is None or (isinstance(v, float) and math.isnan(v))) else float(v)


def _case_json(net_js, opts):
    return {"net": net_js, "opts": opts}


def _oracle_balance(ctx, net, x, case, dc=False):
    """spec on the result tables: per ppc bus, reported consumption - generation + branch flows = 0;
    returns candidate failures [(k, 'p'|'q', observed)] (classified after the model run)"""
    E = pf.element_sums_by_bus(net, x)
    F = pf.branch_flows_by_bus(net, x)
    cands = []
    obs = {}
    for k in range(x.nb):
        if k not in E and k not in F:
            continue
        e = E.get(k, 0j)
        f = F.get(k, 0j)
        rp = _nz(e.real) + _nz(f.real)
        rq = 0.0 if dc else _nz(e.imag) + _nz(f.imag)
        obs[k] = (rp, rq)
        if abs(rp) > TOL_S:
            cands.append((k, "p", rp))
        if abs(rq) > TOL_S:
            cands.append((k, "q", rq))
    # res_bus = net element consumption at that pandapower bus
    Epp = pf.element_sums_by_bus(net, x, by="pp")
    for pb in x.pbs:
        e = Epp.get(pb, 0j)
        rb = complex(_nz(float(net.res_bus.p_mw.at[pb])), 0.0 if dc else _nz(float(net.res_bus.q_mvar.at[pb])))
        ee = complex(_nz(e.real), 0.0 if dc else _nz(e.imag))
        if abs(rb - ee) > 1e-7 * max(1.0, abs(ee)):
            # recorded defect: exactly the dcline terminal power of that bus is missing (guard G01dcl false)
            dct = 0j
            if len(net.dcline):
                for (fb, tb), (pf_, qf_, pt_, qt_) in zip(net.dcline[["from_bus", "to_bus"]].values,
                                                          net.res_dcline[["p_from_mw", "q_from_mvar", "p_to_mw", "q_to_mvar"]].values):
                    if int(fb) == pb:
                        dct += complex(_nz(float(pf_)), 0.0 if dc else _nz(float(qf_)))
                    if int(tb) == pb:
                        dct += complex(_nz(float(pt_)), 0.0 if dc else _nz(float(qt_)))
            known = abs(dct) > 0 and abs((ee - rb) - dct) <= 1e-7 * max(1.0, abs(ee))
            if known:
                ctx.count("known:C01-resbus-dcline")
            ctx.violation("C01-resbus-dcline" if known else "spec",
                          "res_bus p/q of bus %d = %r but the element result tables at that bus sum to %r (dcline terminal power there: %r)" % (pb, rb, ee, dct), case)
    return cands, obs, F


def _classify(x, k, which):
    # after the repair of pfsoln every bus class is governed by the averaging guard G01p / G01q
    g01p, g01q, g01gp, g01gq, has_gen, is_ref = pf.py_guards(x, k)
    return ((not g01p) if which == "p" else (not g01q)), "C01-zip-average"


def _compare(ctx, x, net, model, impl, case, cands, obs, F):
    rows_m, res_m, gens_m, resbus_m, resid_m = model
    rows_i, (lo_i, pq_i, sh_i), gens_i, resbus_i = impl
    bad = []
    for k in range(x.nb):
        for c, (a, b) in enumerate(zip(rows_m[k], rows_i[k])):
            if not pf.close(a, b, 1e-9):
                bad.append("ppc bus row %d col %s: model %s impl %r" % (k, ["PD", "QD", "CID_P", "CZD_P", "CID_Q", "CZD_Q", "GS", "BS"][c], float(a), b))
    for d, m, i in zip(x.loads, res_m[0], lo_i):
        if not (pf.close(m[0], i[0], 1e-7) and pf.close(m[1], i[1], 1e-7)):
            bad.append("res_load %d: model %s impl %s" % (d["idx"], [float(v) for v in m], i))
    # ward / xward: constant power part + constant impedance part (+ internal branch flow for xward)
    shm = {(d["tab"], d["idx"]): m for d, m in zip(x.shunts, res_m[2])}
    for d, m, i in zip(x.pqs, res_m[1], pq_i):
        mp, mq = float(m[0]), float(m[1])
        if d["tab"] in ("ward", "xward"):
            s = shm[(d["tab"], d["idx"])]
            mp += float(s[0]); mq += float(s[1])
            if d["tab"] == "xward":
                bp, bq = x.xw_branch.get(d["idx"], (0.0, 0.0))
                mp += _nz(bp); mq += _nz(bq)
        if not (pf.close(mp, i[0], 1e-7, 1e-9) and pf.close(mq, i[1], 1e-7, 1e-9)):
            bad.append("res_%s %d: model %s impl %s" % (d["tab"], d["idx"], (mp, mq), i))
    for d, m, i in zip(x.shunts, res_m[2], sh_i):
        if i is not None and not (pf.close(m[0], i[0], 1e-7) and pf.close(m[1], i[1], 1e-7)):
            bad.append("res_shunt %d: model %s impl %s" % (d["idx"], [float(v) for v in m], i))
    for d, m, i in zip(x.gens, gens_m, gens_i):
        big = max(abs(d["qmin"]), abs(d["qmax"]))
        if not pf.close(m[0], i[0], 1e-7, 1e-6):
            bad.append("gen row %d PG: model %s impl %r" % (d["row"], float(m[0]), i[0]))
        if m[1] is None or not pf.close(m[1], i[1], 1e-7, 1e-6 + 1e-15 * big):
            bad.append("gen row %d QG: model %s impl %r" % (d["row"], None if m[1] is None else float(m[1]), i[1]))
    for pb, m, i in zip(x.pbs, resbus_m, resbus_i):
        if not (pf.close(m[0], i[0], 1e-7, 1e-6) and pf.close(m[1], i[1], 1e-7, 2e-6)):
            bad.append("res_bus %d: model %s impl %s" % (pb, [float(v) for v in m], i))
    # predicted nodal residual and the flow-sum hypothesis
    for k in range(x.nb):
        rp, rq, f, g1, g2 = resid_m[k]
        pg = pf.py_guards(x, k)
        if (g1, g2) != tuple(pg[:2]):
            bad.append("guards of bus %d: Coq %s python %s" % (k, (g1, g2), pg[:2]))
        if k in obs:
            fi = F.get(k, 0j)
            # xward internal branches are reported inside res_xward; add them to the reported flows
            for d in x.pqs:
                if d["tab"] == "xward" and d["bus"] == k:
                    bp, bq = x.xw_branch.get(d["idx"], (0.0, 0.0))
                    fi += complex(_nz(bp), _nz(bq))
            if k in x.flow_check and not (abs(float(f[0]) - fi.real) <= TOL_S and abs(float(f[1]) - fi.imag) <= TOL_S):
                ctx.count("flow_identity_mismatch")
                bad.append("branch flows at ppc bus %d: from injection and bus shunt %s, reported in result tables %r" % (k, (float(f[0]), float(f[1])), fi))
            if not (abs(float(rp) - obs[k][0]) <= TOL_S and abs(float(rq) - obs[k][1]) <= 2 * TOL_S):
                bad.append("nodal residual at ppc bus %d: model predicts %s, result tables give %s" % (k, (float(rp), float(rq)), obs[k]))
    ctx.corr_checked += 1
    if bad:
        ctx.disagreement("; ".join(bad[:4]), case)
    # classification of the oracle's candidate failures
    for k, which, val in cands:
        known, kind = _classify(x, k, which)
        pred = float(resid_m[k][0 if which == "p" else 1])
        what = "nodal %s balance at ppc bus %d violated: reported consumption - generation + branch flows = %.6g (model predicts %.6g)" % (
            which.upper(), k, val, pred)
        if known and abs(pred - val) <= 2 * TOL_S and not bad:
            ctx.violation(kind, what, case)
            ctx.count("known:" + kind)
        else:
            why = "guard %s holds on this bus" % ("G01/G01g",) if not known else (
                "model and impl disagree on this case" if bad else "size differs from the recorded defect's formula")
            ctx.violation("spec", what + " [unclassified: %s]" % why, case)


def _oracle_only(ctx, net, net_js, opts):
    """nets with dclines: the auxiliary gens exist only during the run, so only the spec is evaluated"""
    lookup = net._pd2ppc_lookups["bus"]
    x = pf.Ext()
    x.lookup = lookup
    x.nb = net._ppc["internal"]["bus"].shape[0]
    x.pbs = [int(b) for b in net.bus.index if int(lookup[int(b)]) < x.nb and not math.isnan(net.res_bus.vm_pu.at[b])]
    case = _case_json(net_js, opts)
    cands, obs, F = _oracle_balance(ctx, net, x, case)
    ctx.count("dcline_nets")
    for k, which, val in cands:
        # no model run for these nets: classification needs the guards -> use a dcline-free extraction of the tables
        try:
            xx = pf.extract(net)
            known, kind = _classify(xx, k, which)
        except Exception:
            known, kind = False, "spec"
        ctx.violation(kind if known else "spec", "nodal %s balance at ppc bus %d violated by %.6g (net with dcline, oracle only)" % (which.upper(), k, val), case)
    ctx.case({"net_sha": hashlib.sha1(net_js.encode()).hexdigest(), "opts": opts, "dcline": True}, nontrivial=True)
    return True


YBUS_CASES = 8
ROWS_CASES = 5           # nets of the composed chain C02 rows -> stamps -> flows -> nodal sum


def _prepare(ctx, net, opts, terms, pend, sample=False, yb=None):
    net_js = pp.to_json(net)
    err = _runpp(net, opts)
    if err:
        ctx.count(err)
        return False
    if len(net.dcline):
        ctx.count("dcline_nets")
    if "V" not in net._ppc["internal"]:
        ctx.count("pf_bypassed_only_reference_buses")      # powerflow.py bypasses the solver when every bus is a reference bus
        return False
    x = pf.extract(net)
    case = _case_json(net_js, opts)
    want_yb = yb is not None and len(yb[0]) < ctx.n(YBUS_CASES, 10 * YBUS_CASES) and x.nb <= 8
    if want_yb:
        yb[0].append(pf.ybus_term(net, x))
    g = net._ppc["internal"]["gen"]
    if not np.all(g[:, pf.GEN_STATUS] > 0):
        ctx.count("ppci_gen_off")
    # flow identity is checkable from the result tables at buses without aux-bus neighbours only for pp buses (always)
    x.flow_check = set(range(x.nb))
    impl_r = pf.impl_res(net, x)
    # the xward internal branch flow (branch side, an input here) is reported inside res_xward and res_bus: take it out
    xwb = {}
    for i, (bp, bq) in x.xw_branch.items():
        pb = int(net.xward.bus.at[i])
        xwb[pb] = xwb.get(pb, 0j) + complex(_nz(bp), _nz(bq))
    impl = (pf.impl_busrows(net, x), impl_r,
            [[float(g[r, pf.PG]), float(g[r, pf.QG])] for r in range(g.shape[0])],
            [[float(net.res_bus.p_mw.at[pb]) - xwb.get(pb, 0j).real, float(net.res_bus.q_mvar.at[pb]) - xwb.get(pb, 0j).imag]
             for pb in x.pbs])
    cands, obs, F = _oracle_balance(ctx, net, x, case)
    if want_yb:
        Fx = dict(F)
        for d in x.pqs:        # xward internal branches are ppci branches whose from-side flow is reported inside res_xward
            if d["tab"] == "xward":
                bp, bq = x.xw_branch.get(d["idx"], (0.0, 0.0))
                Fx[d["bus"]] = Fx.get(d["bus"], 0j) + complex(_nz(bp), _nz(bq))
        yb[1].append((x, case, Fx, set(int(x.lookup[int(b)]) for b in net.bus.index)))
    per_bus = {}
    for d in x.loads + x.pqs + x.shunts:
        if d["on"]:
            per_bus[d["bus"]] = per_bus.get(d["bus"], 0) + 1
    nontriv = any(v >= 2 for v in per_bus.values())
    h = hashlib.sha1(net_js.encode()).hexdigest()
    ctx.case({"net_sha": h, "opts": opts}, nontrivial=nontriv,
             sample={"input": {"opts": opts, "n_bus": len(net.bus), "loads": x.loads[:4], "gens": x.gens[:3]},
                     "impl": {"bus_rows": impl[0][:3], "residual": {str(k): v for k, v in list(obs.items())[:4]}}} if sample else None)
    ctx.count("nb_%d" % min(len(net.bus), 9))
    ctx.count("vdl_%s" % x.vdl)
    ctx.count("max_elems_per_bus_%d" % min(max(per_bus.values()) if per_bus else 0, 6))
    ctx.count("gens_%d" % min(len(x.gens), 5))
    if any(not pf.py_guards(x, k)[0] or not pf.py_guards(x, k)[1] for k in range(x.nb)):
        ctx.count("G01_false")
    if any((not pf.py_guards(x, k)[2] or not pf.py_guards(x, k)[3]) and pf.py_guards(x, k)[4] for k in range(x.nb)):
        ctx.count("zip_load_at_gen_bus")
    if len(set(x.lookup[[int(b) for b in net.bus.index]])) < len(net.bus):
        ctx.count("fused_buses")
    terms.append(pf.run_all_term(x))
    pend.append((x, net, impl, case, cands, obs, F))
    return True


def _dc_oracle(ctx, rng, dterms, dpend, net=None):
    net = pf.gen_net(rng, rich=0.8, allow_xward=False) if net is None else net
    net_js = pp.to_json(net)
    err = _runpp(net, {"dc": True})
    if err:
        ctx.count("dc_" + err)
        return
    x = pf.extract(net, dc=True)
    x.gens = []
    case = _case_json(net_js, {"dc": True})
    cands, obs, F = _oracle_balance(ctx, net, x, case, dc=True)
    bus = net._ppc["bus"]
    rows = [[float(bus[k, pf.PD]), float(bus[k, pf.GS])] for k in range(x.nb)]
    # reported constant-impedance powers per ppc bus in the order of the model's shunt list (shunt, ward, xward)
    net_sh = []
    for d in x.shunts:
        if d["tab"] == "shunt":
            net_sh.append((d["bus"], float(net.res_shunt.p_mw.at[d["idx"]])))
        else:
            ps = float(net[d["tab"]].ps_mw.at[d["idx"]]) * (1 if d["on"] else 0)
            net_sh.append((d["bus"], float(net["res_" + d["tab"]].p_mw.at[d["idx"]]) - ps))
    dterms.append(pf.run_dc_term(x))
    dpend.append((x, rows, case, cands, net_sh))
    ctx.case({"net_sha": hashlib.sha1(net_js.encode()).hexdigest(), "dc": True}, nontrivial=True)
    ctx.count("dc_cases")


def _dc_compare(ctx, x, rows, case, cands, model, net_sh):
    bad = []
    for k in range(x.nb):
        pd_m, gs_m, cons_m, sh_m = model[k]
        if not (pf.close(pd_m, rows[k][0], 1e-9) and pf.close(gs_m, rows[k][1], 1e-9)):
            bad.append("DC ppc bus row %d: model PD,GS %s impl %s" % (k, (float(pd_m), float(gs_m)), rows[k]))
        impl_sh = [v for kk, v in net_sh if kk == k]
        if len(impl_sh) != len(sh_m) or any(not pf.close(a, b, 1e-9) for a, b in zip(sh_m, impl_sh)):
            bad.append("DC shunt/ward impedance results at bus %d: model %s impl %s" % (k, [float(v) for v in sh_m], impl_sh))
    ctx.corr_checked += 1
    if bad:
        ctx.disagreement("; ".join(bad[:4]), case)
    for k, which, val in cands:
        ctx.violation("spec", "DC power flow: nodal P balance at ppc bus %d violated by %.6g MW" % (k, val), case)


def _single_slack_net(rng):
    """a net that meets the guard of the fast pf_solution_single_slack routine (run_newton_raphson_pf.py:119-135):
    one ext_grid, no gen / xward, no susceptance on any bus - but purely resistive shunts / wards (GS != 0)"""
    net = pf.gen_net(rng, rich=rng.choice([0.6, 1.0]), two_eg_p=0.0, allow_xward=False, zip_p=0.0, n_gen=0, fuse_p=0.15)
    if len(net.gen):
        net.gen.drop(net.gen.index, inplace=True)
    buses = [int(b) for b in net.bus.index[net.bus.vn_kv == 20.0]]
    if len(net.shunt):
        net.shunt["q_mvar"] = 0.0
    if len(net.ward):
        net.ward["qz_mvar"] = 0.0
    if rng.random() < 0.7 or not (len(net.shunt) or len(net.ward)):
        pp.create_shunt(net, rng.choice(buses + [int(net.ext_grid.bus.values[0])]), q_mvar=0.0, p_mw=pf.g8(rng, 1, 16))
    if rng.random() < 0.4:
        pp.create_ward(net, rng.choice(buses), ps_mw=pf.g8(rng, 0, 8), qs_mvar=pf.g8(rng, -4, 4), pz_mw=pf.g8(rng, 1, 8), qz_mvar=0.0)
    return net


def _recycle_after_qlims(ctx, rng):
    """two-step history: a power flow with enforce_q_lims (a gen pinned at a limit), then a time-series like second step that
    recycles the internal structures; the spec (nodal balance on the result tables) is evaluated after both steps"""
    net = pf.gen_net(rng, rich=0.6, zip_p=0.0, allow_xward=False, n_gen=0, two_eg_p=0.0, fuse_p=0.1)
    buses = [int(b) for b in net.bus.index[net.bus.vn_kv == 20.0]]
    for _ in range(rng.randint(1, 3)):
        lo = pf.g8(rng, -8, 0)
        pp.create_gen(net, rng.choice(buses), p_mw=pf.g8(rng, 1, 16), vm_pu=rng.choice([1.0, 1.02, 1.03]),
                      min_q_mvar=lo, max_q_mvar=lo + pf.g8(rng, 0, 8))
    vm = {}
    for i in net.gen.index:       # one setpoint per bus
        net.gen.at[i, "vm_pu"] = vm.setdefault(int(net.gen.bus.at[i]), float(net.gen.vm_pu.at[i]))
    if rng.random() < 0.7:
        pp.create_load(net, rng.choice(buses), p_mw=pf.g8(rng, 0, 16), q_mvar=rng.choice([-1, 1]) * pf.g8(rng, 8, 40))
    net_js = pp.to_json(net)
    opts1 = {"numba": False, "enforce_q_lims": True, "voltage_depend_loads": False}
    if _runpp(net, opts1):
        ctx.count("recycle_step1_failed")
        return
    i = rng.choice(list(net.gen.index))
    newp = float(net.gen.p_mw.at[i]) + pf.g8(rng, 1, 8)
    rec = {"bus_pq": rng.random() < 0.5, "gen": True, "trafo": False}
    net.gen.at[i, "p_mw"] = newp
    try:
        pp.runpp(net, recycle=rec)
    except pp.LoadflowNotConverged:
        ctx.count("recycle_step2_not_converged")
        return
    except Exception as e:
        ctx.count("recycle_step2_raise:" + type(e).__name__)
        return
    case = {"net": net_js, "opts": opts1, "history": [{"runpp": opts1}, {"set": ["gen", int(i), "p_mw", newp]}, {"runpp": {"recycle": rec}}]}
    lookup = net._pd2ppc_lookups["bus"]
    x = pf.Ext()
    x.lookup = lookup
    x.nb = net._ppc["bus"].shape[0]
    x.pbs = [int(b) for b in net.bus.index if not math.isnan(net.res_bus.vm_pu.at[b])]
    cands, obs, F = _oracle_balance(ctx, net, x, case)
    for k, which, val in cands:
        ctx.violation("spec", "nodal %s balance at ppc bus %d violated by %.6g after enforce_q_lims followed by a recycled run" % (which.upper(), k, val), case)
    lim = int(sum(1 for j in net.gen.index if abs(net.res_gen.q_mvar.at[j] - net.gen.max_q_mvar.at[j]) < 1e-6 or abs(net.res_gen.q_mvar.at[j] - net.gen.min_q_mvar.at[j]) < 1e-6))
    ctx.case({"net_sha": hashlib.sha1(net_js.encode()).hexdigest(), "recycle": rec}, nontrivial=lim > 0)
    ctx.count("recycle_after_qlims")
    ctx.count("recycle_gens_at_limit_%d" % min(lim, 3))


def _qlims_with_zip(ctx, rng, given=None):
    """enforce_q_lims on nets with ZIP loads on generator buses: nodal balance on the result tables; a violation is the recorded
    one iff a limited gen sits on a bus with voltage dependent demand (guard G01ql false) or the averaging guard fails, AND its size
    is the one of the formulas C01_imbalance_qlim_fold / C01_imbalance_formula_p (exact rationals from the input)"""
    import pandapower.pf.run_newton_raphson_pf as R
    if given is None:
        net = pf.gen_net(rng, rich=0.6, zip_p=0.8, allow_xward=False, n_gen=0, two_eg_p=0.0, fuse_p=0.1)
        buses = [int(b) for b in net.bus.index[net.bus.vn_kv == 20.0]]
        lb = [int(b) for b in net.load.bus.values if int(b) in buses] or buses
        vm = {}
        for _ in range(rng.randint(1, 3)):
            b = rng.choice(lb) if rng.random() < 0.7 else rng.choice(buses)
            lo = pf.g8(rng, -8, 0)
            pp.create_gen(net, b, p_mw=pf.g8(rng, 1, 16), vm_pu=vm.setdefault(b, rng.choice([1.0, 1.02, 1.03])),
                          min_q_mvar=lo, max_q_mvar=lo + pf.g8(rng, 0, 8), scaling=rng.choice([1.0, 1.0, 0.5]))
        if rng.random() < 0.6:
            pp.create_load(net, rng.choice(buses), p_mw=pf.g8(rng, 0, 16), q_mvar=rng.choice([-1, 1]) * pf.g8(rng, 8, 40))
        opts = {"numba": False, "enforce_q_lims": True, "voltage_depend_loads": rng.random() < 0.85}
    else:
        net, opts = given
    net_js = pp.to_json(net)
    rec = []
    orig = R.ppci_to_pfsoln

    def spy(ppci, options, limited_gens=None):
        rec.append([] if limited_gens is None else [int(i) for i in limited_gens])
        return orig(ppci, options, limited_gens)

    R.ppci_to_pfsoln = spy
    try:
        err = _runpp(net, opts)
    finally:
        R.ppci_to_pfsoln = orig
    if err or "V" not in net._ppc["internal"]:
        ctx.count("qlimzip_" + (err or "bypassed"))
        return
    x = pf.extract(net)
    case = _case_json(net_js, opts)
    cands, obs, F = _oracle_balance(ctx, net, x, case)
    limited = sorted(set(rec[-1])) if rec else []
    fold = {}
    for r in limited:
        g = x.gens[r]
        pl, ql = fold.get(g["bus"], (0.0, 0.0))
        fold[g["bus"]] = (pl + g["pg"], ql + float(net._ppc["internal"]["gen"][r, pf.QG]))
    for k, which, val in cands:
        pl, ql = fold.get(k, (0.0, 0.0))
        pred = pf.py_fold_prediction(x, k, cq.round_bits(Fraction(x.vs[k]), 40), pl, ql)[0 if which == "p" else 1]
        t = pf.py_zip_terms(x, k)
        zi = (0, 1) if which == "p" else (2, 3)
        amt = pl if which == "p" else ql
        g_fold = (not x.vdl) or amt == 0 or (t["z"][zi[0]] == 0 and t["z"][zi[1]] == 0)            # G01ql for this quantity
        g_avg = pf.py_guards(x, k)[0 if which == "p" else 1]                                     # G01p / G01q
        what = "nodal %s balance at ppc bus %d violated by %.6g with enforce_q_lims (formula predicts %.6g; limited generation at the bus %.6g)" % (
            which.upper(), k, val, pred, amt)
        if abs(pred - val) <= 3 * TOL_S and not (g_fold and g_avg):
            kind = "C01-qlim-zip" if not g_fold else "C01-zip-average"
            ctx.violation(kind, what, case)
            ctx.count("known:" + kind)
        else:
            ctx.violation("spec", what, case)
    ctx.case({"net_sha": hashlib.sha1(net_js.encode()).hexdigest(), "opts": opts, "qlims": True}, nontrivial=len(limited) > 0)
    ctx.count("qlims_with_zip")
    ctx.count("qlims_with_zip_limited_%d" % min(len(limited), 3))


def _corpus(ctx):
    import glob, os
    out = []
    for f in sorted(glob.glob(os.path.join(cq.VERIF, "corpus", "C01", "*.json"))):
        rec = json.load(open(f))
        out.append((pp.from_json_string(rec["net"]) if isinstance(rec["net"], str) else pp.from_json_string(json.dumps(rec["net"])),
                    rec.get("opts", {"numba": False})))
    return out


def _rows_case(ctx, rng, rterms, rpend, desc=None):
    """composed chain on the C02 branch model (C01_flow_sum_identity_rows): a net of vf/c02_gen (lines, 2W/3W transformers with
    tap changers, impedances, xward, impedance switches); the model builds every ppc branch row from the element parameters
    (C02.Model / C02.Run), stamps it, assembles Ybus and evaluates injection and flow sum per ppci bus; the impl side is
    V*conj(Ybus*V) with the Ybus of the run and the PF/QF/PT/QT columns of the ppc branch rows."""
    from vf import c02_gen as g2
    from pandapower.pypower.idx_bus import GS as GS_, BS as BS_
    d = desc if desc is not None else g2.gen_desc(rng, passive=False)
    net = g2.build(d)
    try:
        g2.run_ac(net, d)
    except Exception as e:
        ctx.count("rows_ac_raised_" + type(e).__name__)
        return False
    obs = [o for o in g2.observe(net, d) if o.active]
    internal = net._ppc["internal"]
    if len(obs) != internal["branch"].shape[0]:
        ctx.count("rows_unobserved_branch_kind")
        return False
    sn = float(net.sn_mva)
    V = np.asarray(internal["V"])
    ibus = internal["bus"]
    nb = ibus.shape[0]
    s_impl = V * np.conj(internal["Ybus"] @ V) * sn
    F = np.zeros(nb, dtype=complex)
    for o in obs:
        F[o.fi] += o.flows[0]
        F[o.ti] += o.flows[1]
    c40 = lambda z: "(mkC %s %s)" % (cq.q(float(z.real), 40), cq.q(float(z.imag), 40))     # solver outputs rounded to 40 bits
    es = ["(%s, %s, %s, %s, %s)" % (cq.nat(o.fi), cq.nat(o.ti), o.rowterm, c40(o.e), g2.q(o.baset)) for o in obs]
    ysh = [c40(complex(ibus[k, GS_].real, ibus[k, BS_].real) / sn) for k in range(nb)]
    rterms.append("run_rows %s %s %s %s %s" % (cq.lst(es), cq.lst(ysh), cq.lst([c40(complex(v)) for v in V]), g2.q(sn), cq.nat(nb)))
    rpend.append(({"c02_desc": d}, s_impl, F, sum(abs(o.flows[0]) + abs(o.flows[1]) for o in obs)))
    for o in obs:
        ctx.count("rows_" + o.kind)
    ctx.case({"c02_desc": d}, nontrivial=len(obs) >= 3)
    return True


def _rows_compare(ctx, rpend, rmodel):
    for (case, s_impl, F, scale), m in zip(rpend, rmodel):
        ctx.corr_checked += 1
        ctx.count("rows_cases")
        if isinstance(m, cq.Err):
            ctx.disagreement("C02 rows -> Ybus: the model raises %s, the impl ran" % (m,), case)
            continue
        bad = []
        tol = 1e-7 * max(1.0, scale)
        for k in range(len(s_impl)):
            (sr, si), (fr, fi) = m[k]
            sm, fm = complex(float(sr), float(si)), complex(float(fr), float(fi))
            if abs(sm - s_impl[k]) > tol:
                bad.append("bus %d injection [MVA]: Ybus of the model's rows %r, V*conj(Ybus*V) of the run %r" % (k, sm, complex(s_impl[k])))
            if abs(fm - F[k]) > tol:
                bad.append("bus %d branch flow sum [MVA]: model rows %r, ppc branch PF/QF/PT/QT %r" % (k, fm, complex(F[k])))
        if bad:
            ctx.disagreement("rows -> stamps -> flows -> nodal sum: " + "; ".join(bad[:3]), case)


def run(ctx, only=None):
    rng = ctx.rng
    terms, pend = [], []
    dterms, dpend = [], []
    rterms, rpend = [], []
    yb = ([], [])
    if only is None:
        for net, opts in _corpus(ctx):
            ctx.count("corpus")
            if opts.get("dc"):
                _dc_oracle(ctx, rng, dterms, dpend, net=net)
            elif opts.get("enforce_q_lims"):
                _qlims_with_zip(ctx, rng, given=(net, opts))
            else:
                _prepare(ctx, net, opts, terms, pend)
        n = ctx.n(60, 1500)
        k = 0
        tries = 0
        while k < n and tries < 3 * n:
            tries += 1
            net = pf.gen_net(rng, rich=rng.choice([0.6, 1.0, 1.0]), t3w_p=0.25, dcline_p=0.08)
            opts = {"numba": rng.random() < 0.15, "voltage_depend_loads": rng.random() < 0.75,
                    "calculate_voltage_angles": True}
            if _prepare(ctx, net, opts, terms, pend, sample=k < 2, yb=yb):
                k += 1
        for _ in range(ctx.n(16, 300)):
            _dc_oracle(ctx, rng, dterms, dpend)
        # the numba single-slack shortcut with purely resistive shunts / wards (full correspondence + oracle)
        k = 0
        for _ in range(3 * ctx.n(10, 150)):
            if k >= ctx.n(10, 150):
                break
            if _prepare(ctx, _single_slack_net(rng), {"numba": True, "voltage_depend_loads": False, "calculate_voltage_angles": True},
                        terms, pend):
                k += 1
                ctx.count("single_slack_guard_nets")
        for _ in range(ctx.n(20, 300)):
            _recycle_after_qlims(ctx, rng)
        for _ in range(ctx.n(25, 300)):
            _qlims_with_zip(ctx, rng)
        k = 0
        for _ in range(3 * ctx.n(ROWS_CASES, 10 * ROWS_CASES)):
            if k >= ctx.n(ROWS_CASES, 10 * ROWS_CASES):
                break
            k += bool(_rows_case(ctx, rng, rterms, rpend))
    else:
        for net, opts in only:
            if opts.get("c02_desc") is not None:
                _rows_case(ctx, rng, rterms, rpend, desc=opts["c02_desc"])
                continue
            if opts.get("dc"):
                _dc_oracle(ctx, rng, dterms, dpend, net=net)
            elif opts.get("enforce_q_lims"):
                _qlims_with_zip(ctx, rng, given=(net, opts))
            else:
                _prepare(ctx, net, opts, terms, pend, sample=True)
    import time
    from concurrent.futures import ThreadPoolExecutor
    t_impl = time.time() - ctx.t0
    req = "Base.QN Base.QC C01.Model"
    rreq = "Base.QN Base.QC C01.BranchModel C31.Model C02.Model C02.Run"      # C02 names last: the row terms are written in them
    with ThreadPoolExecutor(max_workers=4) as ex:      # the four model evaluations are independent
        f_rows = ex.submit(lambda: ctx.coq_eval("c01r", rreq, rterms, shard=1, timeout=900) if rterms else [])
        f_main = ex.submit(lambda: ctx.coq_eval("c01", req, terms, shard=5, timeout=900) if terms else [])
        f_yb = ex.submit(lambda: ctx.coq_eval("c01y", req + " C01.YbusModel", yb[0], shard=3, timeout=900) if yb[0] else [])
        f_dc = ex.submit(lambda: ctx.coq_eval("c01dc", req, dterms, shard=6, timeout=900) if dterms else [])
        model, ym, dmodel, rmodel = f_main.result(), f_yb.result(), f_dc.result(), f_rows.result()
    _rows_compare(ctx, rpend, rmodel)
    for (x, net, impl, case, cands, obs, F), m in zip(pend, model):
        _compare(ctx, x, net, m, impl, case, cands, obs, F)
    ctx.extra["t_impl_s"] = round(t_impl, 1)
    ctx.extra["t_total_s"] = round(time.time() - ctx.t0, 1)
    for (x, case, Fx, ppbus), m in zip(yb[1], ym):
        ctx.corr_checked += 1
        ctx.count("ybus_cases")
        bad = []
        for k in range(x.nb):
            (sr, si), (fr, fi) = m[k]
            s = x.ss[k]
            if abs(float(sr) - s.real) > 1e-8 * max(1, abs(s)) or abs(float(si) - s.imag) > 1e-8 * max(1, abs(s)):
                bad.append("bus %d injection: assembled rows %s, V*conj(Ybus*V) %r" % (k, (float(sr), float(si)), s))
            if k in ppbus:      # aux buses (xward, trafo3w star point) have no result-table terminals
                f = Fx.get(k, 0j)
                fm = complex(float(fr), float(fi)) * x.base
                if abs(fm - f) > TOL_S * max(1.0, abs(f)):
                    bad.append("bus %d branch flow sum: model %r, result tables %r" % (k, fm, f))
        if bad:
            ctx.disagreement("Ybus assembly: " + "; ".join(bad[:3]), case)
    for (x, rows, case, cands, net_sh), m in zip(dpend, dmodel):
        _dc_compare(ctx, x, rows, case, cands, m, net_sh)


def replay(ctx, rec):
    case = rec["case"]
    if "c02_desc" in case:
        run(ctx, only=[(None, {"c02_desc": case["c02_desc"]})])
        return
    net = pp.from_json_string(case["net"])
    run(ctx, only=[(net, case.get("opts", {}))])
