"""C27 — group operations behave as set operations on group membership.

Correspondence: random sequences of create_group / attach_to_group / detach_from_groups / drop_elements / drop_lines /
reindex_elements / drop_group on nets with shuffled indices and partly duplicated names; before every op the group table
(index, element_type, element_index, reference_column None/NaN/name), the element (index, name) tables are observed and
written as a Gallina state; C27.Model.step is evaluated and compared with net.group and with group_element_index of every
(group, element type) after the real call.
Oracle: an abstract map (gid, etype) -> set of ids maintained by plain set operations, compared with group_element_index."""
import copy, json, math, os, glob
import numpy as np, pandas as pd
import pandapower as pp
import pandapower.toolbox as tb
from pandapower.groups import attach_to_group, detach_from_groups, group_element_index, drop_group, set_group_in_service, \
    set_group_out_of_service
from vf import coqrun as cq

RULE = ("sequences of 8-12 group operations on a net with 3 element tables (load, sgen, line; 3-5 rows each, shuffled gapped "
        "indices, names with deliberate duplicates) and 0-2 initial groups; one case per step (state before, op); "
        "non-trivial = the op changed net.group or an element table, or raised")
ASSUMPTIONS = ["attach_to_group is exercised with reference_columns=None only (index -> name conversion of the "
               "take_existing_reference_columns branch is not modelled, except for the NaN case the impl takes by mistake)",
               "the rule 'rows appended to a non-empty net.group carry NaN in reference_column, older NaN become None' is an "
               "observed pandas behaviour, modelled in add_rows and validated by the correspondence",
               "group in/out-of-service and group_res_* are checked by the oracle only (they act on group_element_index)"]
TRUSTED = ["the python set model of the oracle (props/c27.py SetModel)",
           "refcols_guard (props/c27.py) mirrors the boolean guard G27_refcols of coq/C27/Model.v; the two are compared on every case"]
ETS = ["load", "sgen", "line", "switch"]
ECODE = {e: i for i, e in enumerate(ETS)}
INS = ["load", "sgen", "line"]          # tables with an in_service column


def zz(x):
    x = int(x)
    return "%d" % x if x >= 0 else "(%d)" % x


def zl(l):
    return cq.lst([zz(x) for x in l])


def ncode(nm):
    return int(str(nm)[1:])


def observe(net):
    g = net.group
    rows = []
    for pos in range(len(g)):
        mem = g.element_index.values[pos]
        mem = list(mem) if hasattr(mem, "__iter__") and not isinstance(mem, str) else [mem]
        rc = g.reference_column.values[pos]
        rcs = 0 if rc is None else (1 if (isinstance(rc, float) and math.isnan(rc)) else 2)
        mm = []
        for m in mem:
            if isinstance(m, str):
                mm.append(ncode(m) if (rcs == 2 and m[:1] == "n" and m[1:].isdigit()) else -1)
            else:
                mm.append(int(m))
        rows.append([int(g.index[pos]), ECODE.get(str(g.element_type.values[pos]), 99), mm, rcs])
    tabs = [[[int(i), ncode(n)] for i, n in zip(net[e].index, net[e]["name"].values)] for e in ETS]
    lsw = [[int(i), int(e)] for i, e, et in zip(net.switch.index, net.switch.element.values, net.switch.et.values) if et == "l"]
    return {"grp": rows, "tabs": tabs, "lsw": lsw}


def members(net, gids):
    out = []
    for g in gids:
        row = []
        for e in ETS:
            try:
                row.append(sorted(int(i) for i in group_element_index(net, g, e)))
            except Exception as ex:
                row.append(cq.Err(type(ex).__name__))
        out.append(row)
    return out


def st_term(st):
    rc = ["RNone", "RNaN", "RName"]
    g = cq.lst(["(Build_grow %s %s %s %s)" % (zz(r[0]), cq.nat(r[1]), zl(r[2]), rc[r[3]]) for r in st["grp"]])
    t = cq.lst([cq.lst(["(%s, %s)" % (zz(a), zz(b)) for a, b in tab]) for tab in st["tabs"]])
    l = cq.lst(["(%s, %s)" % (zz(a), zz(b)) for a, b in st["lsw"]])
    return "(Build_st %s (mk_tab %s) %s)" % (g, t, l)


def op_term(op):
    o = op[0]
    if o == "create":
        return "(OCreate %s %s %s %s)" % (zz(op[1]), cq.nat(ECODE[op[2]]), zl(op[3]), cq.b(op[4]))
    if o == "attach":
        return "(OAttach %s %s %s)" % (zz(op[1]), cq.nat(ECODE[op[2]]), zl(op[3]))
    if o == "detach":
        return "(ODetach %s %s %s)" % (cq.nat(ECODE[op[1]]), zl(op[2]), "None" if op[3] is None else "(Some %s)" % zl(op[3]))
    if o == "drop_el":
        return "(ODropEl %s %s)" % (cq.nat(ECODE[op[1]]), zl(op[2]))
    if o == "reindex":
        return "(OReindex %s %s)" % (cq.nat(ECODE[op[1]]), cq.lst(["(%s, %s)" % (zz(a), zz(b)) for a, b in op[2]]))
    if o == "drop_group":
        return "(ODropGroup %s)" % zz(op[1])
    raise KeyError(o)


def apply_op(net, op):
    o = op[0]
    if o == "create":
        mem = ["n%d" % m for m in op[3]] if op[4] else list(op[3])
        pp.create_group(net, [op[2]], [mem], name="g%d" % op[1], reference_columns="name" if op[4] else None, index=op[1])
    elif o == "attach":
        attach_to_group(net, op[1], [op[2]], [list(op[3])])
    elif o == "detach":
        detach_from_groups(net, op[1], list(op[2]), index=op[3])
    elif o == "drop_el":
        if op[1] == "line":
            if not all(i in net.line.index for i in op[2]):
                raise KeyError("line")
            tb.drop_lines(net, list(op[2]))
        else:
            tb.drop_elements(net, op[1], list(op[2]))
    elif o == "reindex":
        tb.reindex_elements(net, op[1], lookup={int(a): int(b) for a, b in op[2]})
    elif o == "drop_group":
        drop_group(net, op[1])


class SetModel:
    """the abstract spec: (gid, etype) -> set of element ids"""

    def __init__(self):
        self.m = {}
        self.gids = set()

    def copy(self):
        c = SetModel()
        c.m = {k: set(v) for k, v in self.m.items()}
        c.gids = set(self.gids)
        return c

    def apply(self, op, st0):
        o = op[0]
        if o == "create":
            tab = st0["tabs"][ECODE[op[2]]]
            ids = {i for i, n in tab if n in op[3]} if op[4] else set(op[3])
            self.m[(op[1], op[2])] = ids
            self.gids.add(op[1])
        elif o == "attach":
            self.m.setdefault((op[1], op[2]), set()).update(op[3])
        elif o == "detach":
            for (g, e) in list(self.m):
                if e == op[1] and (op[3] is None or g in op[3]):
                    self.m[(g, e)] -= set(op[2])
        elif o == "drop_el":
            for (g, e) in list(self.m):
                if e == op[1]:
                    self.m[(g, e)] -= set(op[2])
            if op[1] == "line":          # the line switches of a dropped line are dropped with it
                gone = {sw for sw, l in st0["lsw"] if l in op[2]}
                for (g, e) in list(self.m):
                    if e == "switch":
                        self.m[(g, e)] -= gone
        elif o == "reindex":
            lk = dict((a, b) for a, b in op[2])
            for (g, e) in list(self.m):
                if e == op[1]:
                    self.m[(g, e)] = {lk.get(i, i) for i in self.m[(g, e)]}
        elif o == "drop_group":
            for (g, e) in list(self.m):
                if g == op[1]:
                    del self.m[(g, e)]
            self.gids.discard(op[1])
        self.m = {k: v for k, v in self.m.items() if v}
        self.gids = {g for g, _ in self.m}


def gen_net(rng):
    net = pp.create_empty_network()
    b = [pp.create_bus(net, 20.0) for _ in range(3)]
    pp.create_ext_grid(net, b[0])
    for e in INS:
        n = rng.randint(3, 5)
        idx = rng.sample(range(12), n)
        for k, i in enumerate(idx):
            nm = "n%d" % (k if rng.random() > 0.2 else 0)
            if e == "load":
                pp.create_load(net, rng.choice(b), 0.125, index=i, name=nm, in_service=rng.random() > 0.3)
            elif e == "sgen":
                pp.create_sgen(net, rng.choice(b), 0.0625, index=i, name=nm, in_service=rng.random() > 0.3)
            else:
                a, c = rng.sample(b, 2)
                pp.create_line_from_parameters(net, a, c, 0.5, 0.25, 0.125, 0, 0.5, index=i, name=nm)
    # switches: group members without an in_service column; line switches share the index range of the lines
    used = set()
    k = 0
    for li in net.line.index:
        for col in ("from_bus", "to_bus"):
            if rng.random() < 0.6:
                i = rng.choice([x for x in range(12) if x not in used])
                used.add(i)
                pp.create_switch(net, int(net.line.at[li, col]), int(li), et="l", index=i, name="n%d" % (k if rng.random() > 0.2 else 0))
                k += 1
    pp.create_switch(net, b[0], b[1], et="b", index=20 + rng.randrange(5), name="n%d" % k)
    pp.create_measurement(net, "v", "bus", 1.0, 0.01, b[0], index=rng.randrange(20))
    return net


def gen_op(rng, net, sm):
    gids = sorted(set(int(g) for g in net.group.index))
    et = rng.choice(ETS)
    ids = [int(i) for i in net[et].index]
    r = rng.random()
    def some(l, lo=1, hi=3):
        l = list(l)
        return rng.sample(l, min(len(l), rng.randint(lo, hi))) if l else []
    if r < 0.2 or not gids:
        byname = rng.random() < 0.3
        if not ids:
            return ["drop_group", 99]
        sel = some(ids)
        if rng.random() < 0.05:
            sel = sel + [77]
        mem = sorted({ncode(net[et].at[i, "name"]) for i in sel if i in ids}) if byname else sel
        return ["create", rng.randrange(8) if rng.random() < 0.9 or not gids else rng.choice(gids), et, mem, byname]
    if r < 0.45:
        g = rng.choice(gids) if rng.random() < 0.95 else 55
        # not onto a name based row (index -> name conversion is not modelled)
        rows = net.group.loc[[g]] if g in gids else None
        if rows is not None and any((rows.element_type == et) & rows.reference_column.apply(lambda x: isinstance(x, str))):
            return gen_op(rng, net, sm)
        el = some(ids) + ([88] if rng.random() < 0.05 else [])
        if rng.random() < 0.2 and el:
            el = el + [el[0]]
        if not el:
            return gen_op(rng, net, sm)
        return ["attach", g, et, el]
    if r < 0.65:
        return ["detach", et, some(ids + [66]), None if rng.random() < 0.5 else some(gids + [55], 1, 2)]
    if r < 0.8:
        if rng.random() < 0.4:            # a line that carries line switches (they are dropped with it)
            with_sw = sorted({int(e) for e, t in zip(net.switch.element.values, net.switch.et.values)
                              if t == "l" and e in net.line.index})
            if with_sw:
                return ["drop_el", "line", some(with_sw, 1, 2)]
        return ["drop_el", et, some(ids, 1, 2) + ([99] if rng.random() < 0.05 else [])]
    if r < 0.95:
        sel = ids if rng.random() < 0.6 else some(ids, 1, len(ids))
        new = []
        stay = set(ids) - set(sel)
        for _ in sel:
            while True:
                n = rng.randrange(30)
                if n not in stay and n not in new:
                    new.append(n)
                    break
        return ["reindex", et, [[a, c] for a, c in zip(sel, new)]]
    return ["drop_group", rng.choice(gids)]


def classify(op, st0, g, e, what=""):
    """finding id for a set-model mismatch at (g, e) after op on st0"""
    rows = [r for r in st0["grp"] if r[0] == g and r[1] == ECODE[e]]
    if op[0] in ("detach", "drop_el") and (op[1] == e or (op[0] == "drop_el" and op[1] == "line" and e == "switch")) and \
            len(rows) == 1 and rows[0][3] == 2:
        names = [n for _, n in st0["tabs"][ECODE[e]]]
        if len(set(names)) != len(names):
            return "C27-detach-duplicate-reference-values"
    return None


def refcols_guard(st0):
    """python mirror of C27.Model.G27_refcols: every reference-column row sits on a table with unique names and indices"""
    for r in st0["grp"]:
        if r[3] == 2:
            if r[1] >= len(st0["tabs"]):
                continue                     # element type outside the modelled tables: mk_tab gives the empty table
            tab = st0["tabs"][r[1]]
            names = [n for _, n in tab]
            idx = [i for i, _ in tab]
            if len(set(names)) != len(names) or len(set(idx)) != len(idx):
                return False
    return True


def rng_pick(ctx, l):
    return l[ctx.rng.randrange(len(l))]


def _step(ctx, cases, net, sm, op):
    st0 = observe(net)
    work = copy.deepcopy(net)
    exc = None
    try:
        apply_op(work, op)
    except Exception as ex:
        exc = type(ex).__name__
        work = net
    st1 = observe(work)
    sm1 = sm.copy()
    if exc is None:
        sm1.apply(op, st0)
    gids = sorted({r[0] for r in st1["grp"]} | sm1.gids | {r[0] for r in st0["grp"]})
    mem = members(work, gids)
    # oracle: reported members == abstract sets; rows exist iff the set is non-empty; other groups untouched
    bad = []
    for gi, g in enumerate(gids):
        for ei, e in enumerate(ETS):
            want = sorted(sm1.m.get((g, e), set()))
            got = mem[gi][ei]
            has_row = any(r[0] == g and r[1] == ei for r in st1["grp"])
            if isinstance(got, cq.Err):
                if got.s == "KeyError" and not want:
                    continue
                bad.append((g, e, "group_element_index raises %s, abstract set %s" % (got.s, want)))
            elif sorted(set(got)) != want:
                bad.append((g, e, "members %s, abstract set %s" % (got, want)))
            elif has_row and not want:
                bad.append((g, e, "a net.group row with no members remains"))
    # in/out of service act on exactly the members: (a) the group as it is, (b) the same members regrouped together with
    # switch and measurement rows (tables without in_service column) in a random row order
    if exc is None and not bad and gids and len(work.group):
        g = rng_pick(ctx, gids)
        if g in work.group.index:
            for variant in ("as_is", "regrouped"):
                w2 = copy.deepcopy(work)
                ms_all = {e: set(sm1.m.get((g, e), set())) for e in ETS}
                tgt = g
                if variant == "regrouped":
                    ets = [e for e in ETS if ms_all[e]]
                    parts = [(e, sorted(ms_all[e])) for e in ets]
                    if len(w2.switch) and not ms_all["switch"]:
                        parts.append(("switch", [int(w2.switch.index[0])]))
                    if len(w2.measurement):
                        parts.append(("measurement", [int(w2.measurement.index[0])]))
                    ctx.rng.shuffle(parts)
                    if not parts:
                        continue
                    try:
                        tgt = pp.create_group(w2, [p_[0] for p_ in parts], [p_[1] for p_ in parts], name="oracle_regrouped")
                    except Exception:
                        continue                      # e.g. a member that does not exist: not the subject here
                    ctx.count("inservice_oracle_order:" + ",".join(p_[0][:2] for p_ in parts))
                before = {e: w2[e].in_service.copy() for e in INS}
                try:
                    set_group_out_of_service(w2, tgt)
                    for e in INS:
                        for i in w2[e].index:
                            exp = False if i in ms_all[e] else bool(before[e].at[i])
                            if bool(w2[e].in_service.at[i]) != exp:
                                bad.append((g, e, "set_group_out_of_service (%s) changed/kept in_service of %s %d wrongly" % (variant, e, i)))
                    set_group_in_service(w2, tgt)
                    for e in INS:
                        for i in w2[e].index:
                            exp = True if i in ms_all[e] else bool(before[e].at[i])
                            if bool(w2[e].in_service.at[i]) != exp:
                                bad.append((g, e, "set_group_in_service (%s) changed/kept in_service of %s %d wrongly" % (variant, e, i)))
                except Exception as ex:
                    bad.append((g, ETS[0], "set_group_out/in_service (%s) raises %s" % (variant, type(ex).__name__)))
                if bad:
                    break
    case = {"op": op, "before": st0, "exc": exc, "after": st1, "members": mem, "gids": gids, "bad": bad}
    cases.append(case)
    ctx.count("op:" + op[0])
    if exc:
        ctx.count("raised:%s:%s" % (op[0], exc))
    changed = exc is not None or st0 != st1
    ctx.case({"op": op, "before": st0}, nontrivial=changed,
             sample={"op": op, "groups_before": st0["grp"], "raised": exc} if len(ctx.samples) < 3 and changed else None)
    if bad or exc is not None:
        return net, sm           # revert
    return work, sm1


def _judge(ctx, cases):
    terms = []
    for c in cases:
        ets = cq.lst([cq.nat(i) for i in range(len(ETS))])
        terms.append("run_step_g %s %s %s %s" % (ets, zl(c["gids"]), st_term(c["before"]), op_term(c["op"])))
    model = ctx.coq_eval("c27", "C27.Model", terms, prelude="Open Scope Z_scope.", shard=40, timeout=280)
    for c, mg_ in zip(cases, model):
        ctx.corr_checked += 1
        brief = {"op": c["op"], "before": c["before"]}
        ok = True
        guard, m = mg_
        # the guard of the set-model refinement theorems (C27_detach/drop_elements/drop_lines_refines_set_model)
        if guard != refcols_guard(c["before"]):
            ok = False
            ctx.disagreement("%s: G27_refcols differs: model=%s python=%s" % (c["op"], guard, refcols_guard(c["before"])), brief)
        ctx.count("G27_refcols:%s" % guard)
        if isinstance(m, cq.Err):
            if m.s == "Unsupported":
                ctx.count("model_unsupported")
                ok = False
            elif c["exc"] != m.s:
                ok = False
                ctx.disagreement("%s: impl %s, model raises %s" % (c["op"], c["exc"] or "returned normally", m.s), brief)
        elif c["exc"] is not None:
            ok = False
            ctx.disagreement("%s: impl raises %s, model returns a state" % (c["op"], c["exc"]), brief)
        else:
            mg, mt, mm = m
            ig = sorted([r[0], r[1], r[2], r[3]] for r in c["after"]["grp"])
            if sorted(mg) != ig:
                ok = False
                ctx.disagreement("%s: net.group differs: impl=%s model=%s" % (c["op"], ig, sorted(mg)), brief)
            elif [sorted(t) for t in mt] != [sorted(t) for t in c["after"]["tabs"]]:
                ok = False
                ctx.disagreement("%s: element tables differ: impl=%s model=%s" % (c["op"], c["after"]["tabs"], mt), brief)
            else:
                im = [[x if isinstance(x, cq.Err) else sorted(x) for x in row] for row in c["members"]]
                mm2 = [[x if isinstance(x, cq.Err) else sorted(x) for x in row] for row in mm]
                if im != mm2:
                    ok = False
                    ctx.disagreement("%s: group_element_index differs: impl=%s model=%s" % (c["op"], im, mm2), brief)
        seen = set()
        for g, e, what in c["bad"]:
            fid = classify(c["op"], c["before"], g, e, what)
            if fid is not None and not ok:
                fid = None
            if fid is not None and guard is True:
                fid = None                      # under G27_refcols the refinement is proved: this cannot be the recorded defect
            key = fid or "spec"
            if key in seen:
                continue
            seen.add(key)
            ctx.count("violation:%s:%s" % (key, c["op"][0]))
            ctx.violation(key, "after %s: group %d %s: %s" % (c["op"], g, e, what), {"op": c["op"], "before": c["before"]})


def _build(build):
    net = pp.create_empty_network()
    b = pp.create_bus(net, 20.0)
    b2 = pp.create_bus(net, 20.0)
    sm = SetModel()
    for op in build:
        if op[0] == "el":
            _, e, i, nm = op
            if e == "load":
                pp.create_load(net, b, 0.125, index=i, name="n%d" % nm)
            elif e == "sgen":
                pp.create_sgen(net, b, 0.0625, index=i, name="n%d" % nm)
            else:
                pp.create_line_from_parameters(net, b, b2, 0.5, 0.25, 0.125, 0, 0.5, index=i, name="n%d" % nm)
        else:
            st0 = observe(net)
            apply_op(net, op)
            sm.apply(op, st0)
    return net, sm


def run(ctx):
    rng = ctx.rng
    cases = []
    for f in sorted(glob.glob(os.path.join(cq.VERIF, "corpus", "C27", "*.json"))):
        rec = json.load(open(f))
        net, sm = _build(rec["build"])
        _step(ctx, cases, net, sm, rec["op"])
        ctx.count("corpus")
    for s in range(ctx.n(40, 480)):
        net = gen_net(rng)
        sm = SetModel()
        for k in range(rng.randint(8, 12)):
            op = gen_op(rng, net, sm)
            net, sm = _step(ctx, cases, net, sm, op)
    _judge(ctx, cases)


def replay(ctx, rec):
    ctx.notes.append("replay: generators re-run with the recorded seed; recorded op %s" % json.dumps(rec.get("case", {}).get("op")))
    run(ctx)
