"""C22 — network edits never leave dangling references.

Correspondence (stage-wise, DESIGN 2.2 item 4): random edit sequences on generated nets (shuffled, gapped indices; all
four switch kinds, measurements incl. numeric sides, poly/pwl costs, index-based groups, ConstControl / tap controllers,
result tables, one table outside element_bus_tuples (svc)).  Before every edit the key / foreign-key tables of the real
net are observed and written as a Gallina `net`; `C22.Model.step` is evaluated on (observed state, op) and its tables (or
its error class) are compared with the real net after the real toolbox call.
Oracle: the invariant `all foreign keys resolve` evaluated on the real net after every edit (vf/c22_impl.dangling)."""
import copy, json, os, glob
from vf import coqrun as cq
from vf import c22_impl as I

RULE = ("(plus a guarded stream: the same on nets without controllers / unlisted tables, ops restricted to those with an inv_step "
        "theorem) edit sequences of 6-10 ops drawn from create_*, drop_buses/lines/trafos/elements, fuse_buses, reindex_buses, "
        "reindex_elements, create_continuous_bus/elements_index, select_subnet, merge_nets, replace_*, drop_out_of_service_elements "
        "on nets of 6-9 buses with shuffled gapped indices; every step is one case (state before, op); a step that breaks the "
        "invariant is reverted so that every case starts from a consistent net; non-trivial = the op changed at least one table "
        "or raised after the table contained a row referenced by another table")
ASSUMPTIONS = ["drop_buses(drop_elements=False) is only exercised through fuse_buses (called directly it asks for dangling elements)",
               "pandas: df.drop / .loc raise KeyError on missing labels; Index.difference sorts and de-duplicates; dict(zip()) last key wins",
               "reference-column (name based) groups and id_characteristic references are outside the Coq model (oracle only; name groups are C27)",
               "replace_* and drop_out_of_service_elements are outside the Coq model: their steps are checked by the oracle only"]
TRUSTED = ["vf/c22_impl.py: observation of the key/foreign-key columns of the real tables and the python re-implementation of inv (dangling)",
           "classification guards of the recorded findings (props/c22.py classify) mirror the boolean guards G22_* of coq/C22/Model.v; "
           "in addition the model evaluates G22 on every modelled (state, op): a dangling reference is only accepted as a recorded "
           "finding when G22 is false"]

KN = ["Load", "Sgen", "Gen", "ExtGrid", "Shunt", "Ward", "Xward", "Storage", "Line", "Impedance", "Trafo", "Trafo3w", "Dcline", "Svc"]
KCODE = {k: i for i, k in enumerate(I.KINDS)}
TCODE = dict(KCODE, bus=100, switch=101, measurement=102, poly_cost=103, pwl_cost=104)
SIDE = {"from": 0, "to": 1, "hv": 2, "mv": 3, "lv": 4}
MT = {"v": 0, "p": 1, "q": 2, "i": 3, "va": 4, "ia": 5}
SW = {"b": ("SB", 0), "l": ("SL", 1), "t": ("ST", 2), "t3": ("ST3", 3)}
MODEL_OPS = {"create_bus", "create_el", "create_switch", "create_meas", "create_cost", "create_group", "create_ctrl", "drop_buses",
             "drop_lines", "drop_trafos", "drop_elements", "fuse_buses", "reindex_buses", "reindex_elements", "cont_bus_index",
             "cont_elements_index", "select_subnet", "merge_nets"}


# ------------------------------------------------------------------ Gallina literals
def zz(x):
    x = int(x)
    return "%d" % x if x >= 0 else "(%d)" % x


def zl(l):
    # short lists through l0..l3 (parsing the list notation dominates the cost of a shard)
    if len(l) <= 3:
        return "l0" if not l else "(l%d %s)" % (len(l), " ".join(zz(x) for x in l))
    return cq.lst([zz(x) for x in l])


def tname(t):
    if t == "bus":
        return "TBus"
    if t == "switch":
        return "TSwitch"
    if t == "measurement":
        return "TMeas"
    if t == "poly_cost":
        return "TPcost"
    if t == "pwl_cost":
        return "TWcost"
    return "(TEl %s)" % KN[KCODE[t]]


def side_t(s):
    if s is None:
        return "SideNone"
    if isinstance(s, str):
        return "(SideStr %s)" % cq.nat(SIDE[s])
    return "(SideBus %s)" % zz(s)


def modelable(st):
    """the state uses only what the Coq schema has"""
    if any(g[3] is not None for g in st["grp"]):
        return False
    if any(g[1] not in TCODE or any(isinstance(m, str) for m in g[2]) for g in st["grp"]):
        return False
    for k in I.KINDS:
        if any(b is None for r in st["el"][k] for b in r[1]):
            return False
    if any(m[1] not in TCODE or m[2] is None or (isinstance(m[3], str) and m[3] not in SIDE) or m[4] not in MT for m in st["meas"]):
        return False
    if any(s[2] not in SW or s[1] is None or s[3] is None for s in st["sw"]):
        return False
    if any(c[1] not in KCODE or c[2] is None for c in st["pcost"] + st["wcost"]):
        return False
    if any(c[1] not in KCODE for c in st["ctrl"]):
        return False
    return True


def net_term(st):
    bus = cq.lst(["(%s, %s)" % (zz(i), cq.b(s)) for i, s in st["bus"]])
    els = cq.lst([cq.lst(["(Build_erow %s %s %s)" % (zz(r[0]), zl(r[1]), cq.b(r[3])) for r in st["el"][k]])
                  for k in I.KINDS])
    sw = cq.lst(["(Build_swrow %s %s %s %s %s)" % (zz(s[0]), zz(s[1]), SW[s[2]][0], zz(s[3]), cq.b(s[4])) for s in st["sw"]])
    ms = cq.lst(["(Build_mrow %s %s %s %s %s)" % (zz(m[0]), cq.nat(MT[m[4]]), tname(m[1]), zz(m[2]),
                                                                                 side_t(m[3])) for m in st["meas"]])
    pc = cq.lst(["(Build_crow %s %s %s)" % (zz(c[0]), KN[KCODE[c[1]]], zz(c[2])) for c in st["pcost"]])
    wc = cq.lst(["(Build_crow %s %s %s)" % (zz(c[0]), KN[KCODE[c[1]]], zz(c[2])) for c in st["wcost"]])
    gr = cq.lst(["(Build_grow %s %s %s)" % (zz(g[0]), tname(g[1]), zl(g[2])) for g in st["grp"]])
    ct = cq.lst(["(Build_ctrow %s %s %s %s)" % (zz(c[0]), KN[KCODE[c[1]]], zl(c[2]), cq.b(c[3]))
                 for c in st["ctrl"]])
    rs = cq.lst([zl(st["res"][k]) for k in I.KINDS])
    return "(Build_net %s (mk_el %s) %s %s %s %s %s %s %s (mk_res %s))" % (bus, els, sw, ms, pc, wc, gr, ct, zl(st["res"]["bus"]), rs)


def lk_t(lk):
    return cq.lst(["(%s, %s)" % (zz(a), zz(b)) for a, b in lk])


def op_term(op, nets2_st):
    o = op[0]
    if o == "create_bus":
        return "(OCreateBus %s)" % zz(op[1])
    if o == "create_el":
        return "(OCreateEl %s %s %s)" % (KN[KCODE[op[1]]], zz(op[2]), zl(op[3]))
    if o == "create_switch":
        return "(OCreateSwitch %s %s %s %s)" % (zz(op[1]), zz(op[2]), SW[op[3]][0], zz(op[4]))
    if o == "create_meas":
        return "(OCreateMeas %s %s %s %s %s)" % (zz(op[1]), cq.nat(MT["p"]), tname(op[2]), zz(op[3]), side_t(op[4]))
    if o == "create_cost":
        return "(OCreateCost %s %s %s %s)" % (cq.b(op[1] == "poly"), zz(op[2]), KN[KCODE[op[3]]], zz(op[4]))
    if o == "create_group":
        return "(OCreateGroup %s %s %s)" % (zz(op[1]), tname(op[2]), zl(op[3]))
    if o == "create_ctrl":
        return "(OCreateCtrl %s %s %s)" % (KN[KCODE[op[1]]], zl(op[2]), cq.b(op[3]))
    if o == "drop_buses":
        return "(ODropBuses %s %s)" % (zl(op[1]), cq.b(op[2]))
    if o == "drop_lines":
        return "(ODropLines %s)" % zl(op[1])
    if o == "drop_trafos":
        return "(ODropTrafos %s %s)" % (cq.b(op[2] == "trafo3w"), zl(op[1]))
    if o == "drop_elements":
        return "(ODropElements %s %s)" % (tname(op[1]), zl(op[2]))
    if o == "fuse_buses":
        return "(OFuseBuses %s %s %s %s)" % (zz(op[1]), zl(op[2]), cq.b(op[3]), cq.b(op[4]))
    if o == "reindex_buses":
        return "(OReindexBuses %s)" % lk_t(op[1])
    if o == "reindex_elements":
        return "(OReindexElements %s %s)" % (tname(op[1]), lk_t(op[2]))
    if o == "cont_bus_index":
        return "(OContBus %s)" % zz(op[1])
    if o == "cont_elements_index":
        return "(OContElements %s)" % zz(op[1])
    if o == "select_subnet":
        return "(OSelectSubnet %s %s %s %s)" % (zl(op[1]), cq.b(op[2]), cq.b(op[3]), cq.b(op[4]))
    if o == "merge_nets":
        return "(OMerge %s %s)" % (net_term(nets2_st[op[1]]), cq.b(op[2]))
    raise KeyError(o)


# ------------------------------------------------------------------ canonical comparison form
def canon_impl(st):
    def side(s):
        return None if s is None else ([SIDE[s]] if isinstance(s, str) else s)
    return [sorted([i, s] for i, s in st["bus"]),
            [sorted([r[0], r[1], r[3]] for r in st["el"][k]) for k in I.KINDS],
            sorted([s[0], s[1], SW[s[2]][1], s[3], s[4]] for s in st["sw"]),
            sorted(([m[0], MT[m[4]], TCODE[m[1]], m[2], side(m[3])] for m in st["meas"]), key=lambda r: r[0]),
            sorted([c[0], KCODE[c[1]], c[2]] for c in st["pcost"]),
            sorted([c[0], KCODE[c[1]], c[2]] for c in st["wcost"]),
            sorted([g[0], TCODE[g[1]], g[2]] for g in st["grp"]),
            sorted([c[0], KCODE[c[1]], c[2], c[3]] for c in st["ctrl"]),
            sorted(st["res"]["bus"]),
            [sorted(st["res"][k]) for k in I.KINDS]]


def undelta(m, before):
    """fill the tables the model reports as unchanged (ONone) from the canonical before-state"""
    out = []
    for i, t in enumerate(m):
        if i in (1, 9):
            out.append([before[i][j] if x is None else x for j, x in enumerate(t)])
        else:
            out.append(before[i] if t is None else t)
    return out


def canon_model(m):
    return [sorted(m[0]), [sorted(t) for t in m[1]], sorted(m[2]), sorted(m[3], key=lambda r: r[0]), sorted(m[4]), sorted(m[5]),
            sorted(m[6]), sorted(m[7]), sorted(m[8]), [sorted(t) for t in m[9]]]


TABLE_NAMES = ["bus", "el", "switch", "measurement", "poly_cost", "pwl_cost", "group", "controller", "res_bus", "res"]


def diff_tables(a, b):
    out = []
    for n, x, y in zip(TABLE_NAMES, a, b):
        if x != y:
            out.append("%s: impl=%s model=%s" % (n, json.dumps(x)[:260], json.dumps(y)[:260]))
    return "; ".join(out)


# ------------------------------------------------------------------ recorded findings: guards on (state before, op, dangling class)
def _changed(lk, ids):
    return {a for a, b in lk if a != b and a in ids}


def _reindex_scope(st0, op, nets2_st):
    """for ops that go through reindex_elements: {kind: set of old ids that change}; None = unknown (any)"""
    o = op[0]
    if o == "reindex_elements":
        k = op[1]
        ids = {r[0] for r in st0["el"][k]} if k in KCODE else set()
        return {k: _changed(op[2], ids)}
    if o == "cont_elements_index":
        return {k: None for k in I.KINDS}
    if o == "merge_nets":
        return {k: None for k in I.KINDS}
    return {}


def classify(st0, op, cls, nets2_st=None, detail=""):
    """finding id for a dangling-reference class produced by op on state st0, or None"""
    o = op[0]
    head, _, kind = cls.partition(":")
    scope = _reindex_scope(st0, op, nets2_st)
    src = nets2_st[op[1]] if o == "merge_nets" else st0
    if scope:
        def hit(k, refs):
            ch = scope.get(k, set())
            return ch is None or bool(ch & set(refs))
        if head == "controller-target" and hit(kind, [i for c in src["ctrl"] if c[1] == kind for i in c[2]]):
            return "C22-reindex-elements-controller"
    if cls == "bus-ref:svc" and o in ("reindex_buses", "cont_bus_index", "cont_elements_index", "fuse_buses", "drop_buses",
                                      "drop_elements", "select_subnet", "merge_nets", "reindex_elements", "drop_oos") and \
            (src["el"]["svc"] or st0["el"]["svc"]):
        return "C22-bus-tuples-incomplete"
    # drop_trafos / drop_lines / drop_elements_simple do not look at controllers (drop_buses does, since the repair)
    dropping = o in ("drop_trafos", "drop_lines", "drop_elements", "fuse_buses", "drop_oos")
    if head == "controller-target" and dropping and any(c[1] == kind for c in st0["ctrl"]):
        return "C22-drop-keeps-controller"
    if head == "controller-target" and o == "drop_buses" and kind in ("line", "trafo", "trafo3w") and \
            any(c[1] == kind for c in st0["ctrl"]) and any(not s_[4] for s_ in st0["sw"]):
        return "C22-drop-keeps-controller"      # element behind an open switch is not "connected" for drop_controllers_at_buses
    if o == "fuse_buses" and not op[4] and cls in ("meas-side", "meas-element:bus"):
        return "C22-fuse-buses-measurement"      # fuse_bus_measurements=False: the caller asked not to touch measurements
    if o == "select_subnet" and op[4] and head in ("group-member", "controller-target"):
        return "C22-select-subnet-keep-everything"
    if o == "create_cost" and head == "cost-element":
        return "C22-create-cost-unchecked"
    if o.startswith("replace_") and head in ("controller-target", "meas-element"):
        return "C22-replace-keeps-controller-measurement"
    return None


# ------------------------------------------------------------------ run
_POOL = []


def _run_sequence(ctx, rng, cases, length, allow=None, facts=None, net=None, nets2=None):
    if net is None:
        net = I.gen_net(rng, name_groups=False, tchar=False, facts=rng.random() < 0.3 if facts is None else facts)
    if nets2 is None:
        if not _POOL:
            _POOL.extend(I.gen_net(rng, nb=rng.randint(2, 4), name_groups=False, tchar=False, groups=k == 0, facts=False)
                         for k in range(4))
        nets2 = rng.sample(_POOL, 2)
    nets2_st = [I.observe(n) for n in nets2]
    if I.dangling(I.observe(net)):
        ctx.count("generator_produced_inconsistent_net")
        return
    for k in range(length):
        op = I.gen_op(rng, net, allow=allow, n_nets2=len(nets2))
        _one_step(ctx, cases, net, op, nets2, nets2_st)
        net = cases[-1]["net_after"]


def _one_step(ctx, cases, net, op, nets2, nets2_st):
    st0 = I.observe(net)
    work = copy.deepcopy(net)
    exc = None
    unmodelable = False
    try:
        after = I.apply_op(work, op, nets2)
    except I.Skip:
        raise
    except Exception as e:
        exc = I.exc_class(e)
        after = net
        if op[0] == "merge_nets" and "boolean column" in str(e):
            # _preserve_dtypes refuses NaN in a bool data column (e.g. gen.controllable present in one net only): a property
            # of the data columns, which the relational model does not carry
            ctx.count("merge_nets_dtype_refusal")
            unmodelable = True
    st1 = I.observe(after) if exc is None else st0
    bad = I.dangling(st1) if exc is None else []
    changed = exc is not None or canon_impl(st0) != canon_impl(st1)
    case = {"op": op, "before": st0, "exc": exc, "after": st1 if exc is None else None, "dangling": bad,
            "nets2": nets2_st if op[0] == "merge_nets" else None,
            "net_after": net if (bad or exc is not None) else after,       # revert a step that broke the invariant
            "model": (not unmodelable) and op[0] in MODEL_OPS and modelable(st0) and (exc is not None or modelable(st1)) and
                     (op[0] != "merge_nets" or modelable(nets2_st[op[1]]))}
    cases.append(case)
    opname = op[0] + (":" + str(op[1]) if op[0] in ("reindex_elements", "drop_elements", "create_el") else "")
    ctx.count("op:" + op[0])
    if exc:
        ctx.count("raised:%s:%s" % (op[0], exc))
    for c, _ in bad:
        ctx.count("dangling:%s:%s" % (op[0], c.split(":")[0]))
    ctx.case({"op": op, "before": canon_impl(st0)}, nontrivial=changed,
             sample={"op": op, "n_rows_before": sum(len(t) for t in st0["el"].values()), "raised": exc,
                     "dangling": [c for c, _ in bad]} if len(ctx.samples) < 3 and changed else None)
    return case


def _judge(ctx, cases):
    terms, idx = [], []
    for i, c in enumerate(cases):
        if c["model"]:
            terms.append("run_step_g %s %s" % (net_term(c["before"]), op_term(c["op"], c["nets2"])))
            idx.append(i)
    model = ctx.coq_eval("c22", "C22.Model", terms, prelude="Open Scope Z_scope.", shard=22, timeout=280) if terms else []
    agree = {}
    guard = {}
    for i, mg_ in zip(idx, model):
        c = cases[i]
        ctx.corr_checked += 1
        g22, m = mg_
        guard[i] = g22
        ctx.count("G22:%s:%s" % (c["op"][0], g22))
        inv_before, r = m
        brief = {"op": c["op"], "before": c["before"], "nets2": c["nets2"]}
        ok = True
        if inv_before is not True:
            ok = False
            ctx.disagreement("model invariant false on a net the oracle finds consistent (op %s)" % c["op"][0], brief)
        elif isinstance(r, cq.Err):
            if c["exc"] != r.s:
                ok = False
                ctx.disagreement("%s: impl %s, model raises %s" % (c["op"], c["exc"] or "returned normally", r.s), brief)
        else:
            inv_after, tabs = r
            if c["exc"] is not None:
                ok = False
                ctx.disagreement("%s: impl raises %s, model returns a net" % (c["op"], c["exc"]), brief)
            else:
                a, b = canon_impl(c["after"]), canon_model(undelta(tabs, canon_impl(c["before"])))
                if a != b:
                    ok = False
                    ctx.disagreement("%s: tables differ: %s" % (c["op"], diff_tables(a, b)), brief)
                elif inv_after != (not c["dangling"]):
                    ok = False
                    ctx.disagreement("%s: model inv=%s, oracle dangling=%s" % (c["op"], inv_after, c["dangling"][:3]), brief)
                elif g22 is True and not inv_after:
                    # C22_inv_step_*: under the guard G22 the step keeps the invariant - a counterexample to a proved theorem
                    ok = False
                    ctx.disagreement("%s: guard G22 holds but the invariant breaks (contradicts the inv_step theorem)" % (c["op"],), brief)
        agree[i] = ok
    # oracle
    for i, c in enumerate(cases):
        if not c["dangling"]:
            continue
        seen = set()
        for cls, detail in c["dangling"]:
            fid = classify(c["before"], c["op"], cls, c["nets2"], detail)
            if fid is not None and c["model"] and not agree.get(i, False):
                fid = None                      # impl and faithful model disagree here: not the recorded defect
            if fid is not None and guard.get(i) is True:
                fid = None                      # the guard of the proved inv_step theorem holds: cannot be a recorded defect
            key = fid or "spec"
            if (key, cls) in seen:
                continue
            seen.add((key, cls))
            ctx.count("violation:%s:%s:%s" % (key, c["op"][0], cls))
            ctx.violation(key, "after %s: %s (%s)" % (c["op"][:2], detail, cls),
                          {"op": c["op"], "before": c["before"], "nets2": c["nets2"], "dangling": c["dangling"][:6]})


def _replay_corpus(ctx, cases):
    import random
    for f in sorted(glob.glob(os.path.join(cq.VERIF, "corpus", "C22", "*.json"))):
        rec = json.load(open(f))
        net = I.pp.create_empty_network()
        try:
            for op in rec["build"]:
                net = I.apply_op(net, op, None)
        except Exception as e:
            ctx.notes.append("corpus %s: build failed: %s" % (os.path.basename(f), e))
            continue
        nets2 = []
        for b in rec.get("nets2", []):
            n2 = I.pp.create_empty_network()
            for op in b:
                n2 = I.apply_op(n2, op, None)
            nets2.append(n2)
        _one_step(ctx, cases, net, rec["op"], nets2, [I.observe(n) for n in nets2])
        ctx.count("corpus")


def run(ctx):
    rng = ctx.rng
    cases = []
    _replay_corpus(ctx, cases)
    import time
    t0 = time.time()
    nseq = ctx.n(16, 320)
    for s in range(nseq):
        _run_sequence(ctx, rng, cases, rng.randint(6, 10))
    # focused streams: the ops the theorems talk about, on nets without the svc table
    core = ["create_bus", "create_el", "create_switch", "create_meas", "drop_buses", "drop_lines", "drop_trafos", "drop_elements",
            "reindex_buses", "reindex_elements", "cont_bus_index", "fuse_buses", "select_subnet"]
    for s in range(ctx.n(5, 100)):
        _run_sequence(ctx, rng, cases, rng.randint(6, 10), allow=core, facts=False)
    # guarded stream: nets without controllers and without the unlisted (svc) table, where the guards G22_* of the inv_step
    # theorems of drop_buses / fuse_buses / reindex_buses / create_continuous_*_index / select_subnet mostly hold, so that the
    # theorems are confronted with the implementation (a guard-true step that breaks the invariant is a disagreement)
    guarded_ops = ["cont_elements_index", "cont_bus_index", "reindex_elements", "reindex_buses", "fuse_buses", "drop_buses",
                   "select_subnet", "drop_elements", "drop_lines", "drop_trafos", "create_el", "create_switch"]
    for s in range(ctx.n(5, 80)):
        net = I.gen_net(rng, name_groups=False, tchar=False, facts=False)
        if len(net.controller):
            net.controller.drop(net.controller.index, inplace=True)
        _run_sequence(ctx, rng, cases, rng.randint(5, 8), allow=guarded_ops, facts=False, net=net)
    t1 = time.time()
    _judge(ctx, cases)
    ctx.notes.append("impl phase %.1fs, model+judge phase %.1fs" % (t1 - t0, time.time() - t1))


def replay(ctx, rec):
    """re-run the recorded step: the before-state cannot be rebuilt table by table through the public API in general, so
    the recorded (state, op) is re-evaluated by the model and the generators are re-run with the recorded seed"""
    ctx.notes.append("replay: generators re-run with the recorded seed; the recorded case is %s" % json.dumps(rec.get("case", {}).get("op")))
    run(ctx)
