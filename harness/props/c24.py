"""C24 — batch create == sequence of single creates.
Correspondence: generated argument vectors / std types / pre-existing tables, both ways on the real create functions,
vs C24.Model (descriptor interpreters fold_col / batch_col / fold_ok / batch_ok) and C24.ModelX (descriptors with conditional
columns: sgen, shunt, impedance, *_from_parameters pairs, bus_dc; run_switch: element / connectivity / index checks of
create_switch(es); run_cost_l: duplicate-cost checks with et / power_type per element), per column and for the rejection.
Oracle: the property itself on the real tables (rows equal on every column but name/geo; same inputs rejected) for
every create pair."""
import copy, math, warnings
from fractions import Fraction
import numpy as np, pandas as pd
import pandapower as pp
from vf import coqrun as cq
from vf import c24_kinds as ck

RULE = ("per create pair: 1-4 elements, random argument vectors from dyadic grids (omitted / scalar / vector / NaN-like entries "
        "for NaN-capable arguments), random std types with distinctive values and random optional parameters, 0-2 pre-existing "
        "rows (optional columns present or not), explicit / automatic index incl. duplicates and clashes, non-existent buses; "
        "cost checks with pre-existing poly/pwl costs, et and power_type as one string or per element; switch batches over lines/trafos/3W trafos/buses "
        "incl. unknown element types, unknown elements, buses not at the element, explicit indices and pre-existing switches. non-trivial = at least 2 elements "
        "and (a NaN-like entry, a std type with optional parameters, an explicit index or pre-existing rows)")
ASSUMPTIONS = ["value-level comparison: an absent column, NaN, None, '' and the strings 'nan'/'None' (astype(str) of a missing value) are the same (absent) value; columns name/geo/std_type are not compared",
               "arguments are compared by value; **kwargs are not generated (except alpha/temperature, which create_lines only takes as kwargs)"]
TRUSTED = ["pandas concat / .at / .loc semantics as observed on the new rows", "context values passed to the model with the arguments: net.bus.vn_kv.at[bus] (shunts), existence of the column generator_type (sgens)", "harness/vf/c24_kinds.py (argument domains, both-ways driver)"]

MODELLED = ["bus", "load", "storage", "gen", "ward", "line", "trafo", "trafo3w"]
XMODELLED = ["sgen", "shunt", "impedance", "line_par", "trafo_par", "trafo3w_par", "bus_dc"]     # C24/ModelX.v (conditional columns)
BUS_VN = dict(zip(ck.BUS_IDS, [110., 110., 20., 20., 10., 10.]))
TRAFO_DROPPED = {"shift_degree", "tap_neutral", "tap_max", "tap_min", "tap_side", "tap_step_percent", "tap_step_degree", "tap_changer_type",
                 "tap_pos", "tap2_neutral", "tap2_max", "tap2_min", "tap2_side", "tap2_step_percent", "tap2_step_degree",
                 "tap2_changer_type", "tap2_pos"}
NOCMP = {"std_type"}


# ------------------------------------------------------------------ literals
def cell(v):
    if v is None or (isinstance(v, str) and v.startswith("NANLIKE")):
        return "VNaN"
    if isinstance(v, (bool, np.bool_)):
        return "(VB %s)" % cq.b(bool(v))
    if isinstance(v, str):
        return "(VS %s)" % cq.s(v)
    f = float(v)
    if math.isnan(f):
        return "VNaN"
    return "(VQ %s)" % cq.q(f)


def amap(d):
    return cq.lst(["(%s, %s)" % (cq.s(k), cell(v)) for k, v in d.items()])


def norm_val(v):
    if isinstance(v, Fraction):
        return float(v)
    return v


def same(a, b):
    a, b = norm_val(a), norm_val(b)
    if a is None or b is None:
        return a is None and b is None
    if isinstance(a, str) or isinstance(b, str):
        return a == b
    return float(a) == float(b)


# ------------------------------------------------------------------ classification guards (python side of G24)
def classify(kind, case, res, diff, rej_diff):
    """-> finding kind or 'spec'"""
    std = case.get("std", {})
    args = case["args"]
    if kind == "trafo":
        if rej_diff:
            return "spec"
        ok = True
        for c in diff:
            if c not in TRAFO_DROPPED:
                ok = False
            elif c == "shift_degree":
                ok = ok and std.get("shift_degree", 0) != 0
            elif c == "tap_pos":
                ok = ok and "tap_neutral" in std
            elif c == "tap2_pos":
                ok = ok and "tap2_neutral" in std
            else:
                ok = ok and c in std
        return "C24-transformers-stdtype-dropped" if ok else "spec"
    if kind in ("bus", "gen"):
        if not rej_diff and set(diff) <= {"min_vm_pu", "max_vm_pu"}:
            for c in diff:
                vs = args.get(c, [])
                if not any(isinstance(v, str) and v.startswith("NANLIKE") for v in vs) and c in args:
                    return "spec"
            return "C24-vm-limit-default-missing-in-batch"
        return "spec"
    if kind == "sgen":
        gt = args.get("generator_type")
        if rej_diff and res["rej_single"] is None and res["rej_batch"][0] in ("TypeError", "KeyError") and gt is not None:
            return "C24-sgens-generator-type"
        if not rej_diff and set(diff) <= {"generator_type", "k", "lrc_pu", "max_ik_ka"}:
            return "C24-sgens-generator-type"
        return "spec"
    if kind == "bus_dc":
        if not rej_diff and set(diff) <= {"min_vm_pu", "max_vm_pu"}:
            for c in diff:
                vs = args.get(c, [])
                if not any(isinstance(v, str) and v.startswith("NANLIKE") for v in vs) and c in args:
                    return "spec"
            return "C24-vm-limit-default-missing-in-batch"
        return "spec"
    if kind == "line_par":
        z = ["r0_ohm_per_km", "x0_ohm_per_km", "c0_nf_per_km"]
        if not rej_diff and set(diff) <= set(z) | {"g0_us_per_km"}:
            return "C24-lines-from-parameters-zero-seq"
        return "spec"
    return "spec"


# ------------------------------------------------------------------ one generated case of a descriptor kind
def _std_for_model(case):
    return {k: v for k, v in case.get("std", {}).items()}


def model_term(kind, case, res):
    K = ck.KINDS[kind]
    n = case["n"]
    info = res["info"]
    tabs = {"bus": ck.BUS_IDS, K["table"]: info["idx_before"]}
    if kind == "bus":
        tabs = {"bus": info["idx_before"]}
    if kind == "bus_dc":
        tabs = {"bus_dc": info["idx_before"]}
    if kind == "ward":
        tabs["storage"] = info["storage_idx"]
    tabs_t = cq.lst(["(%s, %s)" % (cq.s(k), cq.lst([cq.z(i) for i in v])) for k, v in tabs.items()])
    els = []
    for i in range(n):
        d = {k: v[i] for k, v in case["args"].items()}
        for sname in case["nodes"]:
            d[sname] = case["nodes"][sname][i]
        if kind == "shunt" and d["bus"] in BUS_VN:           # context value net.bus.vn_kv.at[bus]
            d["bus:vn_kv"] = BUS_VN[d["bus"]]
        if kind == "sgen":                                   # context value: the column exists before the calls
            d["col:generator_type"] = "generator_type" in info["cols_before"]
        els.append(amap(d))
    idxs = "None" if case["index"] is None else "(Some %s)" % cq.lst([cq.z(i) for i in case["index"]])
    cols = res["qcols"]
    cols_t = cq.lst(["(%s, {| oc_ex := %s; oc_vals := %s |})" % (cq.s(c), cq.b(c in info["cols_before"]),
                                                               cq.lst([cell(v) for v in res["pre_vals"].get(c, [None] * len(info["idx_before"]))]))
                     for c in cols])
    return "%s %s %s %s %s %s %s" % ("run_xkind" if kind in XMODELLED else "run_kind", cq.s(kind), tabs_t, amap(_std_for_model(case)),
                                     idxs, cq.lst(els), cols_t)


def run_kind_case(ctx, kind, case):
    K = ck.KINDS[kind]
    base = ck.build_base(case)
    res = ck.run_both(case, base)
    df0 = base[K["table"]]
    res["pre_vals"] = {c: [ck.canon_cell(v) for v in df0[c].values] for c in df0.columns}
    qc = set()
    for key in ("single", "batch"):
        if key in res:
            qc |= set(res[key][1])
    qc -= NOCMP
    res["qcols"] = sorted(qc)
    return res


def oracle(ctx, kind, case, res):
    rs, rb = res["rej_single"], res["rej_batch"]
    rej_diff = (rs is None) != (rb is None)
    diff = {}
    if rs is None and rb is None:
        diff = {c: v for c, v in ck.diff_rows(res["single"], res["batch"]).items() if c not in NOCMP}
    if rej_diff or diff:
        k = classify(kind, case, res, diff, rej_diff)
        what = ("%s: single calls %s, batch call %s" % (kind, "raise %s" % (rs[1],) if rs else "accept", "raises %s" % (rb[0],) if rb else "accepts")
                if rej_diff else "%s: batch rows differ from the single-call rows in %s" % (kind, {c: diff[c] for c in list(diff)[:4]}))
        ctx.violation(k, what, case)
        ctx.count("oracle_diff_" + kind)
    return diff, rej_diff


def compare_model(ctx, kind, case, res, mod):
    """mod = [fold idx, batch idx, fold cols, batch cols, incompat cols, checks_compat]"""
    ctx.corr_checked += 1
    rs, rb = res["rej_single"], res["rej_batch"]
    bad = []
    m_fold, m_batch, m_fc, m_bc, m_inc, m_chk = mod
    for name, m, r, key in (("single", m_fold, rs, "single"), ("batch", m_batch, rb, "batch")):
        if isinstance(m, cq.Err):
            if r is None:
                bad.append("%s: model rejects, impl accepts" % name)
        else:
            if r is not None:
                # exceptions outside the modelled checks (pandas errors) are oracle matters, not correspondence
                if r[-2] == "UserWarning" or r[0] == "UserWarning":
                    bad.append("%s: impl rejects (%s), model accepts" % (name, r))
            elif [int(i) for i in m] != res[key][0]:
                bad.append("%s: index impl %s model %s" % (name, res[key][0], m))
    for name, mc, key, okm in (("single", m_fc, "single", m_fold), ("batch", m_bc, "batch", m_batch)):
        if key not in res or isinstance(okm, cq.Err):
            continue
        n = case["n"]
        for c, (ex, vals) in zip(res["qcols"], mc):
            iv = res[key][1].get(c, [None] * n)
            if len(vals) != len(iv) or not all(same(a, b) for a, b in zip(vals, iv)):
                bad.append("%s column %s: impl %s model %s" % (name, c, iv, vals))
    if bad:
        ctx.disagreement("; ".join(bad)[:600], case)
    return m_inc, m_chk


def gen_and_run_kinds(ctx):
    rng = ctx.rng
    terms, keep = [], []
    per = ctx.n(26, 400)
    for kind in ck.KINDS:
        for _ in range(per):
            case = ck.gen_case(rng, kind)
            if kind == "trafo" and rng.random() < 0.06:
                case["args"]["df"] = [rng.choice([0.0, -0.5])] * case["n"]
            try:
                with warnings.catch_warnings():
                    warnings.simplefilter("ignore")
                    res = run_kind_case(ctx, kind, case)
            except Exception as e:                       # the base net could not be built (generator artefact)
                ctx.count("base_build_failed")
                continue
            nanlike = any(isinstance(v, str) and v.startswith("NANLIKE") for vs in case["args"].values() for v in vs)
            nontriv = case["n"] >= 2 and (nanlike or len(case.get("std", {})) > 8 or case["index"] is not None or case["pre"] > 0)
            ctx.case(case, nontrivial=nontriv, sample={"case": case, "rej_single": res["rej_single"], "rej_batch": res["rej_batch"]}
                     if len(ctx.samples) < 2 else None)
            ctx.count("kind_" + kind)
            ctx.count("rejected_both" if res["rej_single"] and res["rej_batch"] else "accepted" if not res["rej_single"] and not res["rej_batch"] else "rejected_one")
            diff, rej_diff = oracle(ctx, kind, case, res)
            if "std_names" in case:
                ctx.count("line_std_list_%s" % ("mixed" if len(set(case["std_names"])) > 1 else "homogeneous"))
            # the Coq model takes one std type for all elements: heterogeneous lists are checked by the oracle only
            if kind in MODELLED + XMODELLED and set(case.get("std_names", ["S"])) == {"S"}:
                terms.append(model_term(kind, case, res))
                keep.append((kind, case, res, diff, rej_diff))
    model = ctx.coq_eval("c24", "Base.QN C24.Model C24.ModelX", terms, shard=45)
    for (kind, case, res, diff, rej_diff), mod in zip(keep, model):
        m_inc, m_chk = compare_model(ctx, kind, case, res, mod)
        # the guard computed by the Coq model must explain every observed difference of a modelled kind
        if diff and not (set(diff) - {"INDEX"} <= set(m_inc)):
            ctx.disagreement("%s: impl rows differ in %s but the descriptors are compatible there (incompatible: %s)" % (kind, sorted(diff), m_inc), case)
        if rej_diff and m_chk:
            ctx.disagreement("%s: impl rejection differs but checks_compat = true" % kind, case)


# ------------------------------------------------------------------ costs
def cost_cases(ctx):
    rng = ctx.rng
    terms, keep = [], []
    tmpl = pp.create_empty_network()
    pp.create_buses(tmpl, 4, 20.)
    pp.create_gens(tmpl, [0, 1, 2, 3], [1., 2., 3., 4.])
    pp.create_loads(tmpl, [0, 1, 2, 3], [1., 2., 3., 4.])
    for _ in range(ctx.n(120, 1500)):
        net = copy.deepcopy(tmpl)
        poly, pwl = [], []
        for _k in range(rng.choice([0, 0, 1, 2])):
            e, et = rng.randrange(4), rng.choice(["gen", "load"])
            if rng.random() < 0.5:
                pp.create_poly_cost(net, e, et, 1.0, check=False); poly.append((e, et, "p"))
            else:
                pt = rng.choice(["p", "q"])
                pp.create_pwl_cost(net, e, et, [[0, 1, 1]], power_type=pt, check=False); pwl.append((e, et, pt))
        n = rng.choice([1, 2, 3])
        els = [rng.randrange(4) for _ in range(n)] if rng.random() < 0.25 else rng.sample(range(4), n)
        et = rng.choice(["gen", "load"])
        is_poly = rng.random() < 0.5
        pt = rng.choice(["p", "q"])
        et_list = rng.random() < 0.4
        mixed = et_list and rng.random() < 0.6            # et (and power_type) differ per element
        ets = [rng.choice(["gen", "load"]) for _ in range(n)] if mixed else [et] * n
        pts = [rng.choice(["p", "q"]) for _ in range(n)] if (mixed and not is_poly and rng.random() < 0.6) else [pt] * n
        if mixed and rng.random() < 0.5:
            els = [els[0]] * n                            # same element, told apart by et / power_type only
        a = copy.deepcopy(net); b = copy.deepcopy(net)
        rs = False
        for e, t, q_ in zip(els, ets, pts):
            try:
                if is_poly:
                    pp.create_poly_cost(a, e, t, 2.0)
                else:
                    pp.create_pwl_cost(a, e, t, [[0, 2, 3]], power_type=q_)
            except UserWarning:
                rs = True
                break
        rb = False
        et_arg = ets if et_list else et
        pt_arg = pts if len(set(pts)) > 1 else pts[0]
        try:
            if is_poly:
                pp.create_poly_costs(b, els, et_arg, [2.0] * n)
            else:
                pp.create_pwl_costs(b, els, et_arg, [[[0, 2, 3]]] * n, power_type=pt_arg)
        except UserWarning:
            rb = True
        case = {"kind": "cost", "is_poly": is_poly, "poly": poly, "pwl": pwl, "elements": els, "et": et_arg, "power_type": pt_arg}
        hom = len(set(ets)) == 1 and len(set(pts)) == 1
        if hom:
            et, pt = ets[0], pts[0]
        g = len(set(els)) == len(els) and not any(e in els and t == et for e, t, _ in poly + pwl)
        ctx.case(case, nontrivial=bool(poly or pwl) or not g)
        ctx.count("cost_cases_list_et_mixed" if mixed else "cost_cases_list_et" if et_list else "cost_cases")
        if rs != rb:
            ctx.violation("spec", "costs: single calls %s, batch call %s" % ("reject" if rs else "accept", "rejects" if rb else "accepts"), case)
            ctx.count("oracle_diff_cost")
        elif not rs and not rb:
            ta, tb = ("poly_cost", "poly_cost") if is_poly else ("pwl_cost", "pwl_cost")
            cols = ["element", "et"] + ([] if is_poly else ["power_type"])
            ca = a[ta][cols].values.tolist()
            cb = b[tb][cols].values.tolist()
            if [[str(y) for y in x] for x in ca] != [[str(y) for y in x] for x in cb]:
                ctx.violation("spec", "cost rows differ: %s vs %s" % (ca, cb), case)
        mk = lambda l: cq.lst(["(mkcost %s %s %s)" % (cq.z(e), cq.s(t), cq.s(p)) for e, t, p in l])
        items = cq.lst(["(mkitem %s %s %s)" % (cq.z(e), cq.s(t), cq.s(q_)) for e, t, q_ in zip(els, ets, pts)])
        if hom:
            terms.append("OL [run_cost %s %s %s %s %s %s; run_cost_l %s %s %s %s]" % (
                cq.b(is_poly), mk(poly), mk(pwl), cq.lst([cq.z(e) for e in els]), cq.s(et), cq.s(pt), cq.b(is_poly), mk(poly), mk(pwl), items))
        else:
            terms.append("OL [OL []; run_cost_l %s %s %s %s]" % (cq.b(is_poly), mk(poly), mk(pwl), items))
        keep.append((case, rs, rb, g, hom))
    model = ctx.coq_eval("c24cost", "Base.QN C24.Model C24.ModelX", terms, shard=300)
    for (case, rs, rb, g, hom), (m, ml) in zip(keep, model):
        ctx.corr_checked += 1
        if hom:
            if [rs, rb, g] != m[:3]:
                ctx.disagreement("cost check: impl (fold rejects, batch rejects, guard)=%s model=%s" % ([rs, rb, g], m), case)
            if m[3] != m[1]:
                ctx.count("cost_cases_old_check_would_differ")
        if [rs, rb] != ml:
            ctx.disagreement("cost check (per-element et / power_type): impl (fold rejects, batch rejects)=%s model=%s" % ([rs, rb], ml), case)


# ------------------------------------------------------------------ switches (oracle + correspondence with C24.ModelX.run_switch)
def switch_cases(ctx):
    rng = ctx.rng
    tmpl = pp.create_empty_network()
    pp.create_buses(tmpl, 6, 20.)
    pp.create_lines_from_parameters(tmpl, [0, 1, 2, 3], [1, 2, 3, 4], 1.0, 0.1, 0.1, 10., 0.5)
    pp.create_transformers_from_parameters(tmpl, [0, 4], [5, 5], 1., 20., 20., 1., 5., 1., 0.1)
    tmpl3 = copy.deepcopy(tmpl)
    pp.create_transformer3w_from_parameters(tmpl3, 0, 2, 4, 20., 20., 20., 1., 1., 1., 1., 1., 1., .1, .1, .1, 1., .1, index=3)
    terms, keep = [], []
    for it in range(ctx.n(80, 800)):
        net = copy.deepcopy(tmpl3 if rng.random() < 0.3 else tmpl)
        for _k in range(rng.choice([0, 0, 1, 2])):                 # pre-existing switches
            pp.create_switch(net, 0, 1, "b", index=rng.choice([None, 4, 7]) if _k == 0 else None)
        n = rng.choice([1, 2, 3])
        mode = rng.random()
        ets = [rng.choice(["l", "t", "b", "l", "t", "b", "t3", "x"]) for _ in range(n)]
        if mode < 0.4:
            ets = [ets[0]] * n
        buses, els = [], []
        if it == 0:                      # recorded witness: line 0 = 0-1, line 1 = 1-2
            n, mode, ets = 2, 0.9, ["l", "l"]
        for et in ets:
            if et == "l":
                e = rng.randrange(4) if rng.random() < 0.9 else 6
                b = rng.choice([net.line.from_bus.at[e], net.line.to_bus.at[e]]) if rng.random() < 0.8 and e < 4 else rng.randrange(7)
            elif et == "t":
                e = rng.randrange(2) if rng.random() < 0.9 else 3
                b = rng.choice([net.trafo.hv_bus.at[e], net.trafo.lv_bus.at[e]]) if rng.random() < 0.8 and e < 2 else rng.randrange(7)
            elif et == "t3":
                e = 3 if rng.random() < 0.8 else 0
                b = rng.choice([0, 2, 4]) if rng.random() < 0.8 else rng.randrange(7)
            else:
                e = rng.randrange(7); b = rng.randrange(7)
            buses.append(int(b)); els.append(int(e))
        if it == 0:
            buses, els = [0, 2], [1, 0]
        closed = [rng.random() < 0.5 for _ in range(n)]
        index = None
        if rng.random() < 0.35:
            index = rng.sample([0, 1, 2, 4, 5, 7, 9], n)
            if n > 1 and rng.random() < 0.2:
                index[-1] = index[0]
        a = copy.deepcopy(net); b_ = copy.deepcopy(net)
        before = len(net.switch)
        rs = None
        for i in range(n):
            try:
                with warnings.catch_warnings():
                    warnings.simplefilter("ignore")
                    pp.create_switch(a, buses[i], els[i], ets[i], closed=closed[i], index=None if index is None else index[i])
            except Exception as e:
                rs = type(e).__name__
                break
        rb = None
        et_arg = ets[0] if (mode < 0.4 and rng.random() < 0.5) else ets
        try:
            with warnings.catch_warnings():
                warnings.simplefilter("ignore")
                pp.create_switches(b_, buses, els, et_arg, closed=closed, index=index)
        except Exception as e:
            rb = type(e).__name__
        case = {"kind": "switch", "buses": buses, "elements": els, "et": et_arg, "closed": closed, "index": index,
                "pre_index": [int(i) for i in net.switch.index], "t3": len(net.trafo3w) > 0}
        ctx.case(case, nontrivial=n >= 2)
        ctx.count("switch_cases")
        ctx.count("switch_" + ("rejected" if rs or rb else "accepted"))
        if (rs is None) != (rb is None):
            ctx.violation("spec", "switch: single calls %s, batch call %s" % (rs or "accept", rb or "accepts"), case)
            ctx.count("oracle_diff_switch")
        elif rs is None:
            ca = a.switch[["bus", "element", "et", "closed"]].values.tolist()
            cb = b_.switch[["bus", "element", "et", "closed"]].values.tolist()
            if ca != cb or list(a.switch.index) != list(b_.switch.index):
                ctx.violation("spec", "switch rows differ %s vs %s" % (ca, cb), case)
        rows = lambda df, cols: cq.lst(["(mkrow %s %s)" % (cq.z(i), cq.lst([cq.z(df[c].at[i]) for c in cols])) for i in df.index])
        terms.append("run_switch %s %s %s %s %s %s %s" % (
            cq.lst([cq.z(i) for i in net.bus.index]), rows(net.line, ["from_bus", "to_bus"]), rows(net.trafo, ["hv_bus", "lv_bus"]),
            rows(net.trafo3w, ["hv_bus", "mv_bus", "lv_bus"]), cq.lst([cq.z(i) for i in net.switch.index]),
            "None" if index is None else "(Some %s)" % cq.lst([cq.z(i) for i in index]),
            cq.lst(["(mksw %s %s %s)" % (cq.z(buses[i]), cq.z(els[i]), cq.s(ets[i])) for i in range(n)])))
        keep.append((case, rs, rb, [int(i) for i in a.switch.index[before:]] if rs is None else None,
                     [int(i) for i in b_.switch.index[before:]] if rb is None else None))
    model = ctx.coq_eval("c24sw", "Base.QN C24.Model C24.ModelX", terms, shard=300)
    for (case, rs, rb, ia, ib), m in zip(keep, model):
        ctx.corr_checked += 1
        for name, r, idx, mm in (("single", rs, ia, m[0]), ("batch", rb, ib, m[1])):
            if isinstance(mm, cq.Err) != (r is not None):
                ctx.disagreement("switch %s: impl %s model %s" % (name, r or "accepts", mm), case)
            elif r is None and [int(i) for i in mm] != idx:
                ctx.disagreement("switch %s: index impl %s model %s" % (name, idx, mm), case)


def _conn(net, et, e):
    if et == "l":
        return [int(net.line.from_bus.at[e]), int(net.line.to_bus.at[e])]
    return [int(net.trafo.hv_bus.at[e]), int(net.trafo.lv_bus.at[e])]


# ------------------------------------------------------------------ corpus (witnesses of the recorded findings, replayed first)
def corpus(ctx):
    import glob, json, os
    for f in sorted(glob.glob(os.path.join(cq.VERIF, "corpus", "C24", "*.json"))):
        case = json.load(open(f))
        kind = case["kind"]
        with warnings.catch_warnings():
            warnings.simplefilter("ignore")
            res = run_kind_case(ctx, kind, case)
        ctx.case(case, nontrivial=True)
        ctx.count("corpus")
        oracle(ctx, kind, case, res)


def run(ctx):
    corpus(ctx)
    gen_and_run_kinds(ctx)
    cost_cases(ctx)
    switch_cases(ctx)


def replay(ctx, rec):
    case = rec.get("case", {})
    if case.get("kind") in ck.KINDS:
        with warnings.catch_warnings():
            warnings.simplefilter("ignore")
            res = run_kind_case(ctx, case["kind"], case)
        ctx.case(case, nontrivial=True)
        oracle(ctx, case["kind"], case, res)
        if case["kind"] in MODELLED + XMODELLED:
            mod = ctx.coq_eval("c24r", "Base.QN C24.Model C24.ModelX", [model_term(case["kind"], case, res)])[0]
            compare_model(ctx, case["kind"], case, res, mod)
    else:
        ctx.notes.append("replay of cost/switch cases: re-running the generators with the recorded seed reproduces the case")
        run(ctx)
