"""C29 — protection devices: trip/melt time is non-increasing in the current.
Correspondence: Fuse.protection_function and OCRelay.protection_function (DTOC / IDMT / IDTOC, all curve types) are called
with stubbed result tables (res_switch_sc.ikss_ka, res_switch.i_ka) over sorted current sweeps that contain the thresholds
themselves, values just around them, 0, NaN; the returned dicts are compared with C29.Model.
Oracle: the property text on the returned dicts (monotone times, trip iff pick-up exceeded, activation value = switch current
of the chosen table), independent of the model.
Settings: time_grading (list form on nets with parallel lines / open switches / gapped switch index, DataFrame form with
shuffled / filtered / relabelled rows and wrong column order) and the reads in create_protection_function (times and manual
pick-up currents of the row with the relay's switch_id) are compared with C29.Grading; oracle: the relay holds the user's values of ITS switch id
(repaired: the rows are now selected by the switch_id column; the old label / position reads are kept in the model as
relay_times_old / pickup_iloc and must DIFFER from the impl on a witness, see regression check)."""
import math, copy
import numpy as np, pandas as pd
import pandapower as pp
from fractions import Fraction
from pandapower.protection.protection_devices.fuse import Fuse
from pandapower.protection.protection_devices.ocrelay import OCRelay
from vf import coqrun as cq

RULE = ("devices: fuses with generated monotone characteristics (3-8 points, log-spaced currents, decreasing times) and library "
        "fuse types; OC relays DTOC / IDMT / IDTOC with the four curve types and random settings (80 % consistently graded: "
        "I_s <= I> <= I>>, t>> <= t> <= inverse curve at I>; 20 % not, correspondence only); sweeps of 8-16 currents containing "
        "every threshold exactly, neighbours one ulp-scale step away, 0 and NaN; scenario sc / pp / invalid; the two result "
        "tables hold different values; non-trivial = the sweep crosses at least one threshold of the device")
ASSUMPTIONS = ["the VALUE of the melting curve of a fuse (LogSplineCharacteristic, PCHIP in log-log) is passed to the protection_function model as "
               "an oracle; its monotonicity on [i_start, i_stop] is a theorem for monotone data (C29_fuse_pchip_time_antitone via C32/Whole.v, "
               "log10 / 10** through their order contract) and is additionally checked on a 60-point grid for every fuse",
               "list-form time grading: the grid search results (bus_path_multiple_ext_bus + get_line_path, parallel_lines) are observed on the "
               "real functions and passed to the model; integer row labels in the settings frames",
               "(i_ka / I_s) ** alpha is an oracle value (numpy float power) passed to the model; its monotonicity is proved over R for the true power function"]
TRUSTED = ["result tables res_switch_sc / res_switch written directly into the net (stub), relay settings set as attributes after construction"]
KF_NAN = "C29-fuse-trips-on-nan-current"
CURVES = ["standard_inverse", "very_inverse", "extremely_inverse", "long_inverse"]
FUSE_TYPES = ["Siemens NH-2-315", "Siemens NH-2-425", "Siemens NH-2-630", "Siemens NH-2-224", "HV 63A", "HV 10A"]


def relay_net(switch_index=None):
    net = pp.create_empty_network()
    pp.create_buses(net, nr_buses=7, vn_kv=20, geodata=[(0, 0), (0, -1), (-2, -2), (-2, -4), (2, -2), (2, -3), (2, -4)])
    pp.create_ext_grid(net, 0, vm_pu=1.0, va_degree=0, s_sc_max_mva=100, s_sc_min_mva=50, rx_max=0.1, rx_min=0.1)
    pp.create_lines(net, from_buses=[0, 1, 2, 1, 4, 5], to_buses=[1, 2, 3, 4, 5, 6], length_km=[2, 5, 4, 4, 0.5, 0.5],
                    std_type="NAYY 4x50 SE")
    net.line["endtemp_degree"] = 250
    pp.create_switches(net, buses=[0, 1, 1, 2, 4, 5], elements=[0, 1, 3, 2, 4, 5], et='l', type="CB_DTOC", index=switch_index)
    pp.create_loads(net, buses=[3, 6], p_mw=[5, 2], q_mvar=[1, 1])
    return net


class Devices:
    def __init__(self):
        self.net = relay_net()
        n = self.net
        self.dtoc = OCRelay(n, switch_index=0, oc_relay_type="DTOC", time_settings=[0.07, 0.5, 0.3])
        self.idmt = {c: OCRelay(n, switch_index=1 + k, oc_relay_type="IDMT", time_settings=[1, 0.5], curve_type=c, overwrite=False)
                     for k, c in enumerate(CURVES)}
        self.idtoc = {c: OCRelay(n, switch_index=5, oc_relay_type="IDTOC", time_settings=[0.07, 0.5, 0.3, 1, 0.5], curve_type=c,
                                 overwrite=True) for c in CURVES[:1]}
        # IDTOC relays for the other curves share switch 5 one after the other
        for c in CURVES[1:]:
            self.idtoc[c] = OCRelay(n, switch_index=5, oc_relay_type="IDTOC", time_settings=[0.07, 0.5, 0.3, 1, 0.5], curve_type=c,
                                    overwrite=True)
        # the fuses sit in a net whose switch table has a shuffled, gapped index (as after dropping / re-creating switches)
        self.fuse_net = relay_net(switch_index=[7, 3, 12, 0, 5, 9])


def grid(rng, lo, hi, k=64):
    return rng.randint(int(lo * k), int(hi * k)) / k


def sweep(rng, thresholds, lo, hi):
    pts = set()
    for t in thresholds:
        pts.update([t, float(np.nextafter(t, np.inf)), float(np.nextafter(t, -np.inf)), t * 1.0625, t * 0.9375])
    for _ in range(rng.randint(3, 6)):
        pts.add(grid(rng, lo, hi, 256))
    pts.add(0.0)
    pts = sorted(p for p in pts if p >= 0)
    if len(pts) > 16:
        keep = set(rng.sample(pts, 16)) | set(thresholds)
        pts = sorted(keep)
    pts = [float(p) for p in pts]
    if rng.random() < 0.5:
        pts.insert(rng.randrange(len(pts) + 1), float("nan"))
    return pts


def call(dev, net, sw, cur, scenario, other, rng=None):
    """stub both result tables: the device's switch (label sw) carries `cur` in the table of the scenario, every other row
    and the other table carry different values; the rows are in shuffled order, so reading by position, from another
    switch or from the wrong table is visible in the returned activation value"""
    labels = list(net.switch.index)
    if rng is not None:
        labels = rng.sample(labels, len(labels))
    if other != other:
        fill = {l: float("nan") for l in labels}
    else:
        fill = {l: other + 1.0 + 0.25 * j for j, l in enumerate(labels)}
    a = dict(fill)
    b_ = {l: v + 100.0 for l, v in fill.items()}
    if scenario == "sc":
        a[sw] = cur
    else:
        b_[sw] = cur
    net["res_switch_sc"] = pd.DataFrame({"ikss_ka": [a[l] for l in labels]}, index=labels)
    net["res_switch"] = pd.DataFrame({"i_ka": [b_[l] for l in labels]}, index=labels)
    try:
        return dev.protection_function(net, scenario)
    except Exception as e:          # ValueError is the documented answer to an invalid scenario; anything else is a failure
        return cq.Err(type(e).__name__)


def tval(x):
    if isinstance(x, float) and math.isinf(x):
        return "inf"
    return float(x)


def fz(x):
    return cq.oq(x)


def scen_term(s):
    return {"sc": "Sc", "pp": "Pp"}.get(s, "Other")


def one_case(ctx, rng, D):
    kind = rng.choice(["fuse", "fuse", "dtoc", "idmt", "idmt", "idtoc", "idtoc"])
    scenario = rng.choice(["sc", "sc", "pp", "pp", "bad"]) if rng.random() < 0.3 else rng.choice(["sc", "pp"])
    other = rng.choice([0.0, 123.0, float("nan")])
    desc = {"kind": kind, "scenario": scenario}
    terms, impl = [], []
    graded = True
    if kind == "fuse":
        net = D.fuse_net
        sw = int(rng.choice(list(net.switch.index)))
        if rng.random() < 0.3:
            f = Fuse(net, switch_index=sw, fuse_type=rng.choice(FUSE_TYPES), curve_select=rng.choice([0, 1]), overwrite=True)
            desc["fuse_type"] = f.fuse_type
        else:
            k = rng.randint(3, 8)
            x0 = rng.choice([50.0, 100.0, 189.0, 550.0])
            xs = [x0]
            for _ in range(k - 1):
                xs.append(round(xs[-1] * rng.choice([1.25, 1.5, 2.0, 2.5]), 3))
            y0 = rng.choice([4800.0, 100.0, 10.0])
            ys = [y0]
            for _ in range(k - 1):
                ys.append(ys[-1] / rng.choice([1.0, 2.0, 8.0, 40.0]) if rng.random() < 0.9 else ys[-1])
            f = Fuse(net, switch_index=sw, fuse_type="none", overwrite=True)
            f.create_characteristic(net, xs, ys)
            desc["xs"], desc["ys"] = xs, ys
        i_start, i_stop = float(f.i_start_a), float(f.i_stop_a)
        c = net.characteristic.at[f.characteristic_index, "object"]
        gridx = np.logspace(np.log10(i_start), np.log10(i_stop), 60)
        gridx[0], gridx[-1] = i_start, i_stop
        gy = np.asarray(c(gridx), dtype=float)
        mono = bool(np.all(np.diff(gy) <= 1e-12 * np.abs(gy[:-1])) and np.all(gy >= 0))
        # hypotheses of C29_fuse_pchip_time_antitone on the characteristic data actually stored in the net
        lx_, ly_ = np.asarray(c.x_vals, dtype=float), np.asarray(c.y_vals, dtype=float)
        mono_data = bool(len(lx_) >= 2 and np.all(np.diff(lx_) > 0) and np.all(np.diff(ly_) <= 0)
                         and np.all(np.isfinite(lx_)) and np.all(np.isfinite(ly_)) and c.interpolator_kind == "Pchip")
        ctx.count("fuse_data_monotone" if mono_data else "fuse_data_not_monotone")
        if mono_data and not mono:
            # the whole-curve theorem says this cannot happen: the real LogSplineCharacteristic is not the modelled PCHIP curve
            ctx.violation("spec", "fuse characteristic with monotone data is not monotone on [i_start, i_stop]: %s" % gy[:8], desc)
        if not mono:
            ctx.count("fuse_curve_not_monotone")
        curs = sweep(rng, [i_start / 1000, i_stop / 1000], 0.0, i_stop / 1000 * 1.5)
        desc.update(i_start_a=i_start, i_stop_a=i_stop, currents=[None if x != x else x for x in curs])
        for cur in curs:
            r = call(f, net, sw, cur, scenario, other, rng)
            ia = cur * 1000
            cv = float(c(ia)) if (cur == cur and i_start <= ia <= i_stop) else 0.0
            impl.append(r)
            # the impl compares the float product i_ka*1000: give the model the rational whose exact product with 1000 is that float
            curm = Fraction(float(np.float64(cur) * 1000)) / 1000 if cur == cur else cur
            sc_v, pp_v = (curm, other) if scenario == "sc" else (other, curm)   # the unselected table is irrelevant to the result
            terms.append("run_fuse %s %s %s %s %s %s" % (cq.q(i_start), cq.q(i_stop), cq.q(cv), scen_term(scenario), fz(sc_v), fz(pp_v)))
        pick = ("fuse", i_start / 1000)
        graded = mono_data or mono
        thresholds = [i_start / 1000, i_stop / 1000]
    else:
        net = D.net
        if kind == "dtoc":
            dev = D.dtoc
        else:
            curve = rng.choice(CURVES)
            dev = (D.idmt if kind == "idmt" else D.idtoc)[curve]
            desc["curve"] = curve
        sw = dev.switch_index
        consistent = rng.random() < 0.8
        I_s = grid(rng, 0.05, 0.5)
        I_g = I_s * rng.choice([1.0, 1.25, 2.0, 3.0]) if consistent else grid(rng, 0.02, 1.0)
        I_gg = I_g * rng.choice([1.0, 1.5, 4.0]) if consistent else grid(rng, 0.02, 1.0)
        tms = rng.choice([0.05, 0.1, 0.5, 1.0, 1.0])
        t_grade = rng.choice([0.0, 0.3, 0.5])
        thresholds = []
        if kind in ("idmt", "idtoc"):
            dev.I_s, dev.tms, dev.t_grade = I_s, tms, t_grade
            thresholds.append(I_s)
            k_, al = float(dev.k), float(dev.alpha)

            def curve_t(i):
                return tms * k_ / ((np.float64(i) / I_s) ** al - 1) + t_grade
        if kind in ("dtoc", "idtoc"):
            if kind == "idtoc" and consistent and I_g > I_s:
                top = float(curve_t(I_g))
                t_g = top * rng.choice([1.0, 0.5, 0.25]) if math.isfinite(top) else 1.0
            else:
                t_g = rng.choice([0.25, 0.5, 1.0, 2.0])
            t_gg = t_g * rng.choice([1.0, 0.5, 0.1]) if consistent else rng.choice([0.05, 0.5, 3.0])
            dev.I_g, dev.I_gg, dev.t_g, dev.t_gg = I_g, I_gg, t_g, t_gg
            thresholds += [I_g, I_gg]
        if kind == "dtoc":
            graded = (t_gg <= t_g) or (I_gg <= I_g)
            pick = ("relay", min(I_g, I_gg))
        elif kind == "idmt":
            graded = True
            pick = ("relay", I_s)
        else:
            graded = I_s <= I_g <= I_gg and t_gg <= t_g and (not (I_s < I_g) or t_g <= float(curve_t(I_g)))
            pick = ("relay", min(I_s, I_g, I_gg))
        curs = sweep(rng, thresholds, 0.0, max(thresholds) * 2)
        desc.update({k: getattr(dev, k) for k in ("I_s", "I_g", "I_gg", "t_g", "t_gg", "tms", "t_grade") if getattr(dev, k, None) is not None})
        desc["currents"] = [None if x != x else x for x in curs]
        for cur in curs:
            r = call(dev, net, sw, cur, scenario, other, rng)
            impl.append(r)
            sc_v, pp_v = (cur, other) if scenario == "sc" else (other, cur)
            args = "%s %s %s" % (scen_term(scenario), fz(sc_v), fz(pp_v))
            dset = "{| I_g := %s; I_gg := %s; t_g := %s; t_gg := %s |}" % tuple(cq.q(float(x)) for x in (dev.I_g or 0, dev.I_gg or 0, dev.t_g or 0, dev.t_gg or 0)) if kind != "idmt" else None
            if kind != "dtoc":
                pw = float((np.float64(cur) / I_s) ** al) if (cur == cur and cur > I_s) else 0.0
                if not math.isfinite(pw):
                    pw = 0.0
                mset = "{| I_s := %s; tms := %s; kk := %s; t_grade := %s |}" % (cq.q(I_s), cq.q(tms), cq.q(k_), cq.q(t_grade))
            if kind == "dtoc":
                terms.append("run_dtoc %s %s" % (dset, args))
            elif kind == "idmt":
                terms.append("run_idmt %s %s %s" % (mset, cq.q(pw), args))
            else:
                terms.append("run_idtoc %s %s %s %s" % (dset, mset, cq.q(pw), args))
    # ---------------- oracle on the returned dicts
    viol = []
    if scenario in ("sc", "pp"):
        prev = None
        for cur, r in zip(curs, impl):
            if isinstance(r, cq.Err):
                viol.append(("spec", "protection_function raised %s for the valid scenario %r (switch %r, switch table index %s)" % (
                    r.s, scenario, sw, list(net.switch.index))))
                break
            t = r["trip_melt_time_s"]
            av = r["activation_parameter_value"]
            if not ((av != av and cur != cur) or av == cur):
                viol.append(("spec", "activation_parameter_value %r is not the switch current %r of table %s" % (av, cur, scenario)))
            if r["activation_parameter"] != "i_ka" or r["switch_id"] != sw:
                viol.append(("spec", "wrong activation parameter / switch id"))
            if cur != cur:
                if r["trip_melt"]:
                    viol.append((KF_NAN if kind == "fuse" else "spec", "%s trips (time %r) on a NaN current" % (kind, t)))
                continue
            exceeds = (cur * 1000 >= pick[1] * 1000) if pick[0] == "fuse" else (cur > pick[1])
            if pick[0] == "fuse":
                exceeds = cur * 1000 >= desc["i_start_a"]
            if graded or kind in ("fuse", "idmt"):
                if bool(r["trip_melt"]) != bool(exceeds):
                    viol.append(("spec", "trip_melt %r at current %r but pick-up/start value is %r" % (r["trip_melt"], cur, pick[1])))
            if (not r["trip_melt"]) and not (isinstance(t, float) and math.isinf(t)):
                viol.append(("spec", "not tripped but finite time %r" % t))
            if graded and prev is not None:
                pc_, pt = prev
                if float(t) > float(pt) * (1 + 1e-12) + 1e-15 and not (math.isinf(float(t)) and math.isinf(float(pt))):
                    viol.append(("spec", "trip time increases with the current: t(%r) = %r > t(%r) = %r" % (cur, t, pc_, pt)))
            prev = (cur, t)
    else:
        if not all(r == cq.Err("ValueError") for r in impl):
            viol.append(("spec", "invalid scenario did not raise ValueError"))
    seen = set()
    for kind_, what in viol:
        if kind_ in seen:
            continue
        seen.add(kind_)
        ctx.violation(kind_, what, desc)
    crosses = sum(1 for t in thresholds if any(c == c and c <= t for c in curs) and any(c == c and c > t for c in curs))
    ctx.case(desc, nontrivial=crosses > 0 and scenario != "bad", sample={"case": desc, "first": str(impl[:3])[:400]})
    ctx.count("kind_" + kind)
    ctx.count("graded" if graded else "ungraded")
    ctx.count("scenario_" + scenario)
    return "OL [" + "; ".join(terms) + "]", impl, desc, curs


def norm_impl(r):
    if isinstance(r, cq.Err):
        return r
    t = r["trip_melt_time_s"]
    return [bool(r["trip_melt"]), tval(float(t)), None if r["activation_parameter_value"] != r["activation_parameter_value"] else float(r["activation_parameter_value"])]


def close(a, b):
    if a == "inf" or b == "inf":
        return a == b
    return abs(float(a) - float(b)) <= 1e-9 * max(1.0, abs(float(a)))


def compare(impl, mod):
    for k, (r, m) in enumerate(zip(impl, mod)):
        ni = norm_impl(r)
        if isinstance(ni, cq.Err) or isinstance(m, cq.Err):
            if ni != m:
                return "call %d: impl %r model %r" % (k, ni, m)
            continue
        (mt, mtime), mi = m
        if ni[0] != mt or not close(ni[1], mtime if mtime == "inf" else float(mtime)):
            return "call %d: impl %r model %r" % (k, ni, m)
        if (ni[2] is None) != (mi is None) or (mi is not None and abs(float(mi) - ni[2]) > 1e-12 * max(1.0, abs(ni[2]))):
            return "call %d: activation value impl %r model %r" % (k, ni[2], mi)
    return None


def run(ctx):
    rng = ctx.rng
    D = Devices()
    terms, impls, descs = [], [], []
    for k in range(ctx.n(400, 6000)):
        t, impl, desc, curs = one_case(ctx, rng, D)
        terms.append(t)
        impls.append(impl)
        descs.append(desc)
    model = ctx.coq_eval("c29", "Base.QN C29.Model", terms, shard=40, timeout=1200)
    for impl, mod, desc in zip(impls, model, descs):
        ctx.corr_checked += 1
        w = compare(impl, mod)
        if w:
            ctx.disagreement("protection_function differs from the model: " + w, desc)
    for k in range(ctx.n(8, 60)):
        manual_pickup(ctx, rng, D)
    for k in range(ctx.n(12, 80)):
        manual_times(ctx, rng, D)
    grading_cases(ctx, rng)


def manual_pickup(ctx, rng, D):
    """the settings given by the user are the settings the protection function uses (pickup_current_manual)"""
    net = D.net
    kind = rng.choice(["DTOC", "IDTOC"])
    vals = {"I_gg": [grid(rng, 1.0, 3.0) for _ in range(6)], "I_g": [grid(rng, 0.2, 0.9) for _ in range(6)],
            "I_s": [grid(rng, 0.05, 0.19) for _ in range(6)]}
    man = pd.DataFrame({"switch_id": range(6), **vals})
    sw = rng.randrange(6)
    ts = [0.07, 0.5, 0.3] if kind == "DTOC" else [0.07, 0.5, 0.3, 1, 0.5]
    r = OCRelay(net, switch_index=sw, oc_relay_type=kind, time_settings=ts, pickup_current_manual=man, overwrite=True)
    case = {"kind": kind, "switch": sw, "manual": {k: v[sw] for k, v in vals.items()}}
    ctx.case(case, nontrivial=True)
    ctx.count("manual_pickup_" + kind)
    if r.I_g != vals["I_g"][sw] or r.I_gg != vals["I_gg"][sw] or (kind == "IDTOC" and r.I_s != vals["I_s"][sw]):
        ctx.violation("spec", "manual pick-up currents not used: relay has I_g=%r I_gg=%r I_s=%r, given %r" % (r.I_g, r.I_gg, r.I_s, case["manual"]), case)
        return
    # a current between I> and I>> must trip with t>, not earlier
    cur = (vals["I_g"][sw] + vals["I_gg"][sw]) / 2
    res = call(r, net, sw, cur, "sc", 0.0, rng)
    if not res["trip_melt"] or res["trip_melt_time_s"] != r.t_g:
        ctx.violation("spec", "current %r between I>=%r and I>>=%r trips after %r s instead of t>=%r" % (
            cur, r.I_g, r.I_gg, res["trip_melt_time_s"], r.t_g), case)


def manual_times(ctx, rng, D):
    """the times given by the user are the times the relay trips with (time_settings as DataFrame and as list), and across
    the two DTOC stages the tripping time does not increase with the current"""
    net = D.net
    sw = rng.randrange(6)
    vals = {"I_gg": [grid(rng, 1.0, 3.0) for _ in range(6)], "I_g": [grid(rng, 0.2, 0.9) for _ in range(6)], "I_s": [grid(rng, 0.05, 0.19) for _ in range(6)]}
    man = pd.DataFrame({"switch_id": range(6), **vals})
    mode = rng.choice(["dtoc_df", "dtoc_df", "idmt_df", "dtoc_list", "idmt_list"])
    case = {"mode": mode, "switch": sw}
    if mode == "dtoc_df":
        tgg = [rng.choice([0.05, 0.07, 0.1]) for _ in range(6)]
        tg = [rng.choice([0.3, 0.5, 0.8, 1.4]) for _ in range(6)]
        ts = pd.DataFrame({"switch_id": range(6), "t_gg": tgg, "t_g": tg})
        r = OCRelay(net, switch_index=sw, oc_relay_type="DTOC", time_settings=ts, pickup_current_manual=man, overwrite=True)
        exp_tg, exp_tgg = tg[sw], tgg[sw]
    elif mode == "dtoc_list":
        lst = [rng.choice([0.05, 0.07]), rng.choice([0.4, 0.5]), rng.choice([0.2, 0.3])]
        r = OCRelay(net, switch_index=sw, oc_relay_type="DTOC", time_settings=lst, pickup_current_manual=man, overwrite=True)
        exp_tgg = lst[0]
        exp_tg = None
        k = (r.t_g - lst[1]) / lst[2]
        if r.t_g < lst[1] - 1e-12 or abs(k - round(k)) > 1e-9 or round(k) > len(net.line):
            ctx.violation("spec", "list time settings %s: t> = %r is not t> + k*t_diff for a line depth k" % (lst, r.t_g), case)
    elif mode == "idmt_df":
        tms = [rng.choice([0.5, 1.0, 1.5]) for _ in range(6)]
        tgr = [rng.choice([0.0, 0.3, 0.5]) for _ in range(6)]
        ts = pd.DataFrame({"switch_id": range(6), "tms": tms, "t_grade": tgr})
        r = OCRelay(net, switch_index=sw, oc_relay_type="IDMT", time_settings=ts, pickup_current_manual=man, overwrite=True)
        if r.tms != tms[sw] or r.t_grade != tgr[sw]:
            ctx.violation("spec", "IDMT DataFrame time settings not used: relay tms=%r t_grade=%r, given %r / %r" % (r.tms, r.t_grade, tms[sw], tgr[sw]), case)
        exp_tg = exp_tgg = None
    else:
        lst = [rng.choice([0.5, 1.0]), rng.choice([0.3, 0.5])]
        r = OCRelay(net, switch_index=sw, oc_relay_type="IDMT", time_settings=lst, pickup_current_manual=man, overwrite=True)
        if r.tms != lst[0]:
            ctx.violation("spec", "IDMT list time settings: tms %r, given %r" % (r.tms, lst[0]), case)
        exp_tg = exp_tgg = None
    ctx.case(case, nontrivial=True)
    ctx.count("manual_times_" + mode)
    if mode.startswith("dtoc"):
        if r.t_gg != exp_tgg or (exp_tg is not None and r.t_g != exp_tg):
            ctx.violation("spec", "DTOC time settings not used: relay t>=%r t>>=%r, given t>=%r t>>=%r" % (r.t_g, r.t_gg, exp_tg, exp_tgg), case)
            return
        lo_cur = (r.I_g + r.I_gg) / 2
        hi_cur = r.I_gg * 1.5
        t_lo = call(r, net, sw, lo_cur, "sc", 0.0, rng)["trip_melt_time_s"]
        t_hi = call(r, net, sw, hi_cur, "sc", 0.0, rng)["trip_melt_time_s"]
        if t_lo != r.t_g or t_hi != r.t_gg:
            ctx.violation("spec", "current %r (between I> and I>>) trips after %r s, current %r (above I>>) after %r s; settings t>=%r t>>=%r" % (
                lo_cur, t_lo, hi_cur, t_hi, r.t_g, r.t_gg), case)
        elif t_hi > t_lo:
            ctx.violation("spec", "the larger current trips later: t(%r)=%r > t(%r)=%r" % (hi_cur, t_hi, lo_cur, t_lo), case)


# ---------------------------------------------------------------- where the relay gets its settings from (C29.Grading)
def grading_net(variant):
    """A: example net; B: + a line parallel to line 1 with its own switch 6, one of the two parallel switches may be open;
    C: shuffled, gapped switch index"""
    if variant == "C":
        return relay_net(switch_index=[7, 3, 12, 0, 5, 9])
    net = relay_net()
    if variant.startswith("B"):
        pp.create_line(net, 1, 2, length_km=5, std_type="NAYY 4x50 SE")
        net.line["endtemp_degree"] = 250
        pp.create_switch(net, bus=1, element=6, et="l", type="CB_DTOC")
        if variant == "B1":
            net.switch.at[1, "closed"] = False
        elif variant == "B6":
            net.switch.at[6, "closed"] = False
    return net


def _grid_term(net):
    from pandapower.protection.utility_functions import bus_path_multiple_ext_bus, get_line_path, parallel_lines
    paths = [get_line_path(net, bp) for bp in bus_path_multiple_ext_bus(net)]          # observed on the real functions
    par = parallel_lines(net)
    closed = [(int(sw), int(net.switch.element.at[sw])) for sw in net.switch[net.switch.closed == True].index]
    zl = lambda l: cq.lst([cq.z(int(v)) for v in l])
    term = "{| paths := %s; par := %s; lines := %s; closed := %s |}" % (
        cq.lst([zl(p_) for p_ in paths]), cq.lst(["(%s, %s)" % (cq.z(int(a)), cq.z(int(b))) for a, b in par]),
        zl(net.line.index), cq.lst(["(%s, %s)" % (cq.z(a), cq.z(b)) for a, b in closed]))
    return term, paths, closed


def _fl(x):
    return None if x is None else float(x)


def grading_cases(ctx, rng):
    """time_grading + the reads in create_protection_function against C29.Grading (table rows, the relay's four times, the
    guards), and the oracle: the relay holds the user's values of ITS switch id"""
    from pandapower.protection.protection_devices.ocrelay import time_grading
    nets = {}
    terms, keep = [], []
    pk_terms, pk_keep = [], []
    for it in range(ctx.n(36, 300)):
        variant = rng.choice(["A", "A", "B", "B1", "B6", "C"])
        if variant not in nets:
            net = grading_net(variant)
            nets[variant] = (net,) + _grid_term(net)
        net, gterm, paths, closed = nets[variant]
        sw_ids = [int(v) for v in net.switch.index]
        closed_ids = [a for a, _ in closed]
        s = int(rng.choice(closed_ids))
        form = rng.choice(["list", "list", "frame", "frame", "frame"])
        ty = rng.choice(["DTOC", "IDMT", "IDTOC"] if form == "list" else ["DTOC", "DTOC", "IDMT", "IDMT", "IDTOC"])
        nrow = max(sw_ids) + 1
        kvals = {"I_gg": [grid(rng, 1.0, 3.0) for _ in range(nrow)], "I_g": [grid(rng, 0.2, 0.9) for _ in range(nrow)],
                 "I_s": [grid(rng, 0.05, 0.19) for _ in range(nrow)]}
        k_sid = list(range(nrow))
        if rng.random() < 0.4:
            rng.shuffle(k_sid)
        man = pd.DataFrame({"switch_id": k_sid, **kvals})
        case = {"kind": "grading", "net": variant, "switch": s, "form": form, "type": ty}
        if form == "list":
            t3 = [rng.choice([0.0625, 0.125]), rng.choice([0.25, 0.5, 0.75]), rng.choice([0.125, 0.25, 0.375])]
            t2 = [rng.choice([0.5, 1.0, 1.5]), rng.choice([0.25, 0.5])]
            ts = {"DTOC": t3, "IDMT": t2, "IDTOC": t3 + t2}[ty]
            case["time_settings"] = ts
            tterm = "(TList %s)" % cq.lst([cq.q(v) for v in ts])
            guard_py = sorted(closed_ids) == list(range(len(closed_ids)))
            user = None
        else:
            ids = list(sw_ids)
            mode = rng.choice(["range", "range", "shuffled_ids", "labels", "dup_label", "subset", "dup_sid"])
            if mode in ("shuffled_ids", "labels", "dup_label"):
                rng.shuffle(ids)
            if mode == "subset":
                ids = [i for i in ids if i == s or rng.random() < 0.6]
            labels = list(range(len(ids)))
            if mode == "labels":
                labels = [v + rng.choice([0, 0, 10]) for v in rng.sample(range(len(ids) + 3), len(ids))]
            if mode == "dup_label" and len(ids) > 1:
                labels[1] = labels[0]
            if mode == "dup_sid" and len(ids) > 1:
                ids[1] = ids[0]                          # two rows for one switch: ValueError for that switch
            colkind = rng.choice(["dtoc", "idmt", "dtoc", "idmt", "swapped"])
            a = [rng.choice([0.0625, 0.125, 0.5, 1.0, 1.5]) + 0.001 * (i % 7) for i in ids]
            b = [rng.choice([0.25, 0.5, 0.75, 1.25]) + 0.001 * (i % 5) for i in ids]
            names = {"dtoc": ["switch_id", "t_gg", "t_g"], "idmt": ["switch_id", "tms", "t_grade"], "swapped": ["switch_id", "t_g", "t_gg"]}[colkind]
            ts = pd.DataFrame({names[0]: ids, names[1]: a, names[2]: b}, index=labels)
            case.update(columns=names, switch_ids=ids, labels=labels, c1=a, c2=b)
            rows = ["{| lbl := %s; sid := %s; c1 := %s; c2 := %s |}" % (cq.z(l), cq.z(i), cq.q(x), cq.q(y)) for l, i, x, y in zip(labels, ids, a, b)]
            tterm = "(TFrame %s %s)" % ({"dtoc": "ColsDtoc", "idmt": "ColsIdmt", "swapped": "ColsOther"}[colkind], cq.lst(rows))
            guard_py = all(l == i for l, i in zip(labels, ids))
            user = None
            if colkind != "swapped" and ids.count(s) == 1:
                k = ids.index(s)
                user = (b[k], a[k])                       # (t_g | t_grade, t_gg | tms) of switch s
        # ---- impl: the table and the relay
        try:
            tab = time_grading(net, ts if form == "frame" else ({"IDTOC": ts[:3]}.get(ty, ts)))
            tab_rows = [[int(l), int(r_.switch_id), float(r_.t_g), float(r_.t_gg)] for l, r_ in zip(tab.index, tab.itertuples())]
        except Exception as e:
            tab_rows = cq.Err(type(e).__name__)
        try:
            r = OCRelay(net, switch_index=s, oc_relay_type=ty, time_settings=copy.deepcopy(ts), pickup_current_manual=man, overwrite=True)
            got = [_fl(r.t_g), _fl(r.t_gg), _fl(r.tms), _fl(r.t_grade)]
            picks = (r.I_g, r.I_gg, r.I_s)
        except Exception as e:
            got = cq.Err(type(e).__name__)
            picks = None
        case["relay"] = repr(got)
        ctx.case(case, nontrivial=True, sample={"case": case} if it < 2 else None)
        ctx.count("grading_%s_%s_%s" % (variant, form, ty))
        terms.append("run_grading %s %s %s %s" % (ty, gterm, tterm, cq.z(s)))
        keep.append((case, tab_rows, got, guard_py, form, ty))
        # ---- oracle: the relay holds the user's values of its switch id
        if form == "frame" and user is not None and ty != "IDTOC":
            exp = [user[0], user[1], None, None] if ty == "DTOC" else [None, None, user[1], user[0]]
            if got != exp:
                ctx.violation("spec",
                              "the relay of switch %r holds %r (t>, t>>, tms, t_grade), the user's row for switch_id %r says %r" % (s, got, s, exp), case)
        if form == "list" and not isinstance(tab_rows, cq.Err):
            mine = [r_ for r_ in tab_rows if r_[1] == s]
            own = [len(p_) for p_ in paths if p_ and p_[-1] == dict(closed)[s]]
            L = max(len(p_) for p_ in paths)
            if len(mine) != 1:
                ctx.violation("spec", "time_grading table has %d rows for the closed switch %r" % (len(mine), s), case)
            else:
                tg_tab, tgg_tab = mine[0][2], mine[0][3]
                t_first = ts[:3] if ty != "IDMT" else [ts[0], ts[1], ts[1]]
                if tgg_tab != t_first[0]:
                    ctx.violation("spec", "list form: t>> / tms of switch %r in the table is %r, given %r" % (s, tgg_tab, t_first[0]), case)
                if own and abs(tg_tab - (t_first[1] + (L - own[-1]) * t_first[2])) > 1e-12:
                    ctx.violation("spec", "list form: t> of switch %r is %r, expected t> + depth * t_diff = %r" % (
                        s, tg_tab, t_first[1] + (L - own[-1]) * t_first[2]), case)
                exp = {"DTOC": [tg_tab, tgg_tab, None, None], "IDMT": [None, None, tgg_tab, tg_tab]}.get(ty)
                if exp is not None and got != exp:
                    ctx.violation("spec",
                                  "list form: the relay of switch %r holds %r, the row of switch_id %r in the time_grading table says %r" % (s, got, s, exp), case)
                if ty == "IDTOC" and (isinstance(got, cq.Err) or got[0] != tg_tab or got[1] != tgg_tab):
                    ctx.violation("spec",
                                  "list form: the IDTOC relay of switch %r holds %r, its row in the table says t>=%r t>>=%r" % (s, got, tg_tab, tgg_tab), case)
        # ---- pick-up currents
        gk = k_sid == list(range(nrow))
        krows = ["{| k_sid := %s; k_Ig := %s; k_Igg := %s; k_Is := %s |}" % (cq.z(i), cq.q(x), cq.q(y), cq.q(z_))
                 for i, x, y, z_ in zip(k_sid, kvals["I_g"], kvals["I_gg"], kvals["I_s"])]
        pk_terms.append("run_pickup %s %s" % (cq.lst(krows), cq.z(s)))
        pk_keep.append((case, picks, gk, ty))
        if picks is not None:
            k = k_sid.index(s)
            exp = {"DTOC": (kvals["I_g"][k], kvals["I_gg"][k], None), "IDMT": (None, None, kvals["I_s"][k]),
                   "IDTOC": (kvals["I_g"][k], kvals["I_gg"][k], kvals["I_s"][k])}[ty]
            if tuple(picks) != exp:
                ctx.violation("spec",
                              "the relay of switch %r holds the pick-up currents %r, the user's row for switch_id %r says %r" % (s, picks, s, exp), case)
    model = ctx.coq_eval("c29g", "Base.QN C29.Grading", terms, shard=40, timeout=600)
    for (case, tab_rows, got, guard_py, form, ty), m in zip(keep, model):
        ctx.corr_checked += 1
        mtab, mrel, mold, mguard = m
        if not isinstance(got, cq.Err) and mold != mrel:
            ctx.count("old_times_rule_differs")           # regression witness: the pre-repair label read gives another row / KeyError
        w = None
        if isinstance(tab_rows, cq.Err) or isinstance(mtab, cq.Err):
            if tab_rows != mtab and not (ty == "IDTOC" and form == "frame"):
                w = "time_grading: impl %r model %r" % (tab_rows, mtab)
        elif len(tab_rows) != len(mtab) or any(a[0] != b[0] or a[1] != b[1] or abs(a[2] - float(b[2])) > 1e-12 or abs(a[3] - float(b[3])) > 1e-12
                                                for a, b in zip(tab_rows, mtab)):
            w = "time_grading table: impl %r model %r" % (tab_rows, mtab)
        if w is None:
            if isinstance(got, cq.Err) or isinstance(mrel, cq.Err):
                if got != mrel:
                    w = "relay times: impl %r model %r" % (got, mrel)
            elif any((a is None) != (b is None) or (a is not None and abs(a - float(b)) > 1e-12) for a, b in zip(got, mrel)):
                w = "relay times: impl %r model %r" % (got, mrel)
        if w is None and bool(mguard) != bool(guard_py):
            w = "guard: python %r model %r" % (guard_py, mguard)
        if w:
            ctx.disagreement("OCRelay settings differ from C29.Grading: " + w, case)
    pmodel = ctx.coq_eval("c29k", "Base.QN C29.Grading", pk_terms, shard=60, timeout=600)
    for (case, picks, gk, ty), m in zip(pk_keep, pmodel):
        if picks is None:
            continue
        ctx.corr_checked += 1
        mrow, mold, mg = m
        if isinstance(mold, cq.Err) or any(p_ is not None and abs(p_ - float(v)) > 1e-12 for p_, v in zip(picks, mold[1:])):
            ctx.count("old_pickup_rule_differs")          # regression witness: the pre-repair positional read gives another row
        ok = not isinstance(mrow, cq.Err) and all(p_ is None or abs(p_ - float(v)) < 1e-12 for p_, v in zip(picks, mrow[1:]))
        if not ok or bool(mg) != bool(gk):
            ctx.disagreement("manual pick-up currents: impl %r model row %r (guard python %r model %r)" % (picks, mrow, gk, mg), case)


def replay(ctx, rec):
    ctx.notes.append("replay: re-running the generators with the recorded seed reproduces the case")
    run(ctx)
