"""C29 — protection devices: trip/melt time is non-increasing in the current.
Correspondence: Fuse.protection_function and OCRelay.protection_function (DTOC / IDMT / IDTOC, all curve types) are called
with stubbed result tables (res_switch_sc.ikss_ka, res_switch.i_ka) over sorted current sweeps that contain the thresholds
themselves, values just around them, 0, NaN; the returned dicts are compared with C29.Model.
Oracle: the property text on the returned dicts (monotone times, trip iff pick-up exceeded, activation value = switch current
of the chosen table), independent of the model."""
import math, copy
import numpy as np, pandas as pd
import pandapower as pp
from fractions import Fraction
from pandapower.protection.protection_devices.fuse import Fuse
from pandapower.protection.protection_devices.ocrelay import OCRelay
from vf import coqrun as cq

RULE = ("devices: fuses with generated monotone characteristics (3-8 points, log-spaced currents, decreasing times) and library "
        "fuse types; OC relays DTOC / IDMT / IDTOC with the four curve types and random settings (80 % consistently graded: "
        "I_s <= I> <= I>>, t>> <= t> <= inverse curve at I>; 20 % not, correspondence only); sweeps of 8-16 currents containing "
        "every threshold exactly, neighbours one ulp-scale step away, 0 and NaN; scenario sc / pp / invalid; the two result "
        "tables hold different values; non-trivial = the sweep crosses at least one threshold of the device")
ASSUMPTIONS = ["the melting curve of a fuse (LogSplineCharacteristic, PCHIP in log-log) is an oracle: its value is passed to the model and "
               "its monotonicity on [i_start, i_stop] is checked on a 60-point grid for every generated fuse",
               "(i_ka / I_s) ** alpha is an oracle value (numpy float power) passed to the model; its monotonicity is proved over R for the true power function"]
TRUSTED = ["result tables res_switch_sc / res_switch written directly into the net (stub), relay settings set as attributes after construction"]
KF_NAN = "C29-fuse-trips-on-nan-current"
CURVES = ["standard_inverse", "very_inverse", "extremely_inverse", "long_inverse"]
FUSE_TYPES = ["Siemens NH-2-315", "Siemens NH-2-425", "Siemens NH-2-630", "Siemens NH-2-224", "HV 63A"]


def relay_net(switch_index=None):
    net = pp.create_empty_network()
    pp.create_buses(net, nr_buses=7, vn_kv=20, geodata=[(0, 0), (0, -1), (-2, -2), (-2, -4), (2, -2), (2, -3), (2, -4)])
    pp.create_ext_grid(net, 0, vm_pu=1.0, va_degree=0, s_sc_max_mva=100, s_sc_min_mva=50, rx_max=0.1, rx_min=0.1)
    pp.create_lines(net, from_buses=[0, 1, 2, 1, 4, 5], to_buses=[1, 2, 3, 4, 5, 6], length_km=[2, 5, 4, 4, 0.5, 0.5],
                    std_type="NAYY 4x50 SE")
    net.line["endtemp_degree"] = 250
    pp.create_switches(net, buses=[0, 1, 1, 2, 4, 5], elements=[0, 1, 3, 2, 4, 5], et='l', type="CB_DTOC", index=switch_index)
    pp.create_loads(net, buses=[3, 6], p_mw=[5, 2], q_mvar=[1, 1])
    return net


class Devices:
    def __init__(self):
        self.net = relay_net()
        n = self.net
        self.dtoc = OCRelay(n, switch_index=0, oc_relay_type="DTOC", time_settings=[0.07, 0.5, 0.3])
        self.idmt = {c: OCRelay(n, switch_index=1 + k, oc_relay_type="IDMT", time_settings=[1, 0.5], curve_type=c, overwrite=False)
                     for k, c in enumerate(CURVES)}
        self.idtoc = {c: OCRelay(n, switch_index=5, oc_relay_type="IDTOC", time_settings=[0.07, 0.5, 0.3, 1, 0.5], curve_type=c,
                                 overwrite=True) for c in CURVES[:1]}
        # IDTOC relays for the other curves share switch 5 one after the other
        for c in CURVES[1:]:
            self.idtoc[c] = OCRelay(n, switch_index=5, oc_relay_type="IDTOC", time_settings=[0.07, 0.5, 0.3, 1, 0.5], curve_type=c,
                                    overwrite=True)
        # the fuses sit in a net whose switch table has a shuffled, gapped index (as after dropping / re-creating switches)
        self.fuse_net = relay_net(switch_index=[7, 3, 12, 0, 5, 9])


def grid(rng, lo, hi, k=64):
    return rng.randint(int(lo * k), int(hi * k)) / k


def sweep(rng, thresholds, lo, hi):
    pts = set()
    for t in thresholds:
        pts.update([t, float(np.nextafter(t, np.inf)), float(np.nextafter(t, -np.inf)), t * 1.0625, t * 0.9375])
    for _ in range(rng.randint(3, 6)):
        pts.add(grid(rng, lo, hi, 256))
    pts.add(0.0)
    pts = sorted(p for p in pts if p >= 0)
    if len(pts) > 16:
        keep = set(rng.sample(pts, 16)) | set(thresholds)
        pts = sorted(keep)
    pts = [float(p) for p in pts]
    if rng.random() < 0.5:
        pts.insert(rng.randrange(len(pts) + 1), float("nan"))
    return pts


def call(dev, net, sw, cur, scenario, other, rng=None):
    """stub both result tables: the device's switch (label sw) carries `cur` in the table of the scenario, every other row
    and the other table carry different values; the rows are in shuffled order, so reading by position, from another
    switch or from the wrong table is visible in the returned activation value"""
    labels = list(net.switch.index)
    if rng is not None:
        labels = rng.sample(labels, len(labels))
    if other != other:
        fill = {l: float("nan") for l in labels}
    else:
        fill = {l: other + 1.0 + 0.25 * j for j, l in enumerate(labels)}
    a = dict(fill)
    b_ = {l: v + 100.0 for l, v in fill.items()}
    if scenario == "sc":
        a[sw] = cur
    else:
        b_[sw] = cur
    net["res_switch_sc"] = pd.DataFrame({"ikss_ka": [a[l] for l in labels]}, index=labels)
    net["res_switch"] = pd.DataFrame({"i_ka": [b_[l] for l in labels]}, index=labels)
    try:
        return dev.protection_function(net, scenario)
    except Exception as e:          # ValueError is the documented answer to an invalid scenario; anything else is a failure
        return cq.Err(type(e).__name__)


def tval(x):
    if isinstance(x, float) and math.isinf(x):
        return "inf"
    return float(x)


def fz(x):
    return cq.oq(x)


def scen_term(s):
    return {"sc": "Sc", "pp": "Pp"}.get(s, "Other")


def one_case(ctx, rng, D):
    kind = rng.choice(["fuse", "fuse", "dtoc", "idmt", "idmt", "idtoc", "idtoc"])
    scenario = rng.choice(["sc", "sc", "pp", "pp", "bad"]) if rng.random() < 0.3 else rng.choice(["sc", "pp"])
    other = rng.choice([0.0, 123.0, float("nan")])
    desc = {"kind": kind, "scenario": scenario}
    terms, impl = [], []
    graded = True
    if kind == "fuse":
        net = D.fuse_net
        sw = int(rng.choice(list(net.switch.index)))
        if rng.random() < 0.3:
            f = Fuse(net, switch_index=sw, fuse_type=rng.choice(FUSE_TYPES), curve_select=rng.choice([0, 1]), overwrite=True)
            desc["fuse_type"] = f.fuse_type
        else:
            k = rng.randint(3, 8)
            x0 = rng.choice([50.0, 100.0, 189.0, 550.0])
            xs = [x0]
            for _ in range(k - 1):
                xs.append(round(xs[-1] * rng.choice([1.25, 1.5, 2.0, 2.5]), 3))
            y0 = rng.choice([4800.0, 100.0, 10.0])
            ys = [y0]
            for _ in range(k - 1):
                ys.append(ys[-1] / rng.choice([1.0, 2.0, 8.0, 40.0]) if rng.random() < 0.9 else ys[-1])
            f = Fuse(net, switch_index=sw, fuse_type="none", overwrite=True)
            f.create_characteristic(net, xs, ys)
            desc["xs"], desc["ys"] = xs, ys
        i_start, i_stop = float(f.i_start_a), float(f.i_stop_a)
        c = net.characteristic.at[f.characteristic_index, "object"]
        gridx = np.logspace(np.log10(i_start), np.log10(i_stop), 60)
        gridx[0], gridx[-1] = i_start, i_stop
        gy = np.asarray(c(gridx), dtype=float)
        mono = bool(np.all(np.diff(gy) <= 1e-12 * np.abs(gy[:-1])) and np.all(gy >= 0))
        if not mono:
            ctx.count("fuse_curve_not_monotone")
        curs = sweep(rng, [i_start / 1000, i_stop / 1000], 0.0, i_stop / 1000 * 1.5)
        desc.update(i_start_a=i_start, i_stop_a=i_stop, currents=[None if x != x else x for x in curs])
        for cur in curs:
            r = call(f, net, sw, cur, scenario, other, rng)
            ia = cur * 1000
            cv = float(c(ia)) if (cur == cur and i_start <= ia <= i_stop) else 0.0
            impl.append(r)
            # the impl compares the float product i_ka*1000: give the model the rational whose exact product with 1000 is that float
            curm = Fraction(float(np.float64(cur) * 1000)) / 1000 if cur == cur else cur
            sc_v, pp_v = (curm, other) if scenario == "sc" else (other, curm)   # the unselected table is irrelevant to the result
            terms.append("run_fuse %s %s %s %s %s %s" % (cq.q(i_start), cq.q(i_stop), cq.q(cv), scen_term(scenario), fz(sc_v), fz(pp_v)))
        pick = ("fuse", i_start / 1000)
        graded = mono
        thresholds = [i_start / 1000, i_stop / 1000]
    else:
        net = D.net
        if kind == "dtoc":
            dev = D.dtoc
        else:
            curve = rng.choice(CURVES)
            dev = (D.idmt if kind == "idmt" else D.idtoc)[curve]
            desc["curve"] = curve
        sw = dev.switch_index
        consistent = rng.random() < 0.8
        I_s = grid(rng, 0.05, 0.5)
        I_g = I_s * rng.choice([1.0, 1.25, 2.0, 3.0]) if consistent else grid(rng, 0.02, 1.0)
        I_gg = I_g * rng.choice([1.0, 1.5, 4.0]) if consistent else grid(rng, 0.02, 1.0)
        tms = rng.choice([0.05, 0.1, 0.5, 1.0, 1.0])
        t_grade = rng.choice([0.0, 0.3, 0.5])
        thresholds = []
        if kind in ("idmt", "idtoc"):
            dev.I_s, dev.tms, dev.t_grade = I_s, tms, t_grade
            thresholds.append(I_s)
            k_, al = float(dev.k), float(dev.alpha)

            def curve_t(i):
                return tms * k_ / ((np.float64(i) / I_s) ** al - 1) + t_grade
        if kind in ("dtoc", "idtoc"):
            if kind == "idtoc" and consistent and I_g > I_s:
                top = float(curve_t(I_g))
                t_g = top * rng.choice([1.0, 0.5, 0.25]) if math.isfinite(top) else 1.0
            else:
                t_g = rng.choice([0.25, 0.5, 1.0, 2.0])
            t_gg = t_g * rng.choice([1.0, 0.5, 0.1]) if consistent else rng.choice([0.05, 0.5, 3.0])
            dev.I_g, dev.I_gg, dev.t_g, dev.t_gg = I_g, I_gg, t_g, t_gg
            thresholds += [I_g, I_gg]
        if kind == "dtoc":
            graded = (t_gg <= t_g) or (I_gg <= I_g)
            pick = ("relay", min(I_g, I_gg))
        elif kind == "idmt":
            graded = True
            pick = ("relay", I_s)
        else:
            graded = I_s <= I_g <= I_gg and t_gg <= t_g and (not (I_s < I_g) or t_g <= float(curve_t(I_g)))
            pick = ("relay", min(I_s, I_g, I_gg))
        curs = sweep(rng, thresholds, 0.0, max(thresholds) * 2)
        desc.update({k: getattr(dev, k) for k in ("I_s", "I_g", "I_gg", "t_g", "t_gg", "tms", "t_grade") if getattr(dev, k, None) is not None})
        desc["currents"] = [None if x != x else x for x in curs]
        for cur in curs:
            r = call(dev, net, sw, cur, scenario, other, rng)
            impl.append(r)
            sc_v, pp_v = (cur, other) if scenario == "sc" else (other, cur)
            args = "%s %s %s" % (scen_term(scenario), fz(sc_v), fz(pp_v))
            dset = "{| I_g := %s; I_gg := %s; t_g := %s; t_gg := %s |}" % tuple(cq.q(float(x)) for x in (dev.I_g or 0, dev.I_gg or 0, dev.t_g or 0, dev.t_gg or 0)) if kind != "idmt" else None
            if kind != "dtoc":
                pw = float((np.float64(cur) / I_s) ** al) if (cur == cur and cur > I_s) else 0.0
                if not math.isfinite(pw):
                    pw = 0.0
                mset = "{| I_s := %s; tms := %s; kk := %s; t_grade := %s |}" % (cq.q(I_s), cq.q(tms), cq.q(k_), cq.q(t_grade))
            if kind == "dtoc":
                terms.append("run_dtoc %s %s" % (dset, args))
            elif kind == "idmt":
                terms.append("run_idmt %s %s %s" % (mset, cq.q(pw), args))
            else:
                terms.append("run_idtoc %s %s %s %s" % (dset, mset, cq.q(pw), args))
    # ---------------- oracle on the returned dicts
    viol = []
    if scenario in ("sc", "pp"):
        prev = None
        for cur, r in zip(curs, impl):
            if isinstance(r, cq.Err):
                viol.append(("spec", "protection_function raised %s for the valid scenario %r (switch %r, switch table index %s)" % (
                    r.s, scenario, sw, list(net.switch.index))))
                break
            t = r["trip_melt_time_s"]
            av = r["activation_parameter_value"]
            if not ((av != av and cur != cur) or av == cur):
                viol.append(("spec", "activation_parameter_value %r is not the switch current %r of table %s" % (av, cur, scenario)))
            if r["activation_parameter"] != "i_ka" or r["switch_id"] != sw:
                viol.append(("spec", "wrong activation parameter / switch id"))
            if cur != cur:
                if r["trip_melt"]:
                    viol.append((KF_NAN if kind == "fuse" else "spec", "%s trips (time %r) on a NaN current" % (kind, t)))
                continue
            exceeds = (cur * 1000 >= pick[1] * 1000) if pick[0] == "fuse" else (cur > pick[1])
            if pick[0] == "fuse":
                exceeds = cur * 1000 >= desc["i_start_a"]
            if graded or kind in ("fuse", "idmt"):
                if bool(r["trip_melt"]) != bool(exceeds):
                    viol.append(("spec", "trip_melt %r at current %r but pick-up/start value is %r" % (r["trip_melt"], cur, pick[1])))
            if (not r["trip_melt"]) and not (isinstance(t, float) and math.isinf(t)):
                viol.append(("spec", "not tripped but finite time %r" % t))
            if graded and prev is not None:
                pc_, pt = prev
                if float(t) > float(pt) * (1 + 1e-12) + 1e-15 and not (math.isinf(float(t)) and math.isinf(float(pt))):
                    viol.append(("spec", "trip time increases with the current: t(%r) = %r > t(%r) = %r" % (cur, t, pc_, pt)))
            prev = (cur, t)
    else:
        if not all(r == cq.Err("ValueError") for r in impl):
            viol.append(("spec", "invalid scenario did not raise ValueError"))
    seen = set()
    for kind_, what in viol:
        if kind_ in seen:
            continue
        seen.add(kind_)
        ctx.violation(kind_, what, desc)
    crosses = sum(1 for t in thresholds if any(c == c and c <= t for c in curs) and any(c == c and c > t for c in curs))
    ctx.case(desc, nontrivial=crosses > 0 and scenario != "bad", sample={"case": desc, "first": str(impl[:3])[:400]})
    ctx.count("kind_" + kind)
    ctx.count("graded" if graded else "ungraded")
    ctx.count("scenario_" + scenario)
    return "OL [" + "; ".join(terms) + "]", impl, desc, curs


def norm_impl(r):
    if isinstance(r, cq.Err):
        return r
    t = r["trip_melt_time_s"]
    return [bool(r["trip_melt"]), tval(float(t)), None if r["activation_parameter_value"] != r["activation_parameter_value"] else float(r["activation_parameter_value"])]


def close(a, b):
    if a == "inf" or b == "inf":
        return a == b
    return abs(float(a) - float(b)) <= 1e-9 * max(1.0, abs(float(a)))


def compare(impl, mod):
    for k, (r, m) in enumerate(zip(impl, mod)):
        ni = norm_impl(r)
        if isinstance(ni, cq.Err) or isinstance(m, cq.Err):
            if ni != m:
                return "call %d: impl %r model %r" % (k, ni, m)
            continue
        (mt, mtime), mi = m
        if ni[0] != mt or not close(ni[1], mtime if mtime == "inf" else float(mtime)):
            return "call %d: impl %r model %r" % (k, ni, m)
        if (ni[2] is None) != (mi is None) or (mi is not None and abs(float(mi) - ni[2]) > 1e-12 * max(1.0, abs(ni[2]))):
            return "call %d: activation value impl %r model %r" % (k, ni[2], mi)
    return None


def run(ctx):
    rng = ctx.rng
    D = Devices()
    terms, impls, descs = [], [], []
    for k in range(ctx.n(400, 6000)):
        t, impl, desc, curs = one_case(ctx, rng, D)
        terms.append(t)
        impls.append(impl)
        descs.append(desc)
    model = ctx.coq_eval("c29", "Base.QN C29.Model", terms, shard=40, timeout=1200)
    for impl, mod, desc in zip(impls, model, descs):
        ctx.corr_checked += 1
        w = compare(impl, mod)
        if w:
            ctx.disagreement("protection_function differs from the model: " + w, desc)
    for k in range(ctx.n(8, 60)):
        manual_pickup(ctx, rng, D)
    for k in range(ctx.n(12, 80)):
        manual_times(ctx, rng, D)


def manual_pickup(ctx, rng, D):
    """the settings given by the user are the settings the protection function uses (pickup_current_manual)"""
    net = D.net
    kind = rng.choice(["DTOC", "IDTOC"])
    vals = {"I_gg": [grid(rng, 1.0, 3.0) for _ in range(6)], "I_g": [grid(rng, 0.2, 0.9) for _ in range(6)],
            "I_s": [grid(rng, 0.05, 0.19) for _ in range(6)]}
    man = pd.DataFrame({"switch_id": range(6), **vals})
    sw = rng.randrange(6)
    ts = [0.07, 0.5, 0.3] if kind == "DTOC" else [0.07, 0.5, 0.3, 1, 0.5]
    r = OCRelay(net, switch_index=sw, oc_relay_type=kind, time_settings=ts, pickup_current_manual=man, overwrite=True)
    case = {"kind": kind, "switch": sw, "manual": {k: v[sw] for k, v in vals.items()}}
    ctx.case(case, nontrivial=True)
    ctx.count("manual_pickup_" + kind)
    if r.I_g != vals["I_g"][sw] or r.I_gg != vals["I_gg"][sw] or (kind == "IDTOC" and r.I_s != vals["I_s"][sw]):
        ctx.violation("spec", "manual pick-up currents not used: relay has I_g=%r I_gg=%r I_s=%r, given %r" % (r.I_g, r.I_gg, r.I_s, case["manual"]), case)
        return
    # a current between I> and I>> must trip with t>, not earlier
    cur = (vals["I_g"][sw] + vals["I_gg"][sw]) / 2
    res = call(r, net, sw, cur, "sc", 0.0, rng)
    if not res["trip_melt"] or res["trip_melt_time_s"] != r.t_g:
        ctx.violation("spec", "current %r between I>=%r and I>>=%r trips after %r s instead of t>=%r" % (
            cur, r.I_g, r.I_gg, res["trip_melt_time_s"], r.t_g), case)


def manual_times(ctx, rng, D):
    """the times given by the user are the times the relay trips with (time_settings as DataFrame and as list), and across
    the two DTOC stages the tripping time does not increase with the current"""
    net = D.net
    sw = rng.randrange(6)
    vals = {"I_gg": [grid(rng, 1.0, 3.0) for _ in range(6)], "I_g": [grid(rng, 0.2, 0.9) for _ in range(6)], "I_s": [grid(rng, 0.05, 0.19) for _ in range(6)]}
    man = pd.DataFrame({"switch_id": range(6), **vals})
    mode = rng.choice(["dtoc_df", "dtoc_df", "idmt_df", "dtoc_list", "idmt_list"])
    case = {"mode": mode, "switch": sw}
    if mode == "dtoc_df":
        tgg = [rng.choice([0.05, 0.07, 0.1]) for _ in range(6)]
        tg = [rng.choice([0.3, 0.5, 0.8, 1.4]) for _ in range(6)]
        ts = pd.DataFrame({"switch_id": range(6), "t_gg": tgg, "t_g": tg})
        r = OCRelay(net, switch_index=sw, oc_relay_type="DTOC", time_settings=ts, pickup_current_manual=man, overwrite=True)
        exp_tg, exp_tgg = tg[sw], tgg[sw]
    elif mode == "dtoc_list":
        lst = [rng.choice([0.05, 0.07]), rng.choice([0.4, 0.5]), rng.choice([0.2, 0.3])]
        r = OCRelay(net, switch_index=sw, oc_relay_type="DTOC", time_settings=lst, pickup_current_manual=man, overwrite=True)
        exp_tgg = lst[0]
        exp_tg = None
        k = (r.t_g - lst[1]) / lst[2]
        if r.t_g < lst[1] - 1e-12 or abs(k - round(k)) > 1e-9 or round(k) > len(net.line):
            ctx.violation("spec", "list time settings %s: t> = %r is not t> + k*t_diff for a line depth k" % (lst, r.t_g), case)
    elif mode == "idmt_df":
        tms = [rng.choice([0.5, 1.0, 1.5]) for _ in range(6)]
        tgr = [rng.choice([0.0, 0.3, 0.5]) for _ in range(6)]
        ts = pd.DataFrame({"switch_id": range(6), "tms": tms, "t_grade": tgr})
        r = OCRelay(net, switch_index=sw, oc_relay_type="IDMT", time_settings=ts, pickup_current_manual=man, overwrite=True)
        if r.tms != tms[sw] or r.t_grade != tgr[sw]:
            ctx.violation("spec", "IDMT DataFrame time settings not used: relay tms=%r t_grade=%r, given %r / %r" % (r.tms, r.t_grade, tms[sw], tgr[sw]), case)
        exp_tg = exp_tgg = None
    else:
        lst = [rng.choice([0.5, 1.0]), rng.choice([0.3, 0.5])]
        r = OCRelay(net, switch_index=sw, oc_relay_type="IDMT", time_settings=lst, pickup_current_manual=man, overwrite=True)
        if r.tms != lst[0]:
            ctx.violation("spec", "IDMT list time settings: tms %r, given %r" % (r.tms, lst[0]), case)
        exp_tg = exp_tgg = None
    ctx.case(case, nontrivial=True)
    ctx.count("manual_times_" + mode)
    if mode.startswith("dtoc"):
        if r.t_gg != exp_tgg or (exp_tg is not None and r.t_g != exp_tg):
            ctx.violation("spec", "DTOC time settings not used: relay t>=%r t>>=%r, given t>=%r t>>=%r" % (r.t_g, r.t_gg, exp_tg, exp_tgg), case)
            return
        lo_cur = (r.I_g + r.I_gg) / 2
        hi_cur = r.I_gg * 1.5
        t_lo = call(r, net, sw, lo_cur, "sc", 0.0, rng)["trip_melt_time_s"]
        t_hi = call(r, net, sw, hi_cur, "sc", 0.0, rng)["trip_melt_time_s"]
        if t_lo != r.t_g or t_hi != r.t_gg:
            ctx.violation("spec", "current %r (between I> and I>>) trips after %r s, current %r (above I>>) after %r s; settings t>=%r t>>=%r" % (
                lo_cur, t_lo, hi_cur, t_hi, r.t_g, r.t_gg), case)
        elif t_hi > t_lo:
            ctx.violation("spec", "the larger current trips later: t(%r)=%r > t(%r)=%r" % (hi_cur, t_hi, lo_cur, t_lo), case)


def replay(ctx, rec):
    ctx.notes.append("replay: re-running the generators with the recorded seed reproduces the case")
    run(ctx)
