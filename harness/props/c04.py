"""C04 — setpoints and response laws.
Correspondence: (a) bus VM/VA/BUS_TYPE written by build_gen.py (fresh _pd2ppc) vs C04.Model.run_setpoints, including the
UserWarning of inconsistent setpoints; (b) the q-limit loop: every ppci_to_pfsoln call of the real loop is recorded
(limited set, QG column) and replayed as the PF oracle of C04.Model.run_qloop (limited order, final QG, number of calls,
IndexError of enforce_q_lims=2); (c) the PD/QD backup / restore history of the loop: bus PD/QD at the entry of every PF call of the
loop and after the loop vs C04.Model.run_demand.  Oracle: each law of the property evaluated on the result tables; frame: bus PD/QD
after the loop equal the columns before it; a recycled power flow after the q-limit run reproduces the results."""
import json, math, hashlib
import numpy as np
import pandapower as pp
from fractions import Fraction
from vf import coqrun as cq, c01_pf as pf
from pandapower.pypower.idx_bus import VM, VA, BUS_TYPE, PD, QD
from pandapower.pypower.idx_gen import QG, PG, QMIN, QMAX, GEN_BUS, GEN_STATUS

RULE = ("C01-style nets (2-8 buses, fused bus sections, second ext_grid on the slack bus) with 1-5 gens (60 % on shared buses, "
        "q limits on 80 %, limits made binding by large reactive loads in ~50 %), slack gens, xwards, ZIP loads, shunts with vn != bus vn and "
        "steps 0-3, scaling in {0,.5,1,1.25}; options enforce_q_lims in {False, True, 2}, voltage_depend_loads, calculate_voltage_angles; "
        "a FIXED share (every 16th case, all 8 combinations per 128 cases): two gens on one electrical node (same bus / buses joined by a closed "
        "bus-bus switch) with conflicting or equal vm_pu, calculate_voltage_angles True / False — conflicting ones must raise UserWarning, equal ones must hold the setpoint; "
        "~8 % malformed: different vm_pu setpoints on one bus (far apart -> UserWarning, within np.allclose -> accepted); "
        "20 % of the nets with an out-of-service bus (its elements included), 15 % with a trafo3w (trafo3w_losses in hv/mv/lv/star: the iron losses "
        "are a shunt at the chosen / auxiliary bus); after every converged q-limit run one recycled power flow (random recycle dict); "
        "non-trivial = enforce_q_lims with at least one limited gen, or >= 2 voltage sources on one bus")
ASSUMPTIONS = [
    "Newton solver + pfsoln are the PF oracle of the loop model: its QG column per call is recorded from the real run and replayed exactly",
    "solver contract checked per run: |V| at REF/PV buses equals the ppc VM written by build_gen (that is the setpoint law itself, evaluated on res_bus)",
    "np.allclose semantics |a-b| <= 1e-8 + 1e-5|b| as documented",
]
TRUSTED = ["observation of the loop by wrapping pandapower.pf.run_newton_raphson_pf.ppci_to_pfsoln in the harness process (no source change)"]

TOLQ = 1e-6
DEM = {"t": [], "p": [], "lt": [], "lp": []}


def _gen_case(rng, forced=None):
    net = pf.gen_net(rng, rich=rng.choice([0.5, 0.8]), n_gen=0, two_eg_p=0.25, allow_xward=rng.random() < 0.3,
                     t3w_p=0.3 if rng.random() < 0.5 else 0.0)
    buses = [int(b) for b in net.bus.index[net.bus.vn_kv == 20.0]]
    hot = rng.sample(buses, min(len(buses), 2))
    vmb = {}
    for b in net.ext_grid.bus.values:
        vmb[int(b)] = float(net.ext_grid.vm_pu.values[0])
    ng = rng.randint(1, 5)
    for _ in range(ng):
        b = rng.choice(hot) if rng.random() < 0.6 else rng.choice(buses + [int(net.ext_grid.bus.values[0])])
        vm = vmb.setdefault(int(b), rng.choice([1.0, 1.01, 1.02, 0.99, 1.03]))
        kw = {}
        if rng.random() < 0.8:
            lo = pf.g8(rng, -16, 0)
            kw = dict(min_q_mvar=lo, max_q_mvar=lo + pf.g8(rng, 0, 24))
        pp.create_gen(net, b, p_mw=pf.g8(rng, 0, 16), vm_pu=vm, scaling=rng.choice([1.0, 1.0, 0.5]),
                      in_service=rng.random() < 0.9, slack=rng.random() < 0.08, **kw)
    if rng.random() < 0.5:     # make limits bind
        for b in rng.sample(buses, min(len(buses), 2)):
            pp.create_load(net, b, p_mw=pf.g8(rng, 0, 16), q_mvar=rng.choice([-1, 1]) * pf.g8(rng, 8, 48))
    malformed = None
    r = rng.random()
    if forced is not None:
        # FIXED share of every run: two voltage-controlling gens on ONE electrical node (same bus, or two buses joined by a closed
        # bus-bus switch) with conflicting (+0.01) or equal vm_pu, for calculate_voltage_angles True and False
        conflict, cva_f, fused = forced
        cand = [b for b in buses if b != int(net.ext_grid.bus.values[0])] or buses
        b = rng.choice(cand)
        vm0 = vmb.setdefault(int(b), rng.choice([1.0, 1.01, 1.02, 0.99, 1.03]))
        pp.create_gen(net, b, p_mw=pf.g8(rng, 0, 8), vm_pu=vm0)
        b2 = b
        if fused:
            b2 = pp.create_bus(net, vn_kv=20.0, name="coupled")
            pp.create_switch(net, b, b2, et="b", closed=True)
        pp.create_gen(net, b2, p_mw=pf.g8(rng, 0, 8), vm_pu=vm0 + (0.01 if conflict else 0.0))
        malformed = "forced_%s_%s" % ("conflict" if conflict else "equal", "fused" if fused else "samebus")
    elif r < 0.08 and len(net.gen):
        i = rng.choice(list(net.gen.index))
        b = int(net.gen.bus.at[i])
        far = rng.random() < 0.5
        pp.create_gen(net, b, p_mw=0.5, vm_pu=float(net.gen.vm_pu.at[i]) + (0.01 if far else 5e-6))
        malformed = "far" if far else "near"
    # shunts whose power comes from net.shunt_characteristic_table next to ordinary stepped shunts
    if rng.random() < 0.25:
        import pandas as pd
        nid = rng.randint(1, 2)
        rows = []
        for cid in range(nid):
            for st in (1, 2, 3):
                rows.append((cid, st, pf.g8(rng, -8, 8), pf.g8(rng, 0, 4)))
        net["shunt_characteristic_table"] = pd.DataFrame(rows, columns=["id_characteristic", "step", "q_mvar", "p_mw"])
        for cid in range(nid):
            pp.create_shunt(net, rng.choice(buses), q_mvar=pf.g8(rng, -4, 4), p_mw=0.0, step=rng.randint(1, 3), max_step=3,
                            vn_kv=rng.choice([None, 20.0, 10.0]), step_dependency_table=True, id_characteristic_table=cid,
                            in_service=rng.random() < 0.9)
        pp.create_shunt(net, rng.choice(buses), q_mvar=pf.g8(rng, -8, 8), p_mw=pf.g8(rng, 1, 4), step=rng.choice([2, 3]), max_step=3,
                        vn_kv=rng.choice([None, 10.0]))
    opts = {"numba": False, "enforce_q_lims": rng.choice([False, True, True, 2]), "voltage_depend_loads": rng.random() < 0.7,
            "calculate_voltage_angles": rng.random() < 0.8}
    if len(net.trafo3w):
        # the iron losses of a trafo3w are a shunt at the hv / mv / lv bus or at the auxiliary star bus
        opts["trafo3w_losses"] = rng.choice(["hv", "mv", "lv", "star"])
    if rng.random() < 0.2:
        # an out-of-service bus with everything connected to it (never the bus of the first ext_grid)
        cand = [b for b in buses if b != int(net.ext_grid.bus.values[0])]
        if cand:
            net.bus.at[rng.choice(cand), "in_service"] = False
    # the PYPOWER algorithms (runpf_pypower) have their own q-limit handling
    if rng.random() < 0.25:
        opts["algorithm"] = rng.choice(["fdbx", "fdxb", "gs"])
        opts["enforce_q_lims"] = rng.choice([False, True, True])
        opts["max_iteration"] = 1000 if opts["algorithm"] == "gs" else 100
    if forced is not None:
        opts["calculate_voltage_angles"] = bool(forced[1])
        opts.pop("algorithm", None); opts.pop("max_iteration", None)
        opts["enforce_q_lims"] = False                   # every gen must hold its setpoint if the power flow converges
        net.bus["in_service"] = True
    return net, opts, malformed


def _sources(net):
    """in-service voltage sources in the order of gen_order (ext_grid, gen, xward) with their ppc bus"""
    lookup = net._pd2ppc_lookups["bus"]
    ise = net._is_elements
    src = []
    for pos, i in enumerate(net.ext_grid.index):
        if ise["ext_grid"][pos]:
            src.append(("KEg", int(lookup[int(net.ext_grid.bus.values[pos])]), float(net.ext_grid.vm_pu.values[pos]),
                        float(net.ext_grid.va_degree.values[pos]), ("ext_grid", int(i))))
    for pos, i in enumerate(net.gen.index):
        if ise["gen"][pos]:
            src.append(("KSlackGen" if bool(net.gen.slack.values[pos]) else "KGen", int(lookup[int(net.gen.bus.values[pos])]),
                        float(net.gen.vm_pu.values[pos]), 0.0, ("gen", int(i))))
    if len(net.xward):
        aux = net._pd2ppc_lookups["aux"]["xward"]
        for pos, i in enumerate(net.xward.index):
            if ise["xward"][pos]:
                src.append(("KXward", int(lookup[int(aux[pos])]), float(net.xward.vm_pu.values[pos]), 0.0, ("xward", int(i))))
    return src


def _src_term(s):
    return "(mkV %s %s %s %s)" % (s[0], cq.nat(s[1]), cq.q(s[2]), cq.q(s[3]))


def _fresh_ppc(net):
    from pandapower.pd2ppc import _pd2ppc
    try:
        ppc, ppci = _pd2ppc(net)
        return ppc, None
    except UserWarning as e:
        return None, "UserWarning"


def _oracle(ctx, net, opts, case, bypassed=False, recycled=None):
    """the laws of the property on the result tables (recycled = the recycle dict when net holds the results of a recycled run)"""
    bad = []
    known = []
    known_rc = []
    rb = net.res_bus
    vdl = opts["voltage_depend_loads"]
    enforce = bool(opts["enforce_q_lims"])
    cva = opts["calculate_voltage_angles"]
    ise = net._is_elements
    # exact agreement of setpoints per pandapower bus (guard same_vm)
    lookup = net._pd2ppc_lookups["bus"]
    setp = {}
    for tab in ("ext_grid", "gen"):
        for pos, i in enumerate(net[tab].index):
            if ise[tab][pos]:
                setp.setdefault(int(lookup[int(net[tab].bus.values[pos])]), set()).add(float(net[tab].vm_pu.values[pos]))
    for pos, i in enumerate(net.ext_grid.index):
        if not ise["ext_grid"][pos]:
            continue
        b = int(net.ext_grid.bus.values[pos])
        tolv = 1e-9 if len(setp[int(lookup[b])]) == 1 else 2.1e-5
        if abs(rb.vm_pu.at[b] - net.ext_grid.vm_pu.values[pos]) > tolv:
            bad.append("ext_grid %d: bus vm %r != setpoint %r" % (i, rb.vm_pu.at[b], net.ext_grid.vm_pu.values[pos]))
        if cva and abs(rb.va_degree.at[b] - net.ext_grid.va_degree.values[pos]) > 1e-7:
            bad.append("ext_grid %d: bus angle %r != setpoint %r" % (i, rb.va_degree.at[b], net.ext_grid.va_degree.values[pos]))
    ref_buses = set(int(lookup[int(b)]) for b, on in zip(net.ext_grid.bus.values, ise["ext_grid"]) if on)
    ref_buses |= set(int(lookup[int(b)]) for b, on, sl in zip(net.gen.bus.values, ise["gen"], net.gen.slack.values) if on and sl)
    for pos, i in enumerate(net.gen.index):
        rg = net.res_gen
        if not ise["gen"][pos]:
            if abs(rg.p_mw.at[i]) > 0 or abs(rg.q_mvar.at[i]) > 0:
                bad.append("gen %d out of service but reports p/q" % i)
            continue
        b = int(net.gen.bus.values[pos])
        k = int(lookup[b])
        vset = float(net.gen.vm_pu.values[pos])
        slack = bool(net.gen.slack.values[pos])
        tolv = 1e-9 if len(setp[k]) == 1 else 2.1e-5
        held = abs(rb.vm_pu.at[b] - vset) <= tolv
        qmin = net.gen.min_q_mvar.values[pos] if "min_q_mvar" in net.gen else float("nan")
        qmax = net.gen.max_q_mvar.values[pos] if "max_q_mvar" in net.gen else float("nan")
        qmin = -1e9 if math.isnan(qmin) else float(qmin)
        qmax = 1e9 if math.isnan(qmax) else float(qmax)
        q = float(rg.q_mvar.at[i])
        if not slack and k not in ref_buses or (not slack and k in ref_buses):
            if not slack and abs(rg.p_mw.at[i] - net.gen.p_mw.values[pos] * net.gen.scaling.values[pos]) > 1e-9:
                w = "gen %d: p %r != p_mw*scaling %r" % (i, rg.p_mw.at[i], net.gen.p_mw.values[pos] * net.gen.scaling.values[pos])
                bad.append(w)
        if not enforce or slack:
            if not held:
                bad.append("gen %d: bus vm %r != setpoint %r (no limit enforcement applies)" % (i, rb.vm_pu.at[b], vset))
        else:
            if q > qmax + TOLQ or q < qmin - TOLQ:
                # recorded defect: every bus is a reference bus -> solver and q-limit loop are bypassed (guard G04b false)
                (known if bypassed else bad).append("gen %d: q %r outside [%r, %r] with enforce_q_lims%s" % (
                    i, q, qmin, qmax, "" if "algorithm" not in opts else ", algorithm " + opts["algorithm"]))
            # repaired defect C04-recycle-gen-nan-qlim (recycle["gen"] rebuilt the gen rows without the default q limits: a gen without
            # q limits got QMIN = QMAX = 0 and was "limited" to q = 0); a recurrence is reported as an unclassified violation
            nan_lim = ("min_q_mvar" not in net.gen or math.isnan(float(net.gen.min_q_mvar.values[pos]))
                       or "max_q_mvar" not in net.gen or math.isnan(float(net.gen.max_q_mvar.values[pos])))
            if not held and not (abs(q - qmax) <= TOLQ or abs(q - qmin) <= TOLQ) and recycled is not None and recycled.get("gen") \
                    and nan_lim and abs(q) <= TOLQ:
                known_rc.append("gen %d (no q limits): bus vm %r != setpoint %r with q = 0 after a recycled power flow with recycle['gen']=True" % (i, rb.vm_pu.at[b], vset))
            elif not held and not (abs(q - qmax) <= TOLQ or abs(q - qmin) <= TOLQ):
                bad.append("gen %d: bus vm %r != setpoint %r but q %r is not at a limit [%r, %r]" % (i, rb.vm_pu.at[b], vset, q, qmin, qmax))
    for tab in ("sgen", "storage"):
        for pos, i in enumerate(net[tab].index):
            on = bool(ise[tab][pos])
            ep = net[tab].p_mw.values[pos] * net[tab].scaling.values[pos] * on
            eq = net[tab].q_mvar.values[pos] * net[tab].scaling.values[pos] * on
            r = net["res_" + tab]
            if abs(r.p_mw.at[i] - ep) > 1e-9 or abs(r.q_mvar.at[i] - eq) > 1e-9:
                bad.append("%s %d: result %r,%r != p*scaling,q*scaling %r,%r" % (tab, i, r.p_mw.at[i], r.q_mvar.at[i], ep, eq))
    for pos, i in enumerate(net.load.index):
        on = bool(ise["load"][pos])
        t = net.load
        v = float(rb.vm_pu.at[int(t.bus.values[pos])])
        if vdl:
            cz, ci = t.const_z_p_percent.values[pos] / 100, t.const_i_p_percent.values[pos] / 100
            czq, ciq = t.const_z_q_percent.values[pos] / 100, t.const_i_q_percent.values[pos] / 100
            ep = t.p_mw.values[pos] * t.scaling.values[pos] * (1 - ci - cz + ci * v + cz * v * v) * on
            eq = t.q_mvar.values[pos] * t.scaling.values[pos] * (1 - ciq - czq + ciq * v + czq * v * v) * on
        else:
            ep = t.p_mw.values[pos] * t.scaling.values[pos] * on
            eq = t.q_mvar.values[pos] * t.scaling.values[pos] * on
        if abs(net.res_load.p_mw.at[i] - ep) > 1e-9 * max(1, abs(ep)) or abs(net.res_load.q_mvar.at[i] - eq) > 1e-9 * max(1, abs(eq)):
            bad.append("load %d: result %r,%r != ZIP law %r,%r at v=%r" % (i, net.res_load.p_mw.at[i], net.res_load.q_mvar.at[i], ep, eq, v))
    for pos, i in enumerate(net.shunt.index):
        on = bool(ise["shunt"][pos])
        t = net.shunt
        b = int(t.bus.values[pos])
        v = float(rb.vm_pu.at[b])
        ratio = (v * net.bus.vn_kv.at[b] / t.vn_kv.values[pos]) ** 2
        if "step_dependency_table" in t and bool(t.step_dependency_table.values[pos]):
            # power of the whole step from net.shunt_characteristic_table (id, step)
            ct = net.shunt_characteristic_table
            row = ct[(ct.id_characteristic == t.id_characteristic_table.values[pos]) & (ct.step == t.step.values[pos])]
            ep = float(row.p_mw.values[0]) * ratio * on
            eq = float(row.q_mvar.values[0]) * ratio * on
            ctx.count("table_shunts_checked")
        else:
            ep = t.step.values[pos] * t.p_mw.values[pos] * ratio * on
            eq = t.step.values[pos] * t.q_mvar.values[pos] * ratio * on
        if abs(net.res_shunt.p_mw.at[i] - ep) > 1e-9 * max(1, abs(ep)) or abs(net.res_shunt.q_mvar.at[i] - eq) > 1e-9 * max(1, abs(eq)):
            bad.append("shunt %d: result %r,%r != step*p*(v*vn_bus/vn)^2 %r,%r" % (i, net.res_shunt.p_mw.at[i], net.res_shunt.q_mvar.at[i], ep, eq))
    for w in bad[:3]:
        ctx.violation("spec", w, case)
    for w in known_rc[:1]:
        ctx.violation("spec", w, case)
    for w in known[:1]:
        ctx.violation("C04-qlim-bypass", w + " (all buses are reference buses: solver and q-limit loop bypassed)", case)
        ctx.count("known:C04-qlim-bypass")
    return bad


def _one(ctx, rng, sterms, spend, qterms, qpend, given=None, sample=False, forced=None):
    import pandapower.pf.run_newton_raphson_pf as R
    if given is None:
        net, opts, malformed = _gen_case(rng, forced)
    else:
        net, opts = given[0], given[1]
        malformed = None
    forced_rc = given[2] if (given is not None and len(given) > 2) else None
    net_js = pp.to_json(net)
    case = {"net": net_js, "opts": opts}
    rec = []
    orig = R.ppci_to_pfsoln

    def spy(ppci, options, limited_gens=None):
        out = orig(ppci, options, limited_gens)
        rec.append(([] if limited_gens is None else [int(i) for i in limited_gens], [float(v) for v in out[1][:, QG]]))
        return out

    seen, post = [], []
    orig_pf = R._run_ac_pf_without_qlims_enforced

    def spy_pf(ppci, options):
        seen.append(([float(v) for v in ppci["bus"][:, PD]], [float(v) for v in ppci["bus"][:, QD]]))
        return orig_pf(ppci, options)

    def spy(ppci, options, limited_gens=None):
        out = orig(ppci, options, limited_gens)
        rec.append(([] if limited_gens is None else [int(i) for i in limited_gens], [float(v) for v in out[1][:, QG]]))
        post.append(([float(v) for v in out[0][:, PD]], [float(v) for v in out[1][:, PG]]))
        return out

    R.ppci_to_pfsoln = spy
    R._run_ac_pf_without_qlims_enforced = spy_pf
    err = None
    try:
        pp.runpp(net, **opts)
    except pp.LoadflowNotConverged:
        err = "not_converged"
    except UserWarning:
        err = "UserWarning"
    except IndexError:
        err = "IndexError"
    except Exception as e:
        err = "raise:" + type(e).__name__
    finally:
        R.ppci_to_pfsoln = orig
        R._run_ac_pf_without_qlims_enforced = orig_pf
    ctx.count("outcome_" + (err or "ok"))
    if forced is not None:
        ctx.count("forced_%s_cva_%s_%s_%s" % ("conflict" if forced[0] else "equal", forced[1], "fused" if forced[2] else "samebus", err or "ok"))
        if forced[0] and err != "UserWarning":
            ctx.violation("spec", "two gens with conflicting vm_pu setpoints on one electrical node (%s, calculate_voltage_angles=%s) were not "
                                  "rejected with UserWarning (outcome %s): a gen bus cannot hold both setpoints" % (
                                      "buses joined by a closed bus-bus switch" if forced[2] else "same bus", forced[1], err or "converged"), case)
    ctx.count("enforce_%s" % opts["enforce_q_lims"])
    ctx.count("algorithm_%s_%s" % (opts.get("algorithm", "nr"), err or "ok"))
    g_final = None
    nr_alg = opts.get("algorithm", "nr") == "nr"
    bypassed = err is None and nr_alg and "gen" not in net._ppc["internal"]
    if err is None and not nr_alg:
        rec = []                                   # the PYPOWER algorithms have their own loop (runpf_pypower.py): oracle only
        bypassed = set(int(t) for t in net._ppc["bus"][:, BUS_TYPE] if int(t) != 4) == {3}
    elif err is None and "gen" not in net._ppc["internal"]:
        ctx.count("pf_bypassed_only_reference_buses")      # powerflow.py bypasses the solver: nothing to observe in the loop
        rec = []
    elif err is None:
        g_final = [float(v) for v in net._ppc["internal"]["gen"][:, QG]]     # before _pd2ppc below rebuilds net._ppc
        bus_final = ([float(v) for v in net._ppc["internal"]["bus"][:, PD]], [float(v) for v in net._ppc["internal"]["bus"][:, QD]])
        gb_final = [int(v) for v in net._ppc["internal"]["gen"][:, GEN_BUS]]
        # recycled power flow on a copy (time-series use): reuses net._ppc["internal"] (bus PD/QD, bus types, gen rows) as the loop left them
        net2, rc = None, None
        if opts["enforce_q_lims"]:
            import copy
            net2 = copy.deepcopy(net)
            rc = rng.choice([dict(bus_pq=False, gen=False, trafo=False), dict(bus_pq=True, gen=False, trafo=False),
                             dict(bus_pq=False, gen=True, trafo=False), dict(bus_pq=True, gen=True, trafo=True)])
            rc = forced_rc if forced_rc is not None else rc
            try:
                pp.runpp(net2, recycle=rc, **opts)
                ctx.count("recycled_run_ok")
                if rc.get("gen") and len(net2.gen) and "gen" in net2._pd2ppc_lookups:
                    lk = net2._pd2ppc_lookups["gen"]
                    rows_i, rows_t = [], []
                    for pos, i in enumerate(net2.gen.index):
                        if not net2._is_elements["gen"][pos] or int(i) >= len(lk) or lk[int(i)] < 0:
                            continue
                        r_ = int(lk[int(i)])
                        rows_i.append([float(net2._ppc["gen"][r_, QMIN]), float(net2._ppc["gen"][r_, QMAX])])
                        lo = float(net2.gen.min_q_mvar.values[pos]) if "min_q_mvar" in net2.gen else float("nan")
                        hi = float(net2.gen.max_q_mvar.values[pos]) if "max_q_mvar" in net2.gen else float("nan")
                        rows_t.append("(%s, %s)" % (cq.oq(None if math.isnan(lo) else lo), cq.oq(None if math.isnan(hi) else hi)))
                    if rows_t:
                        DEM["lt"].append("run_row_limits %s %s" % (cq.q(float(net2._options["q_lim_default"])), cq.lst(rows_t)))
                        DEM["lp"].append((rows_i, dict(case, recycle=rc)))
                dv = float(np.nanmax(np.abs(net2.res_bus.vm_pu.values - net.res_bus.vm_pu.values))) if len(net.res_bus) else 0.0
                dq = float(np.nanmax(np.abs(net2.res_gen.q_mvar.values - net.res_gen.q_mvar.values))) if len(net.res_gen) else 0.0
                ctx.count("recycled_results_equal" if max(dv, dq) < 1e-6 else "recycled_results_differ")
            except pp.LoadflowNotConverged:
                ctx.count("recycled_run_not_converged")
                net2 = None
            except Exception as e:
                # no converged result (e.g. SuperLU "failed to factorize matrix" of a diverging iteration on a near-collapse case):
                # the property speaks about converged power flows only
                ctx.count("recycled_run_raised_" + type(e).__name__)
                net2 = None
    if err and err.startswith("raise:"):
        ctx.count(err)
        return
    # (a) setpoint stage against a fresh ppc
    nontriv = False
    if getattr(net, "_is_elements", None) is not None and "bus" in net._pd2ppc_lookups and err in (None, "UserWarning", "IndexError", "not_converged"):
        try:
            srcs = _sources(net)
        except Exception:
            srcs = None
        if srcs is not None:
            ppc0, e0 = _fresh_ppc(net)
            nb = int(max(s[1] for s in srcs)) + 1 if srcs else 0
            if ppc0 is not None:
                nb = ppc0["bus"].shape[0]
                impl = [[float(ppc0["bus"][k, VM]), float(ppc0["bus"][k, VA]), int(ppc0["bus"][k, BUS_TYPE])] for k in range(nb)]
            else:
                impl = cq.Err(e0)
            sterms.append("run_setpoints %s %s %s" % (cq.b(opts["calculate_voltage_angles"]), cq.lst([_src_term(s) for s in srcs]), cq.nat(nb)))
            spend.append((impl, case, err))
            per = {}
            for s in srcs:
                per[s[1]] = per.get(s[1], 0) + 1
            nontriv = any(v >= 2 for v in per.values())
            ctx.count("max_sources_per_bus_%d" % (max(per.values()) if per else 0))
    if malformed:
        ctx.count("malformed_" + malformed + "_" + (err or "ok"))
    # (b) loop replay
    if rec and any(v != v for _, qg in rec for v in qg):
        ctx.count("loop_oracle_returned_nan")       # diverged Newton run: NaN cannot be replayed (and is never a converged result)
        rec = []
    if opts["enforce_q_lims"] and err in (None, "IndexError", "not_converged") and rec:
        from pandapower.pd2ppc import _pd2ppc
        _, ppci0 = _pd2ppc(net)
        g0 = ppci0["gen"]
        ref_gens = set(int(i) for i in ppci0["internal"]["ref_gens"])
        gens = ["(mkGen 0 %s 0 %s %s 0 %s %s)" % (cq.nat(int(g0[r, GEN_BUS])), cq.q(float(g0[r, QMIN])), cq.q(float(g0[r, QMAX])),
                                                   cq.b(bool(g0[r, GEN_STATUS] > 0)), cq.b(r in ref_gens)) for r in range(g0.shape[0])]
        tab = cq.lst(["(%s, %s)" % (cq.lst([cq.nat(i) for i in lim]), cq.lst([cq.q(v) for v in qg])) for lim, qg in rec])
        qterms.append("run_qloop %s %s %s" % (tab, cq.b(opts["enforce_q_lims"] == 2), cq.lst(gens)))
        if err == "IndexError":
            impl = cq.Err("IndexError")
        elif err is None:
            impl = [rec[-1][0], g_final, len(rec)]
        else:
            # not converged: the loop still ran; compare limited order and calls only
            impl = [rec[-1][0], None, len(rec)]
        qpend.append((impl, case))
        ctx.count("loop_calls_%d" % min(len(rec), 6))
        ctx.count("limited_%d" % min(len(rec[-1][0]), 5))
        if len(rec[-1][0]) > 0:
            nontriv = True
    # (c) demand history of the loop: PD/QD seen by every PF call, PD/QD after the loop
    if nr_alg and err is None and g_final is not None and rec and len(seen) == len(rec) == len(post) and opts["enforce_q_lims"]:
        n = len(rec)
        pd0, qd0 = seen[0]
        passes = []
        for j in range(n - 1):
            new = rec[j + 1][0][len(rec[j][0]):]
            passes.append("(mkPass %s %s %s)" % (cq.lst([cq.q(v) for v in post[j][0]]), cq.lst([cq.q(v) for v in post[j][1]]),
                                                 cq.lst(["(%s, %s)" % (cq.nat(i), cq.q(g_final[i])) for i in new])))
        DEM["t"].append("run_demand %s %s %s %s %s" % (cq.lst([cq.nat(b) for b in gb_final]), cq.lst([cq.q(v) for v in pd0]),
                                                       cq.lst([cq.q(v) for v in qd0]), cq.lst(passes), cq.lst([cq.q(v) for v in post[-1][0]])))
        DEM["p"].append(([seen[j + 1] for j in range(n - 1)], bus_final, case))
        # frame (independent of the model): the loop leaves the demand columns as it found them (pfsoln writes PD only under distributed slack)
        if bus_final[1] != qd0:
            ctx.violation("spec", "q-limit loop: bus QD after the loop differs from QD before it: %r vs %r" % (bus_final[1], qd0), case)
        if bus_final[0] != pd0:
            ctx.violation("spec", "q-limit loop: bus PD after the loop differs from PD before it: %r vs %r" % (bus_final[0], pd0), case)
        ctx.count("demand_history_passes_%d" % min(n - 1, 4))
    elif nr_alg and err is None and opts["enforce_q_lims"] and g_final is not None:
        ctx.count("demand_history_not_recorded")
    # oracle
    if err is None and g_final is not None and net2 is not None:
        _oracle(ctx, net2, opts, dict(case, recycle=rc), bypassed=False, recycled=rc)        # the laws on the recycled results
    if err is None:
        # the observed bypass must be the one of the model guard G04b: every in-service ppc bus is a reference bus
        if bypassed:
            types = set(int(t) for t in net._ppc["bus"][:, BUS_TYPE] if int(t) != 4)
            if types != {3}:
                ctx.violation("spec", "solver bypassed although bus types are %s" % sorted(types), case)
                bypassed = False
        _oracle(ctx, net, opts, case, bypassed=bypassed)
    ctx.case({"net_sha": hashlib.sha1(net_js.encode()).hexdigest(), "opts": opts}, nontrivial=nontriv,
             sample={"input": {"opts": opts, "gens": json.loads(net.gen[["bus", "p_mw", "vm_pu", "min_q_mvar", "max_q_mvar", "in_service"]].to_json()) if "min_q_mvar" in net.gen else {}},
                     "impl": {"outcome": err or "ok", "loop": rec[:4], "res_gen_q": [float(v) for v in net.res_gen.q_mvar.values] if err is None else None}} if sample else None)


def _corpus():
    import glob, os
    out = []
    for f in sorted(glob.glob(os.path.join(cq.VERIF, "corpus", "C04", "*.json"))):
        rec = json.load(open(f))
        out.append((pp.from_json_string(rec["net"]), rec["opts"], rec.get("recycle")))
    return out


def run(ctx, only=None):
    rng = ctx.rng
    sterms, spend, qterms, qpend = [], [], [], []
    DEM["t"], DEM["p"], DEM["lt"], DEM["lp"] = [], [], [], []
    if only is None:
        for given in _corpus():
            _one(ctx, rng, sterms, spend, qterms, qpend, given=given)
        for k in range(ctx.n(130, 3000)):
            # every 16th case is forced: the 8 combinations (conflict/equal) x (cva True/False) x (same bus/fused) once per 128 cases
            forced = None
            if k % 16 == 5:
                j = (k // 16) % 8
                forced = (bool(j & 1), bool(j & 2), bool(j & 4))
            _one(ctx, rng, sterms, spend, qterms, qpend, sample=k < 2, forced=forced)
    else:
        for given in only:
            _one(ctx, rng, sterms, spend, qterms, qpend, given=given, sample=True)
    sm = ctx.coq_eval("c04s", "Base.QN Base.QC C01.Model C04.Model", sterms, shard=25, timeout=900) if sterms else []
    for (impl, case, err), m in zip(spend, sm):
        ctx.corr_checked += 1
        if isinstance(impl, cq.Err) or isinstance(m, cq.Err):
            if impl != m:
                ctx.disagreement("setpoint stage: impl %r model %r" % (impl, m), case)
            continue
        bad = []
        for k, (i, mm) in enumerate(zip(impl, m)):
            vm, va, ty = mm
            if vm is not None and not pf.close(vm, i[0], 1e-12):
                bad.append("bus %d VM impl %r model %s" % (k, i[0], float(vm)))
            if va is not None and not pf.close(va, i[1], 1e-12):
                bad.append("bus %d VA impl %r model %s" % (k, i[1], float(va)))
            if i[2] != 4 and ty != i[2]:
                bad.append("bus %d BUS_TYPE impl %r model %r" % (k, i[2], ty))
        if bad:
            ctx.disagreement("setpoint stage: " + "; ".join(bad[:4]), case)
    qm = ctx.coq_eval("c04q", "Base.QN Base.QC C01.Model C04.Model", qterms, shard=25, timeout=900) if qterms else []
    for (impl, case), m in zip(qpend, qm):
        ctx.corr_checked += 1
        if isinstance(impl, cq.Err) or isinstance(m, cq.Err):
            if impl != m:
                ctx.disagreement("q-limit loop: impl %r model %r" % (impl, m), case)
            continue
        lim_m, qg_m, calls_m = m
        bad = []
        if lim_m != impl[0]:
            bad.append("limited order impl %r model %r" % (impl[0], lim_m))
        if calls_m != impl[2]:
            bad.append("pf calls impl %r model %r" % (impl[2], calls_m))
        if impl[1] is not None:
            for r, (a, b) in enumerate(zip(qg_m, impl[1])):
                if not pf.close(a, b, 1e-12):
                    bad.append("final QG row %d impl %r model %s" % (r, b, float(a)))
        if bad:
            ctx.disagreement("q-limit loop: " + "; ".join(bad[:4]), case)
    _compare_demand(ctx)
    _compare_limits(ctx)


def _compare_limits(ctx):
    lm = ctx.coq_eval("c04l", "Base.QN Base.QC C01.Model C04.Model", DEM["lt"], shard=50, timeout=900) if DEM["lt"] else []
    for (rows_i, case), m in zip(DEM["lp"], lm):
        ctx.corr_checked += 1
        bad = ["gen row %d QMIN/QMAX after recycle['gen'] impl %r model %r" % (j, a, [float(v) for v in b])
               for j, (a, b) in enumerate(zip(rows_i, m)) if not (pf.close(b[0], a[0], 1e-12) and pf.close(b[1], a[1], 1e-12))]
        if bad:
            ctx.disagreement("recycled power flow gen limits: " + "; ".join(bad[:3]), case)


def _compare_demand(ctx):
    dm = ctx.coq_eval("c04d", "Base.QN Base.QC C01.Model C04.Model", DEM["t"], shard=25, timeout=900) if DEM["t"] else []
    for (seen_i, final_i, case), m in zip(DEM["p"], dm):
        ctx.corr_checked += 1
        trace_m, final_m, fresh = m
        bad = []
        if not fresh:
            bad.append("a pass limited a row that was limited before (fresh_passes false)")
        if len(trace_m) != len(seen_i):
            bad.append("number of passes impl %d model %d" % (len(seen_i), len(trace_m)))
        for j, ((pd_i, qd_i), (pd_m, qd_m)) in enumerate(zip(seen_i, trace_m)):
            for k, (a, b) in enumerate(zip(pd_i, pd_m)):
                if not pf.close(b, a, 1e-9):
                    bad.append("PF call %d bus %d PD impl %r model %s" % (j + 1, k, a, float(b)))
            for k, (a, b) in enumerate(zip(qd_i, qd_m)):
                if not pf.close(b, a, 1e-9):
                    bad.append("PF call %d bus %d QD impl %r model %s" % (j + 1, k, a, float(b)))
        for nm, col_i, col_m in (("PD", final_i[0], final_m[0]), ("QD", final_i[1], final_m[1])):
            for k, (a, b) in enumerate(zip(col_i, col_m)):
                if not pf.close(b, a, 1e-12):
                    bad.append("after the loop bus %d %s impl %r model %s" % (k, nm, a, float(b)))
        if bad:
            ctx.disagreement("q-limit loop demand history: " + "; ".join(bad[:4]), case)


def replay(ctx, rec):
    case = rec["case"]
    run(ctx, only=[(pp.from_json_string(case["net"]), case["opts"], case.get("recycle"))])
