"""C08 — calculations never corrupt the user's network, even when they fail.

Oracle (model independent): table snapshots (index, columns, dtypes, values) of every element table before/after
each calculation (runpp, rundcpp, runopp, rundcopp, runpp_3ph, calc_sc 3ph/1ph, estimate, run_contingency) on
generated nets (dclines, tap-dependency-table transformers, gens, shunts, gapped indices; a back-to-back VSC net),
(a) completing normally, (b) failing naturally (not converged, infeasible OPF, NaN admittance), (c) with an
exception injected from outside before/after pandapower functions reached by the calculation (monkeypatched module
attributes), (d) with an exception raised at the k-th line event inside pandapower frames (sys.settrace),
(e) several calculations in a row on one object with random faults.
Correspondence: the sequence of distinct table states (gen index, tracked auxiliary ids, vsc names, res_gen index,
vk_percent) observed at the entry/exit of the pipeline-stage functions, the outcome and the final state are
compared with the Coq stage machine C08.Model.run_calc (fine granularity) for the same net, crash point and
solver verdict."""
import copy, json, sys, io, contextlib, warnings
import numpy as np, pandas as pd
import pandapower as pp
import pandapower.shortcircuit as sc
from pandapower.estimation import estimate
from pandapower.contingency import run_contingency
from vf import coqrun as cq, c08_snap as S, c08_nets as N, c08_inject as J, c08_xobs as X

RULE = ("nets: 3-5 bus 110 kV ring + 20 kV bus, 0-2 dclines (in/out of service), 0-2 user gens with gapped ids, tap table on/off, "
        "measurements; b2b_vsc net with/without a user vsc named like an auxiliary vsc.  Faults: every pipeline-stage function "
        "boundary incl. each create_gen entry/exit (correspondence, model crash index computed from the stage layout), a sample of "
        "all pandapower functions reached (first/last call, before/after), a sample of line events, natural failures, sessions of "
        "3-6 calculations; non-trivial = the net has a dcline or b2b_vsc or tap table AND the calculation failed or was interrupted")
ASSUMPTIONS = ["no double faults: nothing is injected inside _clean_up or inside an except block that is already handling a fault",
               "columns ADDED to element tables (short-circuit / zero-sequence helper columns) and dtype changes that keep all "
               "values equal are recorded in the histogram but are not counted as violations: the property text speaks of "
               "pre-existing values and rows",
               "exceptions inside C extensions / numba kernels cannot be injected at line granularity"]
TRUSTED = ["monkeypatched wrappers (recorders / fault injectors) around pandapower functions and sys.settrace, harness process only"]



def _quiet(f, *a, **kw):
    with contextlib.redirect_stdout(io.StringIO()), warnings.catch_warnings():
        warnings.simplefilter("ignore")
        return f(*a, **kw)


CALCS = {
    "runpp": lambda n: pp.runpp(n, numba=False),
    "rundcpp": lambda n: pp.rundcpp(n),
    "runopp": lambda n: pp.runopp(n, numba=False, calculate_voltage_angles=False),
    "rundcopp": lambda n: pp.rundcopp(n),
    "runpp_3ph": lambda n: pp.runpp_3ph(n, numba=False),
    "sc3ph": lambda n: sc.calc_sc(n, fault="3ph", case="max", ip=True, ith=True, branch_results=True),
    "sc1ph": lambda n: sc.calc_sc(n, fault="1ph", case="max"),
    "estimate": lambda n: estimate(n, init="flat"),
    # bus-bus switches are temporarily given an impedance (net.switch.z_ohm) instead of fusing the buses
    "estimate_bb": lambda n: estimate(n, init="flat", fuse_buses_with_bb_switch=None),
    "contingency": lambda n: run_contingency(n, {"line": {"index": list(n.line.index)[:2]}}, numba=False),
}


def _eval_raising_for_second_outage(net, **kw):
    """contingency_evaluation_function (public parameter of run_contingency): a power flow that does not converge for
    one particular outage"""
    from pandapower.auxiliary import LoadflowNotConverged
    out = [i for i in net.line.index if not net.line.at[i, "in_service"]]
    if out and out[0] == list(net.line.index)[1]:
        raise LoadflowNotConverged("outage of line %s does not converge" % out[0])
    pp.runpp(net, **kw)
# variants that fail by themselves
NATURAL = {
    "runpp_not_converged": lambda n: pp.runpp(n, numba=False, max_iteration=1, init="flat"),
    "runpp_unknown_algorithm": lambda n: pp.runpp(n, numba=False, algorithm="foo", max_iteration=5),
    "runopp_infeasible": lambda n: pp.runopp(n, numba=False, calculate_voltage_angles=False),
    "sc3ph_inverse_y": lambda n: sc.calc_sc(n, fault="3ph", case="max", inverse_y=True),
    "sc_invalid_fault": lambda n: sc.calc_sc(n, fault="4ph"),
    "estimate_bb_not_converged": lambda n: estimate(n, init="flat", fuse_buses_with_bb_switch=None, maximum_iterations=1),
    "estimate_bb_bad_measurement": lambda n: estimate(n, init="flat", fuse_buses_with_bb_switch=None),
    "estimate_not_converged": lambda n: estimate(n, init="flat", maximum_iterations=1),
    "contingency_raise_errors": lambda n: run_contingency(n, {"line": {"index": list(n.line.index)[:3]}}, numba=False, raise_errors=True,
                                                          contingency_evaluation_function=_eval_raising_for_second_outage),
    "contingency_failing_case_logged": lambda n: run_contingency(n, {"line": {"index": list(n.line.index)[:3]}}, numba=False,
                                                                 contingency_evaluation_function=_eval_raising_for_second_outage),
}
# edits made to the copy BEFORE the snapshot is taken (part of the input, not of the calculation)
PREPARE = {"runopp_infeasible": lambda n: n.load.__setitem__("p_mw", n.load.p_mw * 500.),
           "estimate_bb_bad_measurement": lambda n: n.measurement.__setitem__("element", [999] + list(n.measurement.element.values[1:]))}
K_EST = "C08-estimate-bb-switch-no-restore"
# helper columns that calculations are known to add to element tables (no pre-existing value or row is touched)
ALLOWED_NEW_COLUMNS = {("gen", "power_station_trafo"), ("gen", "pg_percent"), ("gen", "min_p_mw"), ("gen", "max_p_mw"),
                       ("gen", "min_q_mvar"), ("gen", "max_q_mvar"), ("gen", "controllable"),
                       ("trafo", "power_station_unit"), ("trafo", "pt_percent"), ("trafo", "oltc"), ("trafo", "xn_ohm"),
                       ("trafo", "_ppc_idx"), ("trafo", "k_st")}
MODEL_CALC = {"runpp": 0, "rundcpp": 0, "runopp": 1, "rundcopp": 1, "sc3ph": 2, "sc1ph": 3, "runpp_3ph": 4}


# ------------------------------------------------------------------ oracle
def user_vsc_with_b2b_name(net):
    if len(net.b2b_vsc) == 0 or len(net.vsc) == 0:
        return []
    names = set("b2b_%s%s" % (i, s) for i in net.b2b_vsc.index for s in "+-")
    return [i for i in net.vsc.index if net.vsc.at[i, "name"] in names]


def judge(ctx, before_net_guard, s0, net, case, stack=None, raised=None):
    """compare snapshots; classify.  raised = name of the exception class that left the calculation (None: normal return)"""
    d = S.diff(s0, S.snapshot(net), allow_new_columns=False)
    viol = []
    for t, kind, detail in d:
        if kind == "column_added" and (t, detail) in ALLOWED_NEW_COLUMNS:
            ctx.count("column_added:%s.%s" % (t, detail))
        elif kind == "dtype_changed":
            ctx.count("dtype_changed:%s.%s" % (t, detail.split(":")[0]))
        else:
            viol.append((t, kind, detail))
    if not viol:
        return True
    kind = "spec"
    # recorded finding: estimate(fuse_buses_with_bb_switch != 'all') that RAISES does not undo set_bb_switch_impedance
    if str(case.get("calc", "")).startswith("estimate_bb") and raised is not None and \
            all(t == "switch" and ((k == "value_changed" and det.startswith("z_ohm[")) or (k == "column_added" and det == "z_ohm_ori"))
                for t, k, det in viol):
        kind = K_EST
    ctx.violation(kind, "element tables changed by %s%s: %s" % (case.get("calc"), " (raised %s)" % raised if raised else "", viol[:4]), case)
    return False


def stack_names():
    f = sys._getframe(1)
    out = []
    while f is not None:
        out.append(f.f_code.co_name)
        f = f.f_back
    return out


# ------------------------------------------------------------------ correspondence: observation of the stage machine
def _vname(net, nm):
    for i in net.b2b_vsc.index:
        if nm == "b2b_%s+" % i:
            return [int(i), True]
        if nm == "b2b_%s-" % i:
            return [int(i), False]
    return 1


def digest(net):
    aux = net.get("_aux_elements", None)
    tg = None if aux is None or "gen" not in aux else [int(i) for i in aux["gen"]]
    tv = None if aux is None or "vsc" not in aux else [int(i) for i in aux["vsc"]]
    vs = [[int(i), _vname(net, net.vsc.at[i, "name"])] for i in net.vsc.index]
    res_gen = [int(i) for i in net.res_gen.index] if "res_gen" in net else []
    vk = [int(round(float(v) * 4096)) for v in net.trafo.vk_percent.values]
    return [[int(i) for i in net.gen.index], tg, vs, tv, res_gen, vk]


def collapse(seq):
    out = []
    for s in seq:
        if not out or out[-1] != s:
            out.append(s)
    return out


class StageObserver:
    """records the table digest at entry/exit of the pipeline stage functions; optionally raises at one event"""
    POINTS = [("pandapower.auxiliary", "_add_dcline_gens"), ("pandapower.auxiliary", "_add_b2b_vsc"),
              ("pandapower.auxiliary", "get_free_id"),
              ("pandapower.create", "create_gen"), ("pandapower.create", "create_vsc"),
              ("pandapower.powerflow", "init_results"), ("pandapower.powerflow", "verify_results"),
              ("pandapower.optimal_powerflow", "init_results"), ("pandapower.optimal_powerflow", "verify_results"),
              ("pandapower.powerflow", "_pd2ppc"), ("pandapower.optimal_powerflow", "_pd2ppc"),
              ("pandapower.shortcircuit.ppc_conversion", "_pd2ppc"),
              ("pandapower.powerflow", "_extract_results"), ("pandapower.optimal_powerflow", "_extract_results"),
              ("pandapower.shortcircuit.calc_sc", "_extract_results"),
              ("pandapower.powerflow", "_clean_up"), ("pandapower.optimal_powerflow", "_clean_up"),
              ("pandapower.shortcircuit.calc_sc", "_clean_up"), ("pandapower.shortcircuit.impedance", "_clean_up"),
              ("pandapower.pf.runpp_3ph", "_clean_up"), ("pandapower.pf.runpp_3ph", "_pd2ppc_recycle"),
              ("pandapower.pf.runpp_3ph", "_extract_results_3ph")]

    def __init__(self, net, fault=None):
        self.net, self.fault = net, fault     # fault = (name, occurrence, 'entry'|'exit')
        self.seq = [digest(net)]
        self.events = []
        self.counts = {}
        self.fired = False
        self._saved = []

    def __enter__(self):
        import importlib
        for modname, name in self.POINTS:
            mod = importlib.import_module(modname)
            f = getattr(mod, name)
            self._saved.append((mod, name, f))
            setattr(mod, name, self._wrap(f, name))
        return self

    def _wrap(self, f, name):
        ob = self

        def w(*a, **kw):
            n = ob.counts.get(name, 0)
            ob.counts[name] = n + 1
            ob._event(name, n, "entry")
            r = f(*a, **kw)
            ob._event(name, n, "exit")
            return r
        return w

    def _event(self, name, n, when):
        self.seq.append(digest(self.net))
        self.events.append((name, n, when))
        if self.fault is not None and not self.fired and self.fault == (name, n, when) and name != "_clean_up":
            self.fired = True
            raise J.InjectedFault("stage fault at %s #%d %s" % (name, n, when))

    def __exit__(self, *a):
        for mod, name, f in self._saved:
            setattr(mod, name, f)


def model_k(net, calc, fault):
    """crash index of the model for a fault at a stage event of runpp/rundcpp/runopp/rundcopp (layout of
    C08.Model.pl_powerflow / pl_opf: APrepareGen, per dcline 2x(ATrackNextGen, ACreateGenAt), APrepareVsc, per b2b_vsc
    2x(ATrackNextVsc, ACreateVscAt), AInitRes, ABuild, ASolve, AExtract, ACleanup)."""
    if fault is None:
        return None, True
    name, n, when = fault
    D, B = len(net.dcline), len(net.b2b_vsc)
    base = (1 + 4 * D) if D > 0 else 0
    tail = base + ((1 + 4 * B) if B > 0 else 0)
    if calc == "runpp_3ph":
        # pl_pf3ph: ABuild (three _pd2ppc_recycle calls), ASolve, ACleanup; nothing is added
        if name == "_pd2ppc_recycle":
            return (0 if (n == 0 and when == "entry") else 1), True
        if name == "_extract_results_3ph":
            return 2, True
        return None, False
    if calc in ("sc3ph", "sc1ph"):
        # pl_sc: add_aux, ABuild, ASolve, ACleanup; pl_sc_1ph: add_aux twice (calc_sc.py:227 and inside _init_ppc)
        passes = 2 if calc == "sc1ph" else 1
        if name == "_add_dcline_gens" and n < passes:
            return n * tail + (0 if when == "entry" else base), True
        if name == "create_gen" and D > 0 and n < passes * 2 * D:
            ps, r = divmod(n, 2 * D)
            return ps * tail + (2 + 2 * r if when == "entry" else 3 + 2 * r), True
        if name == "_add_b2b_vsc" and n < passes:
            return n * tail + (base if when == "entry" else tail), True
        if name == "create_vsc" and B > 0 and n < passes * 2 * B:
            ps, r = divmod(n, 2 * B)
            return ps * tail + base + (2 + 2 * r if when == "entry" else 3 + 2 * r), True
        if name == "_pd2ppc" and n == 0:
            return passes * tail + (0 if when == "entry" else 1), True
        if name == "_extract_results":
            return passes * tail + 2, True
        return None, False
    ac_init = "verify_results" if calc in ("rundcpp", "rundcopp") else "init_results"
    if name == "_add_dcline_gens":
        return (0 if when == "entry" else base), True
    if name == "create_gen":
        return (2 + 2 * n if when == "entry" else 3 + 2 * n), True
    if name == "_add_b2b_vsc":
        return (base if when == "entry" else tail), True
    if name == "create_vsc":
        return (base + 2 + 2 * n if when == "entry" else base + 3 + 2 * n), True
    if name == ac_init:
        return (tail if when == "entry" else tail + 1), True
    if name == "_pd2ppc":
        return (tail + 1 if when == "entry" else tail + 2), True
    if name == "_extract_results":
        return (tail + 3 if when == "entry" else tail + 4), True
    return None, False


def net_literal(net):
    def vn(nm):
        c = _vname(net, nm)
        return "(NOther 1)" if c == 1 else "(NB2B %s %s)" % (cq.z(c[0]), cq.b(c[1]))
    gens = cq.lst(["{| g_id := %s; g_data := %s |}" % (cq.z(i), cq.z(k)) for k, i in enumerate(net.gen.index)])
    vscs = cq.lst(["{| v_id := %s; v_name := %s; v_data := 0 |}" % (cq.z(i), vn(net.vsc.at[i, "name"])) for i in net.vsc.index])
    tr = cq.lst(["{| t_id := %s; t_vk := %s; t_tab := None |}" % (cq.z(i), cq.z(int(round(float(net.trafo.at[i, "vk_percent"]) * 4096))))
                 for i in net.trafo.index])
    aux = net.get("_aux_elements", None)
    tg = "None" if aux is None or "gen" not in aux else "(Some %s)" % cq.lst([cq.z(i) for i in aux["gen"]])
    tv = "None" if aux is None or "vsc" not in aux else "(Some %s)" % cq.lst([cq.z(i) for i in aux["vsc"]])
    res_gen = cq.lst([cq.z(i) for i in net.res_gen.index]) if "res_gen" in net else "[]"
    return ("{| gen := %s; res_gen := %s; vsc := %s; trafo := %s; dcline := %s; b2b := %s; tracked := %s; tracked_v := %s |}" % (
        gens, res_gen, vscs, tr, cq.lst([cq.z(100 + 2 * k) for k in range(len(net.dcline))]),
        cq.lst([cq.z(i) for i in net.b2b_vsc.index]), tg, tv))


def _norm(states):
    """the creation of an empty tracking list (None -> []) happens between two observation points: not a visible step"""
    return [[s[0], s[1] or [], s[2], s[3] or [], s[4], s[5]] for s in states]


def observe(ctx, base, calc, fault, runner=None, prepare=None):
    """run calc on a copy of base with the stage observer; returns (observation, model term | None, case)"""
    net = copy.deepcopy(base)
    if prepare is not None:
        prepare(net)
        base = copy.deepcopy(net)
    s0 = S.snapshot(net)
    guard = user_vsc_with_b2b_name(net)
    lit = net_literal(net)
    f = runner or CALCS[calc]
    ob = StageObserver(net, fault)
    outcome = True
    stack = None
    with ob:
        try:
            _quiet(f, net)
        except J.InjectedFault:
            outcome = False
            stack = ["create_gen", "_add_dcline_gens"] if fault and fault[0] == "create_gen" else []
        except Exception as e:
            outcome = False
            ob.natural = type(e).__name__
    final = digest(net)
    case = {"calc": calc, "fault": list(fault) if fault else None, "net": pp.to_json(base)}
    judge(ctx, guard, s0, net, case, stack, None if outcome else (getattr(ob, "natural", None) or "InjectedFault"))
    k, has_model = model_k(base, calc, fault)
    term = None
    if calc in MODEL_CALC and has_model and (fault is None or ob.fired):
        conv = outcome or ob.fired           # a natural failure is the solver verdict `not converged`
        term = "run_calc %s %s %s %s" % (cq.nat(MODEL_CALC[calc]), "None" if k is None else "(Some %s)" % cq.nat(k),
                                              cq.b(conv), lit)
    obs = {"final": final, "done": outcome, "states": collapse(_norm(ob.seq + [final]))}
    return obs, term, case, ob


def model_obs(m):
    def st(x):
        g, t, v, tv, r, vk = x
        return [g, t, [[i, (list(nm) if isinstance(nm, list) else nm)] for i, nm in v], tv, r, vk]
    final, done, states = m
    return {"final": st(final), "done": done, "states": collapse(_norm([st(s) for s in states]))}


# ------------------------------------------------------------------ the run
def gen_nets(ctx, rng, n):
    out = []
    for k in range(n):
        net = N.rich_net(rng, n_dcline=[1, 2, 0, 1][k % 4] if k < 4 else None, bb_switch=[2, 0, 1, 1][k % 4] if k < 4 else None)
        N.add_measurements(net)
        out.append(net)
    return out


def correspondence(ctx, rng, nets, b2b):
    terms, obss, cases = [], [], []

    def add(base, calc, fault, runner=None, prepare=None):
        obs, term, case, ob = observe(ctx, base, calc, fault, runner, prepare)
        interesting = (len(base.dcline) > 0 or len(base.b2b_vsc) > 0) and not obs["done"]
        ctx.case({k: v for k, v in case.items() if k != "net"} | {"ndc": len(base.dcline), "ngen": len(base.gen), "seq": len(cases)},
                 nontrivial=interesting, sample={"calc": calc, "fault": fault, "observed": obs} if len(cases) in (3, 40) else None)
        ctx.count("corr_%s_%s" % (calc, "fault" if fault else ("ok" if obs["done"] else "natural_failure")))
        if term is not None:
            terms.append(term); obss.append(obs); cases.append(case)
        return ob

    for base in nets:
        for calc in ("runpp", "rundcpp", "runopp", "rundcopp", "sc3ph", "sc1ph", "runpp_3ph"):
            ob = add(base, calc, None)
            if calc in ("runpp", "rundcpp", "runopp", "rundcopp"):
                evs = [e for e in ob.events if e[0] != "_clean_up"]
                # every stage event of a dcline net for the first nets, a sample afterwards
                pick = evs if (ctx.tier != "quick" or base is nets[0]) else rng.sample(evs, min(len(evs), 6))
                for e in pick:
                    add(base, calc, e)
            else:
                # short circuit 3ph / 1ph (double add) and three-phase power flow: the model crash index is tied to the same
                # stage events as for power flow and OPF
                evs = [e for e in ob.events if model_k(base, calc, e)[1]]
                for e in (evs if ctx.tier != "quick" else rng.sample(evs, min(len(evs), 4 if base is not nets[0] else 8))):
                    add(base, calc, e)
        add(base, "runpp", None, NATURAL["runpp_not_converged"])
        add(base, "runopp", None, NATURAL["runopp_infeasible"], PREPARE["runopp_infeasible"])
        add(base, "sc3ph", None, NATURAL["sc3ph_inverse_y"])
    for bnet in b2b:
        ob = add(bnet, "runpp", None)
        evs = [e for e in ob.events if e[0] in ("_add_b2b_vsc", "create_vsc", "init_results", "_pd2ppc")]
        for e in (evs if ctx.tier != "quick" else rng.sample(evs, min(len(evs), 5))):
            add(bnet, "runpp", e)
    model = ctx.coq_eval("c08", "C08.Model", terms, prelude="Open Scope Z_scope.", shard=60, timeout=900)
    for obs, m, case in zip(obss, model, cases):
        ctx.corr_checked += 1
        mo = model_obs(m)
        if json.dumps(mo) != json.dumps(obs):
            which = [k for k in ("done", "final", "states") if mo[k] != obs[k]]
            ctx.disagreement("stage machine differs in %s: impl %s / model %s" % (
                which, json.dumps(obs[which[0]])[:300], json.dumps(mo[which[0]])[:300]), case)


# ------------------------------------------------------------------ correspondence: estimate and run_contingency
K_CONT = "C08-contingency-outage-before-try"


def xnet_literal(net, tables=("line",)):
    z, o = X.zcol(net, "z_ohm"), X.zcol(net, "z_ohm_ori")

    def ol(v):
        return "None" if v is None else "(Some %s)" % cq.lst([cq.z(x) for x in v])
    ins = cq.lst([cq.lst([cq.z(int(i)) for i in net[t].index[net[t].in_service.values.astype(bool)]]) for t in tables])
    rows = cq.lst([cq.lst([cq.z(int(i)) for i in net[t].index]) for t in tables])
    return "(mk_xnet %s %s %s %s %s)" % (net_literal(net), ol(z), ol(o), ins, rows)


def _exc_class(e):
    return "done" if e is None else ("exception" if isinstance(e, Exception) else "base")


def estimate_correspondence(ctx, rng, nets):
    """estimate(fuse_buses_with_bb_switch=None) on nets with closed bus-bus switches: the impedance writes observed in a
    run without fault are the `rounds` input of C08.Model.run_estimate; for a fault at a stage event (Exception and
    BaseException) the state at the fault (z_ohm, z_ohm_ori), the final state and the kind of outcome must agree"""
    terms, expect = [], []
    done = 0
    for base in nets:
        if int((base.switch.et == "b").sum()) == 0 or (ctx.tier == "quick" and done >= 2):
            continue
        done += 1
        net = copy.deepcopy(base)
        ob0 = X.XObserver(net, X.EST_POINTS, X.est_state)
        err = None
        with ob0:
            try:
                res = _quiet(CALCS["estimate_bb"], net)
            except Exception as e:
                err = e
        if err is not None:
            ctx.count("corr_estimate_bb_unfaulted_raises_" + type(err).__name__)
            continue
        success = bool(res["success"]) if isinstance(res, dict) else bool(res)
        rounds, ncalls = X.est_rounds(ob0)
        ctx.count("corr_estimate_bb_rounds_%d" % len(rounds))
        rlit = cq.lst(["(%s, %s)" % (cq.lst([cq.b(x) for x in sel]),
                                     "None" if undo is None else "(Some %s)" % cq.lst([cq.b(x) for x in undo])) for sel, undo in rounds])
        lit = xnet_literal(base)
        evs = [e for e in ob0.events if X.est_k(base, rounds, e) is not None]
        faults = [None] + (evs if ctx.tier != "quick" else rng.sample(evs, min(len(evs), 5)))
        for fault in faults:
            for exc in ((J.InjectedFault,) if fault is None else (J.InjectedFault, J.InjectedInterrupt)):
                if fault is not None and exc is J.InjectedInterrupt and rng.random() < 0.5 and ctx.tier == "quick":
                    continue
                net = copy.deepcopy(base)
                s0 = S.snapshot(net)
                ob = X.XObserver(net, X.EST_POINTS, X.est_state, fault, exc)
                raised = None
                with ob:
                    try:
                        _quiet(CALCS["estimate_bb"], net)
                    except BaseException as e:
                        if not isinstance(e, (Exception, J.InjectedInterrupt)):
                            raise
                        raised = e
                case = {"calc": "estimate_bb", "fault": list(fault) if fault else None, "exc": exc.__name__, "net": pp.to_json(base)}
                judge(ctx, [], s0, net, case, [], type(raised).__name__ if raised is not None else None)
                k = None if fault is None else X.est_k(base, rounds, fault)
                args = "%s true false %s true %s %s %s" % (cq.b(exc is J.InjectedFault), rlit, cq.b(success),
                                                         "None" if k is None else "(Some %s)" % cq.nat(k), lit)
                terms.append("run_est " + args)
                expect.append(("est_final", [digest(net)] + X.est_state(net), _exc_class(raised), case))
                if fault is not None and ob.fired:
                    terms.append("run_est_at " + args)
                    expect.append(("est_at", ob.at_fault, _exc_class(raised), case))
                ctx.case({"calc": "estimate_bb", "fault": list(fault) if fault else None, "exc": exc.__name__, "rounds": len(rounds)},
                         nontrivial=fault is not None and len(rounds) > 0)
                ctx.count("corr_estimate_bb_%s" % ("fault" if fault else "ok"))
    return terms, expect


def contingency_correspondence(ctx, rng, nets):
    """run_contingency with an evaluation function that reports its calls (and does not converge for chosen outages):
    faults at the entry/exit of the evaluation and of the result bookkeeping, Exception and BaseException, raise_errors on
    and off, elements already out of service, an absent index (the line-level fault between outage assignment and try
    statement of the layout before the repair is still searched for: it finds no such line any more); final in_service cells, tables and kind of outcome versus C08.Model.run_contingency"""
    from pandapower.contingency import run_contingency
    terms, expect = [], []
    for base0 in nets[:ctx.n(2, 6)]:
        for variant in range(ctx.n(2, 4)):
            base = copy.deepcopy(base0)
            lines = [int(i) for i in base.line.index]
            listed = lines[:3]
            if variant % 2 == 1 and len(listed) > 1:
                base.line.at[listed[0], "in_service"] = False       # already out of service: skipped, stays out of service
            if variant == 3:
                listed = listed[:2] + [max(lines) + 5]                 # absent index: KeyError in front of any assignment
            failing = {listed[1]} if variant >= 1 and len(listed) > 1 else set()
            raise_errors = variant == 2
            present = [i in lines for i in listed]
            executed = [p and bool(base.line.at[i, "in_service"]) if p else False for i, p in zip(listed, present)]
            cases = [(ex, i not in failing) for i, ex in zip(listed, executed)]
            if not all(present):
                cut = present.index(False)          # the loop ends at the absent index
            clit = cq.lst(["(0%%nat, %s, %s)" % (cq.z(i), cq.b(i not in failing)) for i in listed])
            keys = cq.lst(["(0%%nat, %s)" % cq.z(i) for i in lines])
            lit = xnet_literal(base)

            def runner(net, fault, exc, tryline=None):
                state = {"n": 0}
                ob = X.XObserver(net, X.CONT_POINTS, lambda n: None, fault, exc)

                def evaluation(n, **kw):
                    j = state["n"]
                    state["n"] += 1
                    ob.event("eval", j, "entry")
                    out = [i for i in listed if i in n.line.index and not n.line.at[i, "in_service"] and base.line.at[i, "in_service"]]
                    if out and out[0] in failing:
                        pp.runpp(n, **dict(kw, max_iteration=1, init="flat"))
                    else:
                        pp.runpp(n, **kw)
                    ob.event("eval", j, "exit")
                raised = None
                with ob:
                    ctxm = tryline if tryline is not None else contextlib.nullcontext()
                    with ctxm:
                        try:
                            _quiet(run_contingency, net, {"line": {"index": listed}}, numba=False, raise_errors=raise_errors,
                                   contingency_evaluation_function=evaluation)
                        except BaseException as e:
                            if not isinstance(e, (Exception, J.InjectedInterrupt)):
                                raise
                            raised = e
                return ob, raised
            net = copy.deepcopy(base)
            ob0, raised0 = runner(net, None, J.InjectedFault)
            evs = [e for e in ob0.events if X.cont_k(base, cases, e)[0] is not None]
            nexec = sum(1 for ex, _ in (cases if all(present) else cases[:cut]) if ex)
            faults = [None] + (evs if ctx.tier != "quick" else rng.sample(evs, min(len(evs), 5))) + \
                     [("try_line", j, "line") for j in range(nexec)][:ctx.n(1, 3)]
            for fault in faults:
                for exc in ((J.InjectedFault,) if fault is None else (J.InjectedFault, J.InjectedInterrupt)):
                    if fault is not None and ctx.tier == "quick" and rng.random() < 0.4:
                        continue
                    net = copy.deepcopy(base)
                    s0 = S.snapshot(net)
                    tl = X.TryLineFault(fault[1], exc) if fault is not None and fault[0] == "try_line" else None
                    ob, raised = runner(net, None if tl is not None else fault, exc, tl)
                    fired = tl.fired if tl is not None else (fault is None or ob.fired)
                    if not fired:
                        ctx.count("corr_contingency_fault_not_reached")
                        continue
                    k, window = (None, False) if fault is None else X.cont_k(base, cases, fault)
                    case = {"calc": "contingency", "fault": list(fault) if fault else None, "exc": exc.__name__, "listed": listed,
                            "failing": sorted(failing), "raise_errors": raise_errors, "net": pp.to_json(base)}
                    # oracle; the recorded finding is identified by the fault position alone (the try line behind the outage assignment)
                    d = [x for x in S.diff(s0, S.snapshot(net), allow_new_columns=False) if x[1] not in ("dtype_changed", "column_added")]
                    if d:
                        is_window = tl is not None and all(t == "line" and kd == "value_changed" and det.startswith("in_service[") for t, kd, det in d)
                        ctx.violation(K_CONT if is_window else "spec", "element tables changed by run_contingency (%s): %s" % (
                            type(raised).__name__ if raised is not None else "returned", d[:3]), case)
                    terms.append("run_cont %s %s %s 0%%nat %s true %s %s %s" % (
                        cq.b(exc is J.InjectedFault), cq.b(window), cq.b(raise_errors), clit, keys,
                        "None" if k is None else "(Some %s)" % cq.nat(k), lit))
                    expect.append(("cont", [digest(net)] + X.est_state(net) + [[bool(v) for v in net.line.in_service.values]],
                                   _exc_class(raised), case))
                    ctx.case({k2: v for k2, v in case.items() if k2 != "net"}, nontrivial=fault is not None)
                    ctx.count("corr_contingency_%s" % ("window" if tl is not None else ("fault" if fault else "ok")))
    return terms, expect


def x_correspondence(ctx, rng, nets):
    t1, e1 = estimate_correspondence(ctx, rng, nets)
    t2, e2 = contingency_correspondence(ctx, rng, nets)
    terms, expect = t1 + t2, e1 + e2
    if not terms:
        return
    model = ctx.coq_eval("c08x", "C08.Model", terms, prelude="Open Scope Z_scope.", shard=80, timeout=900)
    for (kind, obs_state, obs_out, case), m in zip(expect, model):
        ctx.corr_checked += 1
        mstate, mout = m
        mnet, mz, mo, mserv = mstate
        g, t, v, tv, r, vk = mnet
        mdig = [g, t, [[i, (list(nm) if isinstance(nm, list) else nm)] for i, nm in v], tv, r, vk]
        if kind == "est_at":
            got, want = [mz, mo], obs_state
        elif kind == "est_final":
            got, want = _norm([mdig])[0] + [mz, mo], _norm([obs_state[0]])[0] + obs_state[1:]
        else:
            got, want = _norm([mdig])[0] + [mz, mo, mserv], _norm([obs_state[0]])[0] + obs_state[1:]
        if json.dumps(got) != json.dumps(want):
            ctx.disagreement("%s: state differs: impl %s / model %s" % (kind, json.dumps(want)[:300], json.dumps(got)[:300]), case)
        elif kind != "est_at" and mout != obs_out:
            ctx.disagreement("%s: outcome differs: impl %s / model %s" % (kind, obs_out, mout), case)


def function_level(ctx, rng, base, calc, n_points, exc=J.InjectedFault):
    f = CALCS[calc]
    net = copy.deepcopy(base)
    with J.Patch() as p:
        try:
            _quiet(f, net)
        except Exception:
            pass
    pts = [(k, n, w) for k in p.order for n in sorted({1, p.calls[k]}) for w in ("before", "after")]
    ctx.extra.setdefault("function_injection_points_total", {})[calc] = len(pts)
    guard = user_vsc_with_b2b_name(base)
    for k, n, w in (pts if n_points is None else rng.sample(pts, min(n_points, len(pts)))):
        net = copy.deepcopy(base)
        s0 = S.snapshot(net)
        stack = [None]

        class Exc(exc):
            def __init__(self, *a):
                super().__init__(*a)
                stack[0] = stack_names()
        raised = None
        with J.Patch((k, n, w), Exc) as q:
            try:
                _quiet(f, net)
            except BaseException as e:
                if not isinstance(e, (Exception, J.InjectedInterrupt)):
                    raise
                raised = type(e).__name__
        case = {"calc": calc, "inject": [k, n, w], "exc": exc.__name__, "net": pp.to_json(base)}
        if q.fired:
            judge(ctx, guard, s0, net, case, stack[0], raised)
            ctx.case({"calc": calc, "inject": [k, n, w], "exc": exc.__name__, "ndc": len(base.dcline)},
                     nontrivial=len(base.dcline) > 0 or bool(base.trafo.get("tap_dependency_table", pd.Series([False])).any()))
            ctx.count("function_fault_%s" % calc)


def line_level(ctx, rng, base, calc, n_points):
    f = CALCS[calc]
    net = copy.deepcopy(base)
    with J.LineInjector(None) as li:
        try:
            _quiet(f, net)
        except Exception:
            pass
    total = li.count
    ctx.extra.setdefault("line_events_total", {})[calc] = total
    guard = user_vsc_with_b2b_name(base)
    ks = list(range(1, total + 1)) if n_points is None else sorted(rng.sample(range(1, total + 1), min(n_points, total)))
    for k in ks:
        net = copy.deepcopy(base)
        s0 = S.snapshot(net)
        raised = None
        with J.LineInjector(k) as li:
            try:
                _quiet(f, net)
            except Exception as e:
                raised = type(e).__name__
        if li.fired_at is None:
            continue
        if li.double_fault:
            ctx.count("line_double_fault_skipped")
            continue
        case = {"calc": calc, "line_event": k, "at": list(li.fired_at), "net": pp.to_json(base)}
        judge(ctx, guard, s0, net, case, li.stack, raised)
        ctx.case({"calc": calc, "line_event": k, "at": list(li.fired_at)}, nontrivial=len(base.dcline) > 0)
        ctx.count("line_fault_%s" % calc)


def natural_failures(ctx, nets):
    """every calculation variant that fails (or may fail) by itself, on every net: snapshot before/after"""
    for base in nets:
        for name, f in list(NATURAL.items()) + [(c, CALCS[c]) for c in ("estimate_bb", "contingency")]:
            net = copy.deepcopy(base)
            if name in PREPARE:
                PREPARE[name](net)
            s0 = S.snapshot(net)
            guard = user_vsc_with_b2b_name(net)
            raised = None
            try:
                _quiet(f, net)
            except Exception as e:
                raised = type(e).__name__
            case = {"calc": name, "natural": True, "net": pp.to_json(base)}
            judge(ctx, guard, s0, net, case, [], raised)
            ctx.case({"calc": name, "natural": True, "raised": raised, "ndc": len(base.dcline), "nbb": int((base.switch.et == "b").sum())},
                     nontrivial=True)
            ctx.count("natural_%s_%s" % (name, raised or "returned"))


def fail_then_edit_then_run(ctx, rng, nets):
    """a calculation that fails after the auxiliary elements were added, then the USER creates an element (it may receive an
    index that was used by an auxiliary element), then every calculation: the user's new row must survive"""
    for base in nets:
        if len(base.dcline) == 0:
            continue
        for failing in ("sc3ph", "runpp_unknown_algorithm", "runpp_not_converged"):
            start = copy.deepcopy(base)
            try:
                _quiet(NATURAL[failing] if failing in NATURAL else CALCS[failing], start)
            except Exception:
                pass
            vm = float(start.ext_grid.vm_pu.values[0])
            pp.create_gen(start, int(start.bus.index[1]), p_mw=1.25, vm_pu=vm, vn_kv=110., xdss_pu=0.2, rdss_ohm=0.1, cos_phi=0.9,
                          sn_mva=10., min_p_mw=0., max_p_mw=10., min_q_mvar=-5., max_q_mvar=5., controllable=True)
            for calc in ("runpp", "rundcpp", "runopp", "sc3ph", "estimate"):
                net = copy.deepcopy(start)
                s0 = S.snapshot(net)
                raised = None
                try:
                    _quiet(CALCS[calc], net)
                except Exception as e:
                    raised = type(e).__name__
                case = {"calc": calc, "after_failing": failing, "then": "create_gen", "net": pp.to_json(base)}
                judge(ctx, [], s0, net, case, [], raised)
                ctx.case({"calc": calc, "after_failing": failing, "then": "create_gen", "ndc": len(base.dcline)}, nontrivial=True)
                ctx.count("fail_edit_run_%s" % calc)


def sessions(ctx, rng, nets, n):
    """several calculations in a row on ONE object, some of them interrupted; after every single one the tables must equal
    the initial ones (the first deviation is attributed to the calculation that caused it)"""
    names = list(CALCS)
    for _ in range(n):
        base = rng.choice(nets)
        net = copy.deepcopy(base)
        s0 = S.snapshot(net)
        guard = user_vsc_with_b2b_name(net)
        ops = []
        for _ in range(rng.randint(3, 6)):
            calc = rng.choice(names)
            mode = rng.choice(["ok", "ok", "function", "natural"])
            raised = None
            if mode == "natural":
                calc = rng.choice([x for x in NATURAL if x not in PREPARE])
                ops.append(calc)
                try:
                    _quiet(NATURAL[calc], net)
                except Exception as e:
                    raised = type(e).__name__
            elif mode == "function":
                with J.Patch() as p:
                    try:
                        _quiet(CALCS[calc], copy.deepcopy(net))
                    except Exception:
                        pass
                k = rng.choice(p.order)
                pt = (k, rng.choice(sorted({1, p.calls[k]})), rng.choice(["before", "after"]))
                ops.append([calc, list(pt)])
                with J.Patch(pt):
                    try:
                        _quiet(CALCS[calc], net)
                    except Exception as e:
                        raised = type(e).__name__
            else:
                ops.append(calc)
                try:
                    _quiet(CALCS[calc], net)
                except Exception as e:
                    raised = type(e).__name__
            case = {"calc": calc, "session": list(ops), "net": pp.to_json(base)}
            if not judge(ctx, guard, s0, net, case, ["session"], raised):
                break
        ctx.case({"session": ops}, nontrivial=len(base.dcline) > 0)
        ctx.count("sessions")


def corpus_witnesses(ctx):
    """the two repaired residual defects are replayed first, on the real code (they must not come back)"""
    import pandapower.create.gen_create as gc
    # (1) create/track window
    net = N.rich_net(__import__("random").Random(1), n_dcline=1, gens=1, taptab=False)
    s0 = S.snapshot(net)
    orig, calls = gc._set_value_if_not_nan, [0]

    def boom(*a, **k):
        calls[0] += 1
        if calls[0] == 1:
            raise J.InjectedFault("inside create_gen after the row was written")
        return orig(*a, **k)
    gc._set_value_if_not_nan = boom
    try:
        try:
            _quiet(pp.runpp, net, numba=False)
        except J.InjectedFault:
            pass
    finally:
        gc._set_value_if_not_nan = orig
    judge(ctx, [], s0, net, {"calc": "runpp", "corpus": "create_gen raises after its row write (1 dcline)"}, ["create_gen", "_add_dcline_gens"])
    ctx.case({"corpus": "window"}, nontrivial=True)
    # (2) user vsc named like an auxiliary vsc
    net = N.b2b_net(user_vsc_name="b2b_0+")
    s0 = S.snapshot(net)
    guard = user_vsc_with_b2b_name(net)
    try:
        _quiet(pp.runpp, net)
    except Exception:
        pass
    judge(ctx, guard, s0, net, {"calc": "runpp", "corpus": "user vsc named b2b_0+ next to b2b_vsc 0"}, [])
    ctx.case({"corpus": "vsc-name"}, nontrivial=True)


def run(ctx):
    rng = ctx.rng
    corpus_witnesses(ctx)
    nets = gen_nets(ctx, rng, ctx.n(4, 12))
    # b2b_vsc alone, and together with dclines: both kinds of auxiliary elements in one calculation
    b2b = [N.b2b_net(), N.b2b_net(n_dcline=1)]
    correspondence(ctx, rng, nets, b2b)
    x_correspondence(ctx, rng, nets)
    natural_failures(ctx, nets)
    fail_then_edit_then_run(ctx, rng, nets[:2])
    for calc in CALCS:
        heavy = calc in ("contingency", "estimate", "estimate_bb")
        function_level(ctx, rng, nets[0] if calc != "runpp_3ph" else nets[2], calc,
                       ctx.n(10 if heavy else 24, None if not heavy else 150))
    # faults that are not Exceptions (KeyboardInterrupt-like): handlers written as `except Exception` do not see them
    function_level(ctx, rng, nets[1], "runpp", ctx.n(20, 200), exc=J.InjectedInterrupt)
    function_level(ctx, rng, nets[0], "contingency", ctx.n(12, 150), exc=J.InjectedInterrupt)
    function_level(ctx, rng, nets[0], "estimate_bb", ctx.n(8, 100), exc=J.InjectedInterrupt)
    for bnet in b2b:
        function_level(ctx, rng, bnet, "runpp", ctx.n(6, 80))
        for calc in ("rundcpp",):
            net = copy.deepcopy(bnet)
            s0 = S.snapshot(net)
            raised = None
            try:
                _quiet(CALCS[calc], net)
            except Exception as e:
                raised = type(e).__name__
            judge(ctx, user_vsc_with_b2b_name(bnet), s0, net, {"calc": calc, "net": pp.to_json(bnet)}, [], raised)
            ctx.case({"calc": calc, "b2b": len(bnet.b2b_vsc), "ndc": len(bnet.dcline)}, nontrivial=True)
    for calc in ("runpp", "rundcopp", "sc1ph"):
        line_level(ctx, rng, nets[1], calc, ctx.n(24, 1500))
    sessions(ctx, rng, nets + ([b2b[1]] if ctx.tier != "quick" else []), ctx.n(8, 120))


def replay(ctx, rec):
    case = rec["case"]
    if "net" not in case:
        corpus_witnesses(ctx)
        return
    base = pp.from_json_string(case["net"])
    calc = case["calc"]
    net = copy.deepcopy(base)
    s0 = S.snapshot(net)
    guard = user_vsc_with_b2b_name(net)
    if "inject" in case:
        with J.Patch(tuple(case["inject"])):
            try:
                _quiet(CALCS[calc], net)
            except Exception:
                pass
    elif "line_event" in case:
        with J.LineInjector(case["line_event"]):
            try:
                _quiet(CALCS[calc], net)
            except Exception:
                pass
    elif calc == "contingency" and case.get("fault") and case["fault"][0] == "try_line":
        exc = J.InjectedInterrupt if case.get("exc") == "InjectedInterrupt" else J.InjectedFault
        with X.TryLineFault(case["fault"][1], exc):
            try:
                _quiet(run_contingency, net, {"line": {"index": case["listed"]}}, numba=False, raise_errors=case.get("raise_errors", False))
            except BaseException as e:
                if not isinstance(e, (Exception, J.InjectedInterrupt)):
                    raise
        d = [x for x in S.diff(s0, S.snapshot(net), allow_new_columns=False) if x[1] not in ("dtype_changed", "column_added")]
        if d:
            ctx.violation(K_CONT if all(t == "line" and kd == "value_changed" and det.startswith("in_service[") for t, kd, det in d)
                          else "spec", "element tables changed by run_contingency: %s" % d[:3], case)
        ctx.case({"replay": calc}, nontrivial=True)
        return
    elif calc in CALCS and "exc" not in case:
        obs, term, c2, ob = observe(ctx, base, calc, tuple(case["fault"]) if case.get("fault") else None)
        return
    judge(ctx, guard, s0, net, case, [])
    ctx.case({"replay": calc}, nontrivial=True)
