"""C19 — state estimation reproduces the power-flow state from exact measurements.
Correspondence: BaseAlgebra._merge_mask on generated index masks; _calculate_weighted_measurements on generated
redundant readings; create_hx and the gain matrix H^T R^-1 H of real estimation runs vs C19.Model.
Oracle: estimate() on exact, fully observable measurement sets taken from runpp results (bus v/p/q/va, branch p/q/i on
both sides), in original order and permuted with duplicated readings: estimated voltages and branch flows equal the
power flow, both runs agree, chi2_analysis reports no bad data and remove_bad_data removes nothing."""
import copy, json, math, random
import numpy as np, pandas as pd
import pandapower as pp
from fractions import Fraction
from vf import coqrun as cq, nets
from pandapower.estimation import estimate, chi2_analysis, remove_bad_data
from pandapower.estimation.state_estimation import StateEstimation
from pandapower.estimation.algorithm.matrix_base import BaseAlgebra
from pandapower.estimation.ppc_conversion import _calculate_weighted_measurements
from pandapower.pypower.idx_brch import F_BUS, T_BUS

RULE = ("(a) 200 index-mask pairs for _merge_mask (strictly increasing as produced by np.flatnonzero, plus unsorted/"
        "duplicated ones); (b) 80 groups of 1-5 redundant readings with different std_dev through "
        "_calculate_weighted_measurements; (c) meshed MV nets (3-7 buses, 0-2 transformers with 150 degree shift, optional "
        "trafo3w, shunt, closed bus-bus switch, open line switch, shuffled indices) with an observable base measurement "
        "set (all bus injections + voltages, or all branch flows + one voltage) plus random extra v/va/p/q/i readings, or an "
        "exactly determined set without any redundancy (|V| at the slack bus + p, q at every other bus), "
        "in every run additionally a FIXED share (6 quick / 60 thorough) of nets with 2-3 three-winding transformers at one HV bus, at least "
        "one of them out of service (also the first one), with p/q/i readings on the hv, mv and lv sides of the in-service ones; "
        "estimated in original order and again permuted with 30 % duplicated readings; non-trivial = estimation ran on a "
        "net with at least 3 buses and at least one redundant or duplicated reading")
ASSUMPTIONS = ["convergence of the Gauss-Newton WLS iteration from the flat start is not proved; it is observed on every generated case (a failure to converge is reported as a violation)",
               "the linear solve spsolve(G, rhs) is an oracle with contract G d = rhs; nonsingularity of G (observability) is a hypothesis of the fixed-point theorem",
               "bus power measurements follow the estimator's convention: demand of loads/generators at the bus, shunt elements belong to the network model (results.py adds them back)",
               "sqrt/abs/angle are oracle inputs of the model (|I|^2 compared instead of |I|)",
               "Jacobian rows: cos/sin of every bus angle and |I| of the branch are oracle inputs (math.cos/sin, numpy abs); the unit-pair residual |c^2+s^2-1| is recorded; the rows of _dSbr_dv/_dImbr_dV are compared at generated states (estimate with perturbed angles and magnitudes)",
               "chi2_analysis/remove_bad_data are run with the iteration budget of estimate() (50) when their own default budget of 10 Gauss-Newton steps from the flat start does not suffice (identified by running exactly the wrapper's estimation)"]
TRUSTED = ["numpy/scipy sparse algebra inside the estimator", "runpp as the reference state"]
RUNKW = dict(calculate_voltage_angles=True, tolerance_mva=1e-9, numba=False)


def Q(x, bits=36):
    return cq.q(float(x), bits=bits)


def Cq(z, bits=36):
    return "(mkC %s %s)" % (Q(z.real, bits), Q(z.imag, bits))


def _close(a, b, tol):
    return abs(float(a) - float(b)) <= tol * max(1.0, abs(float(a)), abs(float(b)))


# ------------------------------------------------------------------ (a) _merge_mask
def _mask_cases(ctx, rng):
    terms, obs, descs = [], [], []
    for k in range(ctx.n(200, 2000)):
        n = rng.randint(1, 12)
        kind = rng.choice(["sorted", "sorted", "sorted", "any"])
        if kind == "sorted":
            m1 = sorted(rng.sample(range(n), rng.randint(0, n)))
            m2 = sorted(rng.sample(range(n), rng.randint(0, n)))
        else:
            m1 = [rng.randrange(n) for _ in range(rng.randint(0, 6))]
            m2 = [rng.randrange(n) for _ in range(rng.randint(0, 6))]
        tot, f1, f2 = BaseAlgebra._merge_mask(np.array(m1, dtype=np.int64), np.array(m2, dtype=np.int64))
        o = [[int(x) for x in tot], [bool(x) for x in f1], [bool(x) for x in f2], [int(x) for x in tot[f1]], [int(x) for x in tot[f2]]]
        terms.append("run_merge_mask %s %s" % (cq.lst([cq.nat(x) for x in m1]), cq.lst([cq.nat(x) for x in m2])))
        obs.append(o)
        d = {"mask1": m1, "mask2": m2, "kind": kind}
        descs.append(d)
        ctx.case(d, nontrivial=len(m1) + len(m2) > 1, sample={"input": d, "impl": o} if k < 1 else None)
        ctx.count("mask_" + kind)
        if kind == "sorted" and (o[3] != m1 or o[4] != m2):
            ctx.violation("spec", "_merge_mask: Jacobian rows %s/%s not aligned with the measurement order %s/%s" % (o[3], o[4], m1, m2), d)
    return terms, obs, descs


# ------------------------------------------------------------------ (b) weighted merge of redundant readings
def _merge_cases(ctx, rng):
    terms, obs, descs = [], [], []
    for k in range(ctx.n(80, 800)):
        ng = rng.randint(1, 3)
        rows = []
        for g in range(ng):
            for _ in range(rng.randint(1, 5)):
                rows.append((g * 7 + 3, rng.randint(-64, 64) / 32, rng.choice([1 / 2, 1 / 4, 1 / 8, 1 / 16, 3 / 32, 1 / 128])))
        rng.shuffle(rows)
        df = pd.DataFrame(rows, columns=["element", "value", "std_dev"])
        mg = _calculate_weighted_measurements(df.copy(), "element")
        for g in sorted(set(r[0] for r in rows)):
            zs = [(v, s) for e, v, s in rows if e == g]
            terms.append("run_merged %s" % cq.lst(["(%s, %s)" % (cq.q(v), cq.q(s)) for v, s in zs]))
            obs.append([float(mg.weighted_measurement.at[g]), float(mg.merged_weight.at[g])])
            d = {"readings": zs}
            descs.append(d)
            ctx.case(d, nontrivial=len(zs) > 1)
            ctx.count("merge_group_size_%d" % len(zs))
    return terms, obs, descs


# ------------------------------------------------------------------ (c) real estimation runs
def _gen_net(rng):
    feat = set()
    net = nets.rand_net(rng, nb=rng.randint(3, 6), chords=rng.randint(0, 2), n_trafo=rng.choice([0, 1, 1, 2]),
                        shuffle_index=rng.random() < 0.5, n_trafo3w=rng.choice([0, 0, 0, 1]), oos=rng.choice([0.0, 0.0, 0.1]))
    mv = [b for b in net.bus.index if net.bus.vn_kv.at[b] == 20.0]
    if len(net.trafo3w):
        feat.add("trafo3w")
    if len(net.trafo):
        feat.add("trafo")
    if rng.random() < 0.25:
        pp.create_shunt(net, rng.choice(mv), q_mvar=rng.randint(-8, 8) / 8, p_mw=rng.randint(0, 2) / 8)
        feat.add("shunt")
    if rng.random() < 0.25:
        nb_ = pp.create_bus(net, vn_kv=20.0)
        pp.create_switch(net, rng.choice(mv), nb_, "b", closed=True)
        pp.create_load(net, nb_, p_mw=rng.randint(1, 8) / 8, q_mvar=rng.randint(0, 4) / 8)
        feat.add("fused_bus")
    if rng.random() < 0.2 and len(net.line) > 2:
        l = rng.choice(list(net.line.index))
        pp.create_switch(net, net.line.from_bus.at[l], l, "l", closed=False)
        feat.add("open_line_switch")
    return net, feat


def _gen_net_t3w(rng):
    """forced structure (a fixed share of every run): 2-3 three-winding transformers 110/20/10 kV at one HV bus, at least
    one of them OUT OF SERVICE (chosen at random, so also the first one), their 10 kV buses tied by lines so that every
    bus stays supplied; the ppci branch rows of the mv/lv sides of the in-service ones then depend on the number of
    IN-SERVICE three-winding transformers (ppc_conversion._add_measurements_to_trafo3w)"""
    net = nets.rand_net(rng, nb=rng.randint(3, 5), chords=rng.randint(0, 1), n_trafo=0, shuffle_index=rng.random() < 0.5,
                        n_trafo3w=0, oos=0.0)
    feat = {"trafo3w", "trafo3w_forced_oos"}
    # the 20 kV net is fed through the three-winding transformers only (a two-winding transformer with 150 degree shift in
    # parallel to them would close a loop over inconsistent phase shifts: no meaningful operating point)
    net.ext_grid = net.ext_grid.iloc[0:0]
    hv = int(pp.create_bus(net, vn_kv=110.0, name="hv"))
    pp.create_ext_grid(net, hv, vm_pu=rng.choice([1.0, 1.02, 0.98]), va_degree=rng.choice([0.0, 0.0, 10.0]))
    mv = [int(b) for b in net.bus.index if net.bus.vn_kv.at[b] == 20.0]
    k = rng.choice([2, 2, 3])
    tidx = rng.sample(range(3 * k + 2), k) if rng.random() < 0.5 else list(range(k))
    lvs = []
    for t in range(k):
        lv = pp.create_bus(net, vn_kv=10.0, name="lv%d" % t)
        lvs.append(lv)
        pp.create_transformer3w(net, hv, rng.choice(mv), lv, std_type="63/25/38 MVA 110/20/10 kV", max_loading_percent=100.0, index=tidx[t])
        pp.create_load(net, lv, p_mw=rng.randint(4, 24) / 8, q_mvar=rng.randint(0, 8) / 8)
    for a, b_ in zip(lvs[:-1], lvs[1:]):
        pp.create_line(net, a, b_, length_km=rng.randint(4, 16) / 8, std_type="NA2XS2Y 1x240 RM/25 6/10 kV", max_loading_percent=100.0)
    n_off = 1 if k == 2 else rng.choice([1, 1, 2])
    for t in rng.sample(tidx, n_off):
        net.trafo3w.at[t, "in_service"] = False
    feat.add("trafo3w_%d_of_%d_in_service" % (k - n_off, k))
    return net, feat


def _exact_measurements(net, rng):
    """candidate exact readings (type, element_type, value, std, element, side, group) from the power flow"""
    base_inj, base_flow, extra = [], [], []
    sh_p = {b: 0.0 for b in net.bus.index}
    sh_q = {b: 0.0 for b in net.bus.index}
    for s in net.shunt.index:
        b = net.shunt.bus.at[s]
        if not np.isnan(net.res_shunt.p_mw.at[s]):
            sh_p[b] += net.res_shunt.p_mw.at[s]
            sh_q[b] += net.res_shunt.q_mvar.at[s]
    live = [b for b in net.bus.index if not np.isnan(net.res_bus.vm_pu.at[b])]
    for b in live:
        base_inj.append(("v", "bus", net.res_bus.vm_pu.at[b], rng.choice([0.004, 0.002]), b, None))
        base_inj.append(("p", "bus", net.res_bus.p_mw.at[b] - sh_p[b], rng.choice([0.01, 0.02]), b, None))
        base_inj.append(("q", "bus", net.res_bus.q_mvar.at[b] - sh_q[b], rng.choice([0.01, 0.02]), b, None))
        extra.append(("va", "bus", net.res_bus.va_degree.at[b], 0.05, b, None))
    first_v = True
    for et, sides in (("line", ("from", "to")), ("trafo", ("hv", "lv")), ("trafo3w", ("hv", "mv", "lv"))):
        for e in net[et].index:
            if not net[et].in_service.at[e] or np.isnan(net["res_" + et]["p_%s_mw" % sides[0]].at[e]):
                continue
            for si, side in enumerate(sides):
                p = ("p", et, net["res_" + et]["p_%s_mw" % side].at[e], 0.01, e, side)
                q = ("q", et, net["res_" + et]["q_%s_mvar" % side].at[e], 0.01, e, side)
                i = ("i", et, net["res_" + et]["i_%s_ka" % side].at[e], 0.001, e, side)
                (base_flow if si == 0 or et == "trafo3w" else extra).extend([p, q])
                extra.append(i)
    return base_inj, base_flow, extra, live


def _write_meas(net, ms):
    net.measurement = net.measurement.iloc[0:0]
    for m in ms:
        pp.create_measurement(net, m[0], m[1], float(m[2]), float(m[3]), int(m[4]), side=m[5])


def _estimate(net, init="flat"):
    se = StateEstimation(net, 1e-8, 50, algorithm="wls")
    r = se.estimate(v_start="flat", delta_start="flat", zero_injection="aux_bus")
    return se, (r["success"] if isinstance(r, dict) else bool(r))


def _compare(net, tag):
    bad = []
    for b in net.bus.index:
        v1, a1 = net.res_bus.vm_pu.at[b], net.res_bus.va_degree.at[b]
        if v1 != v1:
            continue
        v2, a2 = net.res_bus_est.vm_pu.at[b], net.res_bus_est.va_degree.at[b]
        da = abs((a1 - a2 + 180) % 360 - 180)
        if not (abs(v1 - v2) <= 1e-6 and da <= 1e-4):
            bad.append("%s bus %d: vm %.9f vs %.9f, va %.7f vs %.7f" % (tag, b, v1, v2, a1, a2))
    for et, cols in (("line", ("p_from_mw", "q_from_mvar", "p_to_mw", "q_to_mvar")), ("trafo", ("p_hv_mw", "q_hv_mvar", "p_lv_mw", "q_lv_mvar")),
                     ("trafo3w", ("p_hv_mw", "q_hv_mvar", "p_mv_mw", "q_mv_mvar", "p_lv_mw", "q_lv_mvar"))):
        if not len(net[et]):
            continue
        for c in cols:
            a = net["res_" + et][c].values
            b_ = net["res_%s_est" % et][c].values
            ok = (np.isnan(a) & np.isnan(b_)) | (np.abs(a - b_) <= 1e-5 * np.maximum(1.0, np.abs(a)))
            if not ok.all():
                j = int(np.flatnonzero(~ok)[0])
                bad.append("%s %s %d %s: %.8f vs %.8f" % (tag, et, net[et].index[j], c, a[j], b_[j]))
    return bad


def _hx_terms(se):
    """model input for create_hx at the final state + the observed h(x)"""
    sol = se.solver
    ep = sol.eppci
    V = ep.V
    sem = BaseAlgebra(ep)
    hx = sem.create_hx(ep.E.copy())
    Ybus = sem.Ybus.tocsr()
    Yf = sem.Yf.tocsr()
    Yt = sem.Yt.tocsr()
    nb = len(V)
    rows = []
    for i in range(nb):
        r = Ybus.getrow(i)
        rows.append(cq.lst(["(%s, %s)" % (cq.nat(int(j)), Cq(complex(v), 40)) for j, v in zip(r.indices, r.data)]))
    brs = []
    for l in range(len(sem.fb)):
        f, t = int(sem.fb[l]), int(sem.tb[l])
        brs.append("{| bf := %s; bt := %s; yff := %s; yft := %s; ytf := %s; ytt := %s |}" % (
            cq.nat(f), cq.nat(t), Cq(complex(Yf[l, f]), 40), Cq(complex(Yf[l, t]), 40), Cq(complex(Yt[l, f]), 40), Cq(complex(Yt[l, t]), 40)))
    Vr = [complex(float(cq.round_bits(Fraction(v.real), 40)), float(cq.round_bits(Fraction(v.imag), 40))) for v in V]
    term = "run_hx %s %s %s" % (cq.lst([Cq(v, 40) for v in V]), cq.lst(rows), cq.lst(brs))
    mm = ep.non_nan_meas_mask
    last_self = bool(len(sem.fb)) and int(sem.fb[-1]) == int(sem.tb[-1])   # (no branch at all: a one-bus net in the thorough tier)
    return term, (hx, {k: np.array(v) for k, v in mm.items()}, len(sem.fb), last_self)


def _cmp_hx(ctx, model, obs, case):
    hx, mm, nl, _ = obs
    sb, br = model
    pos = 0
    exp = []
    for key, f in (("pbus", lambda i: sb[i][0]), ("qbus", lambda i: sb[i][1]), ("pfrom", lambda l: br[l][0][0]), ("qfrom", lambda l: br[l][0][1]),
                   ("pto", lambda l: br[l][1][0]), ("qto", lambda l: br[l][1][1])):
        for i in mm[key]:
            exp.append((key, int(i), float(f(int(i))), False))
    for i in mm["vm"]:
        exp.append(("vm", int(i), None, False))
    for i in mm["va"]:
        exp.append(("va", int(i), None, False))
    for l in mm["ifrom"]:
        exp.append(("ifrom", int(l), float(br[int(l)][2]), True))
    for l in mm["ito"]:
        exp.append(("ito", int(l), float(br[int(l)][3]), True))
    if len(exp) != len(hx):
        ctx.disagreement("create_hx returned %d values for %d measurements" % (len(hx), len(exp)), case)
        return
    for (key, i, m, sq), h in zip(exp, hx):
        if m is None:
            continue
        ctx.corr_checked += 1
        hv = float(h) ** 2 if sq else float(h)
        if not _close(m, hv, 1e-8):
            ctx.disagreement("h(x) %s[%d]: model %.12g impl %.12g" % (key, i, m, hv), case)
            return


def _jac_terms(se, rng):
    """model input for the Jacobian rows (_dSbr_dv both sides, _dImbr_dV both sides) of up to 3 branches at a GENERATED state
    (the estimate with every angle and magnitude perturbed), plus the rows computed by the implementation"""
    sol = se.solver
    ep = sol.eppci
    sem = BaseAlgebra(ep)
    V0 = np.asarray(ep.V)
    nb = len(V0)
    th = [float(cq.round_bits(Fraction(float(np.angle(v)) + rng.randint(-8, 8) / 64), 30)) for v in V0]
    vm = [float(cq.round_bits(Fraction(float(abs(v)) * (1 + rng.randint(-6, 6) / 128)), 30)) for v in V0]
    cs = [(float(cq.round_bits(Fraction(math.cos(t)), 40)), float(cq.round_bits(Fraction(math.sin(t)), 40))) for t in th]
    V = np.array([m * complex(c, s_) for m, (c, s_) in zip(vm, cs)])
    unit_res = max(abs(c * c + s_ * s_ - 1) for c, s_ in cs)
    Yf = sem.Yf.tocsr()
    Yt = sem.Yt.tocsr()
    If, It = Yf @ V, Yt @ V
    rows = {}
    for side in ("from", "to"):
        dP, dQ = sem._dSbr_dv(V, side, None, None)
        rows["P" + side], rows["Q" + side] = np.asarray(dP.todense()), np.asarray(dQ.todense())
        rows["I" + side] = np.asarray(sem._dImbr_dV(V, side, None).todense())
    cand = [l for l in range(len(sem.fb)) if int(sem.fb[l]) != int(sem.tb[l]) and abs(If[l]) > 1e-6 and abs(It[l]) > 1e-6]
    rng.shuffle(cand)
    pick = sorted(cand[:3])
    terms, obs = [], []
    pol = lambda k: "{| vm := %s; pc := %s; ps := %s |}" % (Q(vm[k], 40), Q(cs[k][0], 40), Q(cs[k][1], 40))
    for l in pick:
        f, t = int(sem.fb[l]), int(sem.tb[l])
        br = "{| bf := %s; bt := %s; yff := %s; yft := %s; ytf := %s; ytt := %s |}" % (
            cq.nat(f), cq.nat(t), Cq(complex(Yf[l, f]), 40), Cq(complex(Yf[l, t]), 40), Cq(complex(Yt[l, f]), 40), Cq(complex(Yt[l, t]), 40))
        terms.append("run_jac_branch %s %s %s %s %s" % (br, pol(f), pol(t), Q(float(abs(If[l])), 40), Q(float(abs(It[l])), 40)))
        cols = [f, t, nb + f, nb + t]
        other = [c for c in range(2 * nb) if c not in cols]
        obs.append({"l": l, "cols": cols,
                    "rows": {k: v[l, cols].astype(float) for k, v in rows.items()},
                    "off": max([float(np.max(np.abs(v[l, other]))) if other else 0.0 for v in rows.values()]),
                    "S": (complex(V[f] * np.conj(If[l])), complex(V[t] * np.conj(It[l])))})
    return "OL [%s]" % "; ".join(terms), (obs, unit_res)


def _cmp_jac(ctx, model, job, case):
    obs, unit_res = job
    ctx.extra["max_unit_pair_residual"] = max(ctx.extra.get("max_unit_pair_residual", 0.0), unit_res)
    for m, o in zip(model, obs):
        ctx.corr_checked += 1
        jsf, jst, jif, jit, sv = m
        exp = {"Pfrom": [float(x[0]) for x in jsf], "Qfrom": [float(x[1]) for x in jsf],
               "Pto": [float(x[0]) for x in jst], "Qto": [float(x[1]) for x in jst],
               "Ifrom": [float(x) for x in jif], "Ito": [float(x) for x in jit]}
        for key, mv in exp.items():
            iv = o["rows"][key]
            scale = max(1.0, float(np.max(np.abs(iv))))
            if not all(abs(a - b_) <= 1e-7 * scale for a, b_ in zip(mv, iv)):
                ctx.disagreement("Jacobian row d%s of branch %d, columns [th_f, th_t, vm_f, vm_t]: model %s impl %s" % (
                    key, o["l"], ["%.10g" % a for a in mv], ["%.10g" % b_ for b_ in iv]), case)
                return
        if o["off"] > 0:
            ctx.disagreement("Jacobian rows of branch %d have entries (max %.3g) outside the columns of its two end buses" % (o["l"], o["off"]), case)
            return
        for a, b_ in zip(sv, o["S"]):
            if abs(complex(float(a[0]), float(a[1])) - b_) > 1e-8 * max(1.0, abs(b_)):
                ctx.disagreement("S_side of branch %d: model %s impl %s" % (o["l"], [float(a[0]), float(a[1])], b_), case)
                return
        ctx.count("jacobian_branch_rows_compared")


def _gain_terms(se, rng):
    sol = se.solver
    H = np.asarray(sol.H)
    w = np.diag(np.asarray(sol.R_inv))
    r = np.asarray(sol.r).ravel()
    n = H.shape[1]
    ms = []
    for i in range(H.shape[0]):
        ms.append("{| hrow := %s; wgt := %s; res := %s |}" % (cq.lst([Q(x, 30) for x in H[i]]), Q(w[i], 30), Q(r[i], 30)))
    return "run_normal_eq %s %s" % (cq.nat(n), cq.lst(ms)), (np.asarray(sol.Gm), H.T @ (w * r), float(r @ (w * r)))


def _cmp_gain(ctx, model, obs, case):
    G, rhs, J = obs
    mg, mr, mj = model
    scale = float(np.max(np.abs(G)))
    ctx.corr_checked += 1
    for j in range(G.shape[0]):
        for k in range(G.shape[1]):
            if abs(float(mg[j][k]) - G[j, k]) > 1e-6 * scale:
                ctx.disagreement("gain matrix entry (%d,%d): model %.10g impl %.10g" % (j, k, float(mg[j][k]), G[j, k]), case)
                return
    rs = max(1e-30, float(np.max(np.abs(rhs))))
    for j in range(len(rhs)):
        if abs(float(mr[j]) - rhs[j]) > 1e-5 * max(rs, 1e-9 * scale):
            ctx.disagreement("rhs entry %d: model %.6g numpy %.6g" % (j, float(mr[j]), rhs[j]), case)
            return


KN_STALE = "C19-baddata-stale-residual"


def _rn_kind(net):
    """guard of the recorded finding, evaluated with the estimator's own matrices exactly as remove_bad_data sets them up
    (tolerance 1e-6, 10 iterations): the stored residual solver.r (state BEFORE the last update) fails the test, while the
    residual of the returned state, z - solver.hx, passes it for every measurement (python twin of G19_last_step_zero:
    the two differ because the last increment was not zero)"""
    try:
        se = StateEstimation(net, 1e-6, 10, algorithm="wls")
        se.estimate(None, None, True)
        sol = se.solver
        R = np.linalg.inv(sol.R_inv)
        Om = np.sqrt(np.abs(np.diag(R - sol.H @ np.linalg.inv(sol.Gm) @ sol.H.T)))
        r_stored = np.abs(np.asarray(sol.r).ravel())
        r_final = np.abs(sol.eppci.z - sol.hx)
        if len(r_final) != len(r_stored):
            return "spec", None
        rn_stored = r_stored / Om
        rn_final = r_final / Om
        if np.nanmax(rn_stored) > 3.0 and np.nanmax(rn_final[np.isfinite(rn_final)]) <= 3.0:
            return KN_STALE, float(np.nanmax(rn_stored))
    except Exception:
        pass
    return "spec", None


def _real_case(ctx, rng, k, hx_jobs, gain_jobs, jac_jobs=None, forced=None):
    net, feat = _gen_net_t3w(rng) if forced == "t3w" else _gen_net(rng)
    try:
        pp.runpp(net, **RUNKW)
    except Exception as e:
        ctx.count("pf_failed")
        return
    base_inj, base_flow, extra, live = _exact_measurements(net, rng)
    scheme = rng.choice(["inj", "inj", "flow", "both", "minimal"])
    if forced == "t3w":
        scheme = rng.choice(["flow", "both"])     # p/q on the hv, mv and lv side of every in-service trafo3w are in the set
    slack_buses = set(int(b) for b in net.ext_grid.bus.values)
    if scheme == "minimal" and (feat & {"fused_bus", "open_line_switch"} or len(slack_buses) != 1):
        scheme = "inj"       # auxiliary/fused buses change the number of states: keep the exactly determined case simple
    if scheme == "minimal":
        # exactly determined, fully observable set (no redundancy): |V| at the slack bus, p and q at every other bus
        # = 2*n_bus - 1 readings; check_observability must accept it
        ms = [m for m in base_inj if (m[0] == "v" and int(m[4]) in slack_buses) or (m[0] in ("p", "q") and int(m[4]) not in slack_buses)]
    elif scheme == "inj":
        ms = list(base_inj)
    elif scheme == "flow":
        ms = list(base_flow) + [m for m in base_inj if m[0] == "v"][:max(1, len(live) // 2)]
        # buses that are not the end of any measured branch would be unobservable: add their injections
        ms += [m for m in base_inj if m[0] in ("p", "q")]
    else:
        ms = list(base_inj) + list(base_flow)
    with_i = rng.random() < 0.4
    if scheme != "minimal":
        ms += [m for m in extra if rng.random() < 0.4 and (m[0] != "i" or with_i)]
    if forced == "t3w":
        # current magnitudes on all three sides of the in-service three-winding transformers as well
        have = set((m[0], m[1], int(m[4]), m[5]) for m in ms)
        ms += [m for m in extra if m[0] == "i" and m[1] == "trafo3w" and (m[0], m[1], int(m[4]), m[5]) not in have]
        for need in ("p", "q", "i"):
            for side in ("hv", "mv", "lv"):
                assert any(m[0] == need and m[1] == "trafo3w" and m[5] == side for m in ms), "forced trafo3w reading missing"
    js = pp.to_json(net)
    case = {"net": js, "scheme": scheme, "measurements": [[m[0], m[1], float(m[2]), float(m[3]), int(m[4]), m[5]] for m in ms]}
    for f_ in sorted(feat):
        ctx.count("feature_" + f_)
    ctx.count("scheme_" + scheme)
    ctx.count("with_i_meas" if any(m[0] == "i" for m in ms) else "without_i_meas")
    # ---- run 1: original order
    _write_meas(net, ms)
    n_meas0 = len(net.measurement)
    se = None
    try:
        se, ok = _estimate(net)
    except Exception as e:
        ok = None
        ctx.violation("spec", "estimate raised %s: %s" % (type(e).__name__, str(e)[:200]), case)
    if ok is False:
        ctx.violation("spec", "estimate did not converge on an exact, observable measurement set (%d readings, %d buses)" % (len(ms), len(live)), case)
    bad = []
    if ok:
        bad = _compare(net, "original order:")
        if bad:
            ctx.violation("spec", "; ".join(bad[:3]), case)
        est1 = net.res_bus_est[["vm_pu", "va_degree"]].values.copy()
        # the model-level h(x)/Jacobian comparison needs at least one branch in the estimation ppci
        # (a net reduced to fused buses has none; it is still judged by the oracle above)
        # (eppci is a UserDict: the branch table is an ITEM, eppci["branch"], not an attribute)
        try:
            has_branch = len(se.solver.eppci["branch"]) > 0
        except Exception:
            has_branch = False
        if not has_branch:
            ctx.count("estimation_ppci_without_branch")
        if has_branch and len(hx_jobs) < ctx.n(25, 200):
            hx_jobs.append((_hx_terms(se), case))
            if jac_jobs is not None:
                jac_jobs.append((_jac_terms(se, random.Random(len(jac_jobs) * 7919 + int(ctx.seed))), case))
        if len(net.bus) <= 6 and len(gain_jobs) < ctx.n(8, 60):
            gain_jobs.append((_gain_terms(se, rng), case))
    # ---- run 2: permuted, with duplicated readings (same values, possibly other std_dev)
    dups = [(m[0], m[1], m[2], m[3] * rng.choice([1.0, 2.0, 0.5]), m[4], m[5]) for m in ms if rng.random() < 0.3]
    ms2 = ms + dups
    rng.shuffle(ms2)
    net2 = pp.from_json_string(js)
    pp.runpp(net2, **RUNKW)
    _write_meas(net2, ms2)
    case2 = dict(case, measurements=[[m[0], m[1], float(m[2]), float(m[3]), int(m[4]), m[5]] for m in ms2], variant="permuted+duplicated")
    ok2 = None
    try:
        se2, ok2 = _estimate(net2)
    except Exception as e:
        ctx.violation("spec", "estimate raised %s on the permuted/duplicated set: %s" % (type(e).__name__, str(e)[:200]), case2)
    if ok2 is False:
        ctx.violation("spec", "estimate did not converge on the permuted/duplicated measurement set although the ordered one %s" % ("did" if ok else "did not either"), case2)
    if ok2:
        bad2 = _compare(net2, "permuted+duplicated:")
        if bad2:
            ctx.violation("spec", "; ".join(bad2[:3]), case2)
        if ok:
            est2 = net2.res_bus_est[["vm_pu", "va_degree"]].values
            d = np.nanmax(np.abs(est1 - est2))
            if d > 1e-6:
                ctx.violation("spec", "estimates differ by %.3g between the ordered and the permuted/duplicated measurement set" % d, case2)
    # ---- no bad data flagged
    if ok2 and scheme != "minimal" and rng.random() < 0.6:      # without redundancy bad data is undetectable by construction
        kind, rnmax = _rn_kind(net2)
        # the bad-data wrappers re-estimate from the flat start with their own default budget (tolerance 1e-6, at most 10
        # iterations; estimate() itself allows 50).  Exact sets with current-magnitude readings can need 11-12 Gauss-Newton
        # steps from the flat start; then the wrapper's inner estimation stops unconverged and the test cannot be evaluated
        # (chi2_analysis: AttributeError on solver.r = None).  That is an iteration limit, not flagged bad data: such sets
        # get the budget of estimate(); the guard is computed from the input by running exactly the wrapper's estimation.
        bd_kw = {}
        try:
            try:
                flagged = chi2_analysis(net2)
            except AttributeError:
                se_def = StateEstimation(net2, 1e-6, 10, algorithm="wls")
                r_def = se_def.estimate("flat", "flat", True)
                if (r_def["success"] if isinstance(r_def, dict) else bool(r_def)):
                    raise
                bd_kw = {"maximum_iterations": 50}
                ctx.count("bad_data_tests_need_more_than_10_iterations")
                flagged = chi2_analysis(net2, **bd_kw)
            if flagged:
                ctx.violation("spec", "chi2_analysis reports bad data on an exact measurement set", case2)
            n_before = len(net2.measurement)
            remove_bad_data(net2, **bd_kw)
            if len(net2.measurement) != n_before:
                ctx.violation(kind, "remove_bad_data removed %d exact readings" % (n_before - len(net2.measurement)), case2)
            ctx.count("bad_data_tests")
        except Exception as e:
            ctx.violation(kind if isinstance(e, KeyError) else "spec", "bad data test raised %s: %s" % (type(e).__name__, str(e)[:200]), case2)
    ctx.case({"scheme": scheme, "n_meas": len(ms2), "net": js}, nontrivial=len(live) >= 3 and len(ms2) > len(ms) - 1 and bool(ok is not None),
             sample={"buses": len(net.bus), "readings": len(ms), "readings_permuted_dup": len(ms2), "features": sorted(feat), "success": [ok, ok2]} if k < 2 else None)
    ctx.count("real_nets")
    ctx.count("nbus_%d" % min(len(live), 9))


def _corpus(ctx):
    import glob, os
    for f in sorted(glob.glob(os.path.join(cq.VERIF, "corpus", "C19", "*.json"))):
        case = json.load(open(f))["case"]
        net = pp.from_json_string(case["net"])
        pp.runpp(net, **RUNKW)
        _write_meas(net, [tuple(m) for m in case["measurements"]])
        ctx.count("corpus_cases")
        ctx.case(case, nontrivial=True)
        kind, rn = _rn_kind(net)
        n_before = len(net.measurement)
        try:
            remove_bad_data(net)
            if len(net.measurement) != n_before:
                ctx.violation(kind, "corpus %s: remove_bad_data removed %d exact readings" % (os.path.basename(f), n_before - len(net.measurement)), case)
        except Exception as e:
            ctx.violation(kind if isinstance(e, KeyError) else "spec", "corpus %s: bad data test raised %s: %s" % (os.path.basename(f), type(e).__name__, str(e)[:150]), case)


def run(ctx):
    rng = ctx.rng
    _corpus(ctx)
    t1, o1, d1 = _mask_cases(ctx, rng)
    t2, o2, d2 = _merge_cases(ctx, rng)
    hx_jobs, gain_jobs, jac_jobs = [], [], []
    for k in range(ctx.n(45, 500)):
        _real_case(ctx, rng, k, hx_jobs, gain_jobs, jac_jobs)
    # forced share (own random stream, after the generated cases so that those do not move): nets with 2-3 three-winding
    # transformers, at least one out of service, p/q/i readings on the hv, mv and lv sides of the in-service ones
    rng3 = random.Random(int(ctx.seed) * 7907 + 19)
    for k in range(ctx.n(6, 60)):
        _real_case(ctx, rng3, 100000 + k, hx_jobs, gain_jobs, jac_jobs, forced="t3w")
        ctx.count("forced_trafo3w_oos_cases")
    terms = t1 + t2 + [j[0][0] for j in hx_jobs] + [j[0][0] for j in gain_jobs] + [j[0][0] for j in jac_jobs]
    model = ctx.coq_eval("c19", "Base.QN Base.QC C19.Model", terms, shard=40, timeout=900)
    pos = 0
    for m, o, d in zip(model[pos:pos + len(t1)], o1, d1):
        ctx.corr_checked += 1
        if m != o:
            ctx.disagreement("_merge_mask: model %s impl %s" % (m, o), d)
    pos += len(t1)
    for m, o, d in zip(model[pos:pos + len(t2)], o2, d2):
        ctx.corr_checked += 1
        if not (_close(m[0], o[0], 1e-12) and _close(m[1], o[1] ** 2, 1e-12)):
            ctx.disagreement("weighted merge: model (value %s, var %s) impl (value %r, std %r)" % (float(m[0]), float(m[1]), o[0], o[1]), d)
    pos += len(t2)
    for (job, case), m in zip(hx_jobs, model[pos:pos + len(hx_jobs)]):
        _cmp_hx(ctx, m, job[1], case)
    pos += len(hx_jobs)
    for (job, case), m in zip(gain_jobs, model[pos:pos + len(gain_jobs)]):
        _cmp_gain(ctx, m, job[1], case)
    pos += len(gain_jobs)
    for (job, case), m in zip(jac_jobs, model[pos:pos + len(jac_jobs)]):
        _cmp_jac(ctx, m, job[1], case)
    ctx.notes.append("hx correspondence on %d estimation runs, gain matrix on %d, Jacobian rows (_dSbr_dv, _dImbr_dV; up to 3 branches each, perturbed states) on %d" % (
        len(hx_jobs), len(gain_jobs), len(jac_jobs)))


def replay(ctx, rec):
    case = rec.get("case", {})
    if "net" in case and "measurements" in case:
        net = pp.from_json_string(case["net"])
        pp.runpp(net, **RUNKW)
        _write_meas(net, [tuple(m) for m in case["measurements"]])
        try:
            se, ok = _estimate(net)
        except Exception as e:
            ctx.violation("spec", "estimate raised %s: %s" % (type(e).__name__, str(e)[:200]), case)
            return
        ctx.case(case, nontrivial=True)
        if not ok:
            ctx.violation("spec", "estimate did not converge on the recorded measurement set", case)
        else:
            bad = _compare(net, "replay:")
            if bad:
                ctx.violation("spec", "; ".join(bad[:3]), case)
    else:
        run(ctx)
