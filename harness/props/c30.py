"""C30 — Diagnostic is side-effect free and stateless.

Correspondence: random histories of Diagnostic(add_default_functions=...), register_function and diagnose_network
calls over several instances; the calls made by diagnose_network (function object, kwargs received, ValueError exit),
diag_results/diag_errors, every instance's kwargs/_functions, object identities with the module-level defaults and
the defaults themselves are compared with C30.Model.run_ops (heap model of the repaired code).  In these histories
the `diagnostic` methods of the 18 default function objects are replaced by recorders (harness process only).
Oracle (independent of the model and of the Diagnostic class): on generated faulty networks with the real
diagnostic functions, every diagnose_network result must equal a reference evaluation that uses freshly constructed
function objects, the pristine defaults and only the instance's own registrations and this call's kwargs; the
network tables must be unchanged; the module-level defaults must be unchanged."""
import copy, json, math
import numpy as np, pandas as pd
import pandapower as pp
from pandapower.diagnostic import Diagnostic, DiagnosticFunction
from pandapower.diagnostic.diagnostic_functions import default_argument_values, default_diagnostic_functions
from vf import coqrun as cq, nets

RULE = ("histories of 4-14 operations over 1-4 Diagnostic instances (300 per quick run) (constructor flag, registrations of probe functions with "
        "None / explicit / unsatisfiable argument lists and clashing names, diagnose calls with option overrides and new options); "
        "non-trivial = at least two instances, a registration and a diagnose call on an instance other than the one registered on, "
        "or two diagnose calls on one instance with different kwargs; real-function histories on 4-7 bus nets with injected faults")
ASSUMPTIONS = ["diagnostic function objects behave as functions of (net, kwargs received) - checked by the reference evaluation with "
               "freshly constructed function objects",
               "net unchanged by diagnose_network: table snapshots on the real-function histories; for the four functions that modify the net "
               "temporarily an exhaustive scripted run (every outcome converges / expected exception / unexpected exception of every power "
               "flow, injected through the documented run= argument; crashes of create_switch inside the impedance replacement) against "
               "C30.ModelRestore"]
TRUSTED = ["recorder replacement of the `diagnostic` method on the module-level default function objects (harness process only)",
           "replacement of diagnostic_functions.create_switch by a crashing wrapper in the scripted impedance runs (harness process only)"]

K_IMP = "C30-implausible-impedance-no-restore"
IMP_TABLES = {"switch", "line", "impedance", "vsc", "line_dc", "ward", "xward", "trafo", "trafo3w"}
PRISTINE_KW = dict(default_argument_values)
PRISTINE_FN = list(default_diagnostic_functions)
KEYS = list(PRISTINE_KW) + ["extra_a", "extra_b", "numba"]


_EMPTY_NET = pp.create_empty_network()   # the recorders never touch it


def restore_defaults():
    # containers hanging on the class (not on instances) would carry state from one history into the next
    for attr in ("_functions", "_report_functions", "kwargs"):
        v = Diagnostic.__dict__.get(attr)
        if isinstance(v, list):
            del v[:]
        elif isinstance(v, dict):
            v.clear()
    default_argument_values.clear()
    default_argument_values.update(PRISTINE_KW)
    default_diagnostic_functions[:] = PRISTINE_FN


class Probe(DiagnosticFunction):
    """kind 0: returns the kwargs it received; 1: returns None; 2: raises"""

    def __init__(self, kind, log):
        super().__init__()
        self.kind, self.log = kind, log

    def diagnostic(self, net, **kwargs):
        self.log.append((id(self), dict(kwargs)))
        if self.kind == 0:
            return {"echo": sorted(kwargs.items(), key=lambda kv: kv[0])}
        if self.kind == 1:
            return None
        raise RuntimeError("probe raises")

    def report(self, error, results):
        pass


class Intern:
    def __init__(self):
        self.ids = {}

    def __call__(self, x):
        k = x if isinstance(x, str) else ("v", repr(x))
        if k not in self.ids:
            self.ids[k] = len(self.ids)
        return self.ids[k]


def gen_history(rng, n_ops):
    ops = [("new", rng.random() < 0.7)]
    ninst = 1
    probes = 0
    for _ in range(n_ops - 1):
        r = rng.random()
        if r < 0.2 and ninst < 4:
            ops.append(("new", rng.random() < 0.7))
            ninst += 1
        elif r < 0.5:
            mode = rng.random()
            if mode < 0.4:
                args = None
            elif mode < 0.85:
                args = rng.sample(KEYS, rng.randint(0, 3))
                if rng.random() < 0.15 and args:
                    args.append(args[0])
            else:
                args = ["never_provided"]
            name = rng.choice([None, "p%d" % rng.randint(0, 2), "overload"])
            ops.append(("reg", rng.randrange(ninst), probes, rng.choice([0, 0, 1, 2]), args, name))
            probes += 1
        else:
            kw = {k: rng.choice([0.5, 2, "x", 0.001]) for k in rng.sample(KEYS, rng.randint(0, 3))}
            ops.append(("diag", rng.randrange(ninst), kw))
    return ops


def nontrivial(ops):
    reg_on = {o[1] for o in ops if o[0] == "reg"}
    diag_on = [o[1] for o in ops if o[0] == "diag"]
    two = any(i not in reg_on for i in diag_on) and reg_on and len({o for o in ops if o[0] == "new"}) >= 1 and sum(1 for o in ops if o[0] == "new") >= 2
    kws = {}
    for o in ops:
        if o[0] == "diag":
            kws.setdefault(o[1], set()).add(json.dumps(o[2], sort_keys=True))
    return bool(two) or any(len(v) >= 2 for v in kws.values())


def run_history_stub(ops):
    """impl run with recorders on the default function objects; returns (observation, model term)"""
    restore_defaults()
    log = []
    saved = []
    for name, f, a in PRISTINE_FN:
        def rec(net, _f=f, **kwargs):
            log.append((id(_f), dict(kwargs)))
            return None
        saved.append((f, f.__dict__.get("diagnostic")))
        f.diagnostic = rec
    IN = Intern()
    class _Ids(dict):
        """default function objects: 0..17, probes of this history: 100+, anything else (a function object that should
        not be reachable from the instances of this history): fresh ids 1000+ - the canonical form is total"""
        def __missing__(self, key):
            self[key] = 1000 + sum(1 for v in self.values() if v >= 1000)
            return self[key]
    objid = _Ids({id(f): k for k, (n, f, a) in enumerate(PRISTINE_FN)})
    try:
        net = _EMPTY_NET
        insts, probes, events = [], {}, []
        for o in ops:
            if o[0] == "new":
                insts.append(Diagnostic(add_default_functions=o[1]))
                events.append(None)
            elif o[0] == "reg":
                _, i, pid, kind, args, name = o
                p = Probe(kind, log)
                probes[pid] = p
                objid[id(p)] = 100 + pid
                insts[i].register_function(p, None if args is None else list(args), name)
                events.append(None)
            else:
                _, i, kw = o
                del log[:]
                raised = False
                try:
                    res = insts[i].diagnose_network(net, report_style=None, **kw)
                except ValueError:
                    raised = True
                    res = None
                calls = [[objid[oid], sorted([[IN(k), IN(v)] for k, v in a.items()])] for oid, a in log]
                d = insts[i]
                events.append({"calls": calls, "raised": raised,
                               "results": sorted(d.diag_results.keys()), "errors": sorted(d.diag_errors.keys()),
                               "returned_is_results": (res is d.diag_results) if not raised else None})

        def fl(lst):
            return [[IN(n), objid[id(f)], None if a is None else [IN(x) for x in a]] for n, f, a in lst]

        def dl(d):
            return sorted([[IN(k), IN(v)] for k, v in d.items()])

        # the spec itself, independent of the model: an instance holds the pristine defaults (if asked for) followed by
        # exactly the functions registered on it, and the pristine default options
        spec_bad = []
        own = {i: [] for i in range(len(insts))}
        flags = [o[1] for o in ops if o[0] == "new"]
        for o in ops:
            if o[0] == "reg":
                own[o[1]].append(probes[o[2]])
        for i, d in enumerate(insts):
            exp = ([f for n, f, a in PRISTINE_FN] if flags[i] else []) + own[i]
            got = [f for n, f, a in d._functions]
            if [id(x) for x in exp] != [id(x) for x in got]:
                spec_bad.append("instance %d holds %d functions, expected its %d own (+defaults): foreign or missing registrations" % (
                    i, len(got), len(exp)))
            if dict(d.kwargs) != (PRISTINE_KW if flags[i] else {}):
                spec_bad.append("instance %d kwargs changed: %r" % (i, {k: v for k, v in d.kwargs.items() if PRISTINE_KW.get(k, None) != v}))
        state = {"default_kw": dl(default_argument_values), "default_fn": fl(default_diagnostic_functions),
                 "insts": [{"kw": dl(d.kwargs), "fn": fl(d._functions), "kw_is_default": d.kwargs is default_argument_values,
                            "fn_is_default": d._functions is default_diagnostic_functions} for d in insts]}
        # model input (interned)
        d0 = cq.lst(["(%s, %s)" % (cq.z(IN(k)), cq.z(IN(v))) for k, v in PRISTINE_KW.items()])

        def fn_lit(n, ob, a):
            return "{| f_name := %s; f_obj := %s; f_args := %s |}" % (
                cq.z(n), cq.z(ob), "None" if a is None else "(Some %s)" % cq.lst([cq.z(IN(x)) for x in a]))
        f0 = cq.lst([fn_lit(IN(n), k, a) for k, (n, f, a) in enumerate(PRISTINE_FN)])
        mops = []
        for o in ops:
            if o[0] == "new":
                mops.append("New %s" % cq.b(o[1]))
            elif o[0] == "reg":
                _, i, pid, kind, args, name = o
                nm = name if name is not None else "Probe"
                mops.append("Register %s %s" % (cq.nat(i), fn_lit(IN(nm), 100 + pid, args)))
            else:
                _, i, kw = o
                mops.append("Diagnose %s %s" % (cq.nat(i), cq.lst(["(%s, %s)" % (cq.z(IN(k)), cq.z(IN(v))) for k, v in kw.items()])))
        term = "run_ops %s %s %s" % (d0, f0, cq.lst(mops))
        term_old = "run_ops_old %s %s %s" % (d0, f0, cq.lst(mops))
        names = {v: k for k, v in IN.ids.items()}
        kinds = {100 + o[2]: o[3] for o in ops if o[0] == "reg"}
        return {"events": events, "state": state, "spec_bad": spec_bad}, term, term_old, names, kinds
    finally:
        for f, old in saved:
            if old is None:
                del f.__dict__["diagnostic"]
            else:
                f.diagnostic = old
        restore_defaults()


def model_view(m, names, kinds):
    """bring the parsed model output into the shape of the impl observation"""
    evs, st = m
    events = []
    for e in evs:
        if e is None:
            events.append(None)
            continue
        calls, raised = e
        res, err = {}, {}
        for n, ob, a in calls:          # results_of: fold over the calls with the probes' behaviour
            kind = kinds.get(ob, 1)     # recorders on default functions return None
            if kind == 0:
                res[names[n]] = 1
            elif kind == 2:
                err[names[n]] = 1
        events.append({"calls": [[ob, sorted([list(kv) for kv in a])] for n, ob, a in calls], "raised": raised,
                       "results": sorted(res), "errors": sorted(err), "returned_is_results": None if raised else True})
    dk, df, insts = st
    state = {"default_kw": sorted([list(kv) for kv in dk]), "default_fn": [[n, ob, a] for n, ob, a in df],
             "insts": [{"kw": sorted([list(kv) for kv in kw]), "fn": [[n, ob, a] for n, ob, a in fnl],
                        "kw_is_default": a, "fn_is_default": b} for kw, fnl, a, b in insts]}
    return {"events": events, "state": state}


# ------------------------------------------------------------------ oracle with the real functions
def snapshot(net):
    from vf import c08_snap
    return c08_snap.snapshot(net)


def faulty_net(rng):
    """small nets with the defects the diagnostic looks for; a large share does not converge as it is (so that the
    checks that experiment with scalings / switch states on the net run), scaling columns carry non-default values, and
    there are more sgens than gens"""
    net = nets.rand_net(rng, nb=rng.randint(3, 6), chords=rng.randint(0, 1), n_trafo=rng.choice([0, 1]), sgens=True)
    buses = [b for b in net.bus.index if net.bus.at[b, "vn_kv"] == 20.0]
    for _ in range(rng.randint(1, 3)):
        pp.create_sgen(net, rng.choice(buses), p_mw=rng.randint(1, 8) / 8, q_mvar=0.0, scaling=rng.choice([0.5, 0.75, 1.25]))
    if rng.random() < 0.5:
        pp.create_gen(net, rng.choice(buses[1:]), p_mw=rng.randint(1, 8) / 8, vm_pu=1.0, scaling=rng.choice([0.5, 1.0, 1.5]))
    for t in ("load", "sgen"):
        if len(net[t]):
            net[t]["scaling"] = [rng.choice([0.5, 0.75, 1.0, 1.25]) for _ in net[t].index]
    f = rng.random()
    if f < 0.15:
        b = pp.create_bus(net, 20.)          # disconnected bus with a load
        pp.create_load(net, b, 0.1, 0.0)
    elif f < 0.3:
        net.line.loc[net.line.index[0], "length_km"] = 0.0
    elif f < 0.4:
        net.bus.loc[net.bus.index[1], "vn_kv"] = 10.0
    elif f < 0.8:
        net.load["p_mw"] = net.load.p_mw * rng.choice([200.0, 400.0, 1000.0])      # far beyond what the lines can carry
    return net


def canon_res(r):
    def conv(x):
        if isinstance(x, dict):
            return {str(k): conv(v) for k, v in sorted(x.items(), key=lambda kv: str(kv[0]))}
        if isinstance(x, (list, tuple, set, frozenset)):
            items = [conv(i) for i in x]
            return sorted(items, key=lambda i: json.dumps(i, sort_keys=True, default=str)) if isinstance(x, (set, frozenset)) else items
        if isinstance(x, (np.integer,)):
            return int(x)
        if isinstance(x, (np.floating, float)):
            return None if math.isnan(float(x)) else round(float(x), 9)
        if isinstance(x, (np.bool_, bool)):
            return bool(x)
        if isinstance(x, np.ndarray):
            return conv(x.tolist())
        if isinstance(x, (pd.Index, pd.Series)):
            return conv(list(x))
        if isinstance(x, pd.DataFrame):
            return x.to_json(orient="split", default_handler=str)
        if isinstance(x, (str, int)) or x is None:
            return x
        return repr(x)[:200]
    return json.dumps(conv(r), sort_keys=True, default=str)


def reference(net, flag, own_regs, kw):
    """the spec: fresh function objects, pristine defaults, own registrations, this call's kwargs"""
    fns = ([(n, type(f)(), a) for n, f, a in PRISTINE_FN] if flag else []) + own_regs
    ck = {**(PRISTINE_KW if flag else {}), **kw}
    res, err = {}, {}
    for name, f, a in fns:
        if a is None:
            args = dict(ck)
        else:
            if any(x not in ck for x in a):
                return "ValueError", None
            args = {x: ck[x] for x in a}
        try:
            r = f.diagnostic(copy.deepcopy(net), **args)
            if r is not None:
                res[name] = r
        except Exception as e:
            err[name] = type(e).__name__
    return res, err


def real_history(ctx, rng):
    restore_defaults()
    net = faulty_net(rng)
    n_ops = rng.randint(3, 6)
    insts, flags, regs = [], [], []
    desc = {"net": pp.to_json(net), "ops": []}
    log = []
    ndiag = 0
    for k in range(n_ops):
        r = rng.random()
        if k == 0 or (r < 0.3 and len(insts) < 3):
            flag = (k == 0) or rng.random() < 0.6
            insts.append(Diagnostic(add_default_functions=flag)); flags.append(flag); regs.append([])
            desc["ops"].append(["new", flag])
        elif r < 0.5:
            i = rng.randrange(len(insts))
            kind = rng.choice([0, 0, 2])
            args = rng.choice([None, ["overload_scaling_factor"], []])
            name = rng.choice(["probe", "second_probe", None])   # (name clashes are exercised in the recorder histories; here reports are printed)
            p = Probe(kind, log)
            insts[i].register_function(p, args, name)
            regs[i].append((name if name is not None else "Probe", Probe(kind, []), args))
            desc["ops"].append(["reg", i, kind, args, name])
        else:
            i = rng.randrange(len(insts))
            kw = {}
            if rng.random() < 0.6:
                kw["overload_scaling_factor"] = rng.choice([0.001, 0.01, 0.5])
            if rng.random() < 0.4:
                kw["nominal_voltage_tolerance"] = rng.choice([0.3, 0.01, 0.9])
            if rng.random() < 0.3:
                kw["min_r_ohm"] = rng.choice([0.001, 5.0])
            desc["ops"].append(["diag", i, kw])
            snap = snapshot(net)
            style = rng.choice([None, "compact", "detailed"])
            desc["ops"][-1].append(style)
            try:
                got = insts[i].diagnose_network(net, report_style=style, warnings_only=rng.random() < 0.5, **kw)
                got_err = {n: type(e).__name__ for n, e in insts[i].diag_errors.items()}
            except ValueError:
                got, got_err = "ValueError", None
            ndiag += 1
            from vf import c08_snap
            dd = [x for x in c08_snap.diff(snap, snapshot(net), allow_new_columns=False) if x[1] != "dtype_changed"]
            # recorded finding: ImplausibleImpedanceValues replaces implausible branches by switches on the net itself and does
            # not restore the tables when its second power flow raises an exception it does not expect
            imp_err = not isinstance(got, str) and "implausible_impedance_values" in insts[i].diag_errors
            if dd:
                known = imp_err and all(t in IMP_TABLES for t, _, _ in dd)
                ctx.violation(K_IMP if known else "spec", "diagnose_network changed the element tables of the network: %s" % (dd[:3],), desc)
            ctx.count("real_base_pf_%s" % ("not_converged" if "overload" in (got if isinstance(got, dict) else {}) else "other"))
            exp, exp_err = reference(net, flags[i], regs[i], kw)
            if canon_res(got) != canon_res(exp) or got_err != exp_err:
                # (when the impedance check left the net modified, the checks after it in the same call saw another net)
                ctx.violation(K_IMP if (imp_err and dd and "implausible_impedance_values" not in (exp_err or {})) else "spec", "diagnose_network result depends on more than the network, the instance's own functions and the "
                              "arguments of the call: got results %s errors %s, reference %s / %s" % (
                                  canon_res(got)[:200], got_err, canon_res(exp)[:200], exp_err), desc)
            ctx.count("real_nonempty_result" if got not in ({}, "ValueError") else "real_empty_result")
    if dict(default_argument_values) != PRISTINE_KW or list(default_diagnostic_functions) != PRISTINE_FN:
        ctx.violation("spec", "module-level defaults were modified by using Diagnostic instances", desc)
    restore_defaults()
    desc["net"] = desc["net"][:200] + "..." if len(desc["ops"]) == 0 else desc["net"]
    ctx.case({"real": desc["ops"], "nbus": len(net.bus)}, nontrivial=ndiag >= 1 and len(insts) >= 2)
    ctx.count("real_histories")


# ------------------------------------------------------------------ the functions that modify the net temporarily
K_EXP = "C30-experiment-no-restore-on-unexpected-exception"
RESTORE_FUNS = ["overload", "line_capacitance", "switch_configuration", "impedance"]


def _restore_net(which):
    net = pp.create_empty_network()
    b = [pp.create_bus(net, 20.0) for _ in range(4)]
    pp.create_ext_grid(net, b[0])
    pp.create_line(net, b[0], b[1], 1.0, "NAYY 4x150 SE")
    pp.create_line(net, b[1], b[2], 1.0, "NAYY 4x150 SE")
    pp.create_line(net, b[2], b[3], 0.5, "NAYY 4x150 SE")
    pp.create_load(net, b[1], 0.25, 0.0625, scaling=0.75)
    pp.create_load(net, b[3], 0.125, 0.0, scaling=1.25)
    pp.create_gen(net, b[2], p_mw=0.0625, vm_pu=1.0, scaling=0.5)
    pp.create_sgen(net, b[3], p_mw=0.03125, scaling=1.5)
    pp.create_switch(net, b[1], 0, et="l", closed=True)
    pp.create_switch(net, b[2], 1, et="l", closed=False)
    if which == 3:   # two lines with implausibly small impedance: the replacement creates two bus-bus switches
        net.line.loc[1, "length_km"] = 0.0
        net.line.loc[2, "length_km"] = 0.0
    return net


def _restore_flags(before, net):
    """[load.scaling, gen.scaling, sgen.scaling, line.c_nf_per_km, switch.closed, the nine tables of the impedance experiment
    (without the two columns named before)] differ from the start"""
    def ne(a, b):
        return not (list(a.index) == list(b.index) and list(a.columns) == list(b.columns) and a.equals(b))
    imp = False
    for t in sorted(IMP_TABLES):
        drop = {"line": ["c_nf_per_km"], "switch": ["closed"]}.get(t, [])
        if ne(before[t].drop(columns=drop), net[t].drop(columns=drop)):
            imp = True
    return [not before.load.scaling.equals(net.load.scaling), not before.gen.scaling.equals(net.gen.scaling),
            not before.sgen.scaling.equals(net.sgen.scaling), not before.line.c_nf_per_km.equals(net.line.c_nf_per_km),
            not before.switch.closed.equals(net.switch.closed), imp]


def restore_cases(ctx):
    """every script of power flow outcomes (converges / expected exception / unexpected exception) for the four functions, for
    the impedance experiment also a crash in each of its table writes; through the public API with the documented `run` kwarg"""
    import itertools
    import sys
    dfm = sys.modules["pandapower.diagnostic.diagnostic_functions"]
    from pandapower.auxiliary import LoadflowNotConverged
    classes = [dfm.Overload, dfm.WrongLineCapacitance, dfm.WrongSwitchConfiguration, dfm.ImplausibleImpedanceValues]
    cases = []
    for which, nrun in ((0, 4), (1, 2), (2, 2), (3, 2)):
        for script in itertools.product("CEU", repeat=nrun):
            for crash_at in ([None] if which != 3 else [None, 0, 1]):
                cases.append((which, list(script), crash_at))
    terms, obs = [], []
    for which, script, crash_at in cases:
        net = _restore_net(which)
        before = copy.deepcopy(net)
        calls = []

        def run(n, **kw):
            calls.append(1)
            o = script[len(calls) - 1] if len(calls) <= len(script) else "C"
            if o == "E":
                raise LoadflowNotConverged("scripted")
            if o == "U":
                raise ZeroDivisionError("scripted unexpected failure of power flow #%d" % len(calls))
        made = []
        orig_cs = dfm.create_switch

        def create_switch(*a, **kw):
            if crash_at is not None and len(made) == crash_at:
                raise RuntimeError("scripted crash in table write #%d of the replacement" % crash_at)
            made.append(1)
            return orig_cs(*a, **kw)
        d = Diagnostic(add_default_functions=False)
        d.register_function(classes[which](), None, "f")
        dfm.create_switch = create_switch
        try:
            d.diagnose_network(net, report_style=None, run=run)
        finally:
            dfm.create_switch = orig_cs
        r = d.diag_results.get("f")
        if "f" in d.diag_errors:
            res = cq.Err("raised")
        elif which == 0:
            res = -1 if r is None else 2 * int(r["load"]) + int(r["generation"])
        elif which in (1, 2):
            res = -1 if r is None else int(bool(r))
        else:
            res = 1 if len(r) < 2 else (3 if r[1]["loadflow_converges_with_switch_replacement"] else 2)
        flags = _restore_flags(before, net)
        guard = all(o != "U" for o in script[1:])
        desc = {"restore": RESTORE_FUNS[which], "script": script, "crash_at_write": crash_at}
        if any(flags):
            # (the defect C30-experiment-no-restore-on-unexpected-exception - no restore when a power flow of the experiment raised
            # an unexpected exception, i.e. outside the guard - was repaired in /repo: every failure is unclassified)
            ctx.violation("spec", "diagnose_network left the network modified (%s) after the %s check" % (
                [n for n, f in zip(["load.scaling", "gen.scaling", "sgen.scaling", "line.c_nf_per_km", "switch.closed", "impedance tables"], flags) if f],
                RESTORE_FUNS[which]), desc)
        ctx.case(desc, nontrivial=("E" == script[0]))
        ctx.count("restore_" + RESTORE_FUNS[which])
        ctx.count("restore_outcome_" + ("raised" if isinstance(res, cq.Err) else "returned"))
        if not guard and which in (0, 1, 2):
            ctx.count("restore_crash_in_experiment_power_flow")      # the scripts on which the pre-repair code left the net modified
        terms.append("run_restore %d %s %s %s" % (which, cq.lst([{"C": "Conv", "E": "Exp", "U": "Unexp"}[o] for o in script]), cq.nat(2),
                                                   cq.opt(crash_at, cq.nat)))
        obs.append((desc, [flags, res, guard]))
    model = ctx.coq_eval("c30_restore", "C30.ModelRestore", terms, prelude="Open Scope Z_scope.", shard=200, timeout=600)
    for (desc, o), m in zip(obs, model):
        ctx.corr_checked += 1
        mm = [m[0], m[1], m[2]]
        same = mm[0] == o[0] and mm[2] == o[2] and (
            (isinstance(mm[1], cq.Err) and isinstance(o[1], cq.Err)) or mm[1] == o[1])
        if not same:
            ctx.disagreement("temporary modification of the net: impl [changed, result, guard] = %r / model %r" % (o, mm), desc)


# ------------------------------------------------------------------ driver
def check_histories(ctx, histories, label):
    obs, terms, aux = [], [], []
    for k, ops in enumerate(histories):
        o, term, term_old, names, kinds = run_history_stub(ops)
        obs.append(o); terms.append(term); aux.append((names, kinds))
        ctx.case(ops, nontrivial=nontrivial(ops), sample={"ops": ops, "impl": o} if k < 2 else None)
        ctx.count("histories_" + label)
        ctx.count("n_instances_%d" % sum(1 for x in ops if x[0] == "new"))
        ctx.count("diagnose_calls", sum(1 for x in ops if x[0] == "diag"))
        ctx.count("valueerror_exits", sum(1 for e in o["events"] if e and e["raised"]))
        # the spec itself on the recorded state: defaults untouched, instances own their containers
        st = o["state"]
        for w in o.pop("spec_bad")[:1]:
            ctx.violation("spec", w, ops)
        if any(i["kw_is_default"] or i["fn_is_default"] for i in st["insts"]):
            ctx.violation("spec", "an instance shares its kwargs dict / function list with the module-level defaults", ops)
    model = ctx.coq_eval("c30_" + label, "C30.Model", terms, prelude="Open Scope Z_scope.", shard=80, timeout=900)
    for ops, o, m, (names, kinds) in zip(histories, obs, model, aux):
        ctx.corr_checked += 1
        mv = model_view(m, names, kinds)
        if json.dumps(mv, sort_keys=True) != json.dumps(o, sort_keys=True):
            where = "events" if mv["events"] != o["events"] else "state"
            ctx.disagreement("%s differ: impl %s / model %s" % (where, json.dumps(o[where])[:400], json.dumps(mv[where])[:400]), ops)


def run(ctx):
    rng = ctx.rng
    import glob, os
    corpus = [json.load(open(p))["case"] for p in sorted(glob.glob(os.path.join(cq.VERIF, "corpus", "C30", "*.json")))]
    corpus = [[tuple(o) for o in c] for c in corpus]
    hist = corpus + [gen_history(rng, rng.randint(4, 14)) for _ in range(ctx.n(300, 4000))]
    check_histories(ctx, hist, "stub")
    for _ in range(ctx.n(10, 300)):
        real_history(ctx, rng)
    restore_cases(ctx)


def replay(ctx, rec):
    case = rec["case"]
    if isinstance(case, dict) and "restore" in case:
        restore_cases(ctx)
    elif isinstance(case, dict) and "real" in case:
        ctx.notes.append("real-function histories are regenerated from the seed")
        run(ctx)
    else:
        check_histories(ctx, [[tuple(o) for o in case]], "replay")
