"""C15 — parallel contingency analysis equals the sequential analysis.
Correspondence: run_contingency_parallel(n_procs=2) with the Pool replaced by an in-process pool that runs the
real worker function in a *shuffled completion order* and returns the packs in task order (the Pool.map
contract); recorded packs -> C15.Model.run_par, compared exactly with the returned dict.
Oracle: the same net through real multiprocessing (n_procs 2,3), n_procs=1 and run_contingency: all keys and
values equal."""
import math, random, hashlib
import numpy as np, pandas as pd
import pandapower as pp
from fractions import Fraction
from vf import coqrun as cq, nets
from props import c14

RULE = ("deterministic stub evaluation (values are a hash of the in_service pattern; NaN, raising outages, out-of-service "
        "elements, shuffled indices); packs recorded at the worker boundary; non-trivial = at least 2 successful packs and a "
        "masked observation; real multiprocessing runs with n_procs in {1,2,3} compared with run_contingency")
ASSUMPTIONS = ["multiprocessing.Pool.map returns results in task order (validated: real pools are run and compared)",
               "the evaluation function is deterministic in the net state (true for runpp; the stub is a hash of the state)"]
TRUSTED = ["in-process replacement of mp.Pool for the correspondence part; real mp.Pool for the oracle part"]
ET = c14.ET
_CFG = {"seed": 0, "raise_p": 0.0, "base": None, "sleep": 0.0}


def _key(net):
    return tuple(tuple(bool(x) for x in net[t].in_service.values) for t in ("line", "trafo", "trafo3w", "bus"))


def det_stub(net, **kw):
    k = _key(net)
    # the values depend on the net state AND on the options the evaluation receives
    h = int(hashlib.sha1(repr((k, _CFG["seed"], sorted((a, repr(b)) for a, b in kw.items()))).encode()).hexdigest()[:12], 16)
    r = random.Random(h)
    if _CFG["sleep"] and k != _CFG["base"] and h % 4 == 0:
        import time
        time.sleep(_CFG["sleep"])      # makes workers complete out of task order
    if k != _CFG["base"] and r.random() < _CFG["raise_p"]:
        raise RuntimeError("stub raise")
    for t in ("line", "trafo", "trafo3w"):
        if len(net[t]):
            net["res_" + t] = pd.DataFrame({"loading_percent": c14._gen_vals(r, net, t)}, index=net[t].index)
    net["res_bus"] = pd.DataFrame({"vm_pu": c14._gen_vals(r, net, "bus")}, index=net.bus.index)


class _FakePool:
    """in-process Pool: runs the tasks in a shuffled (completion) order, returns results in task order"""
    order_rng = None
    packs = None

    def __init__(self, processes=None):
        pass

    def __enter__(self):
        return self

    def __exit__(self, *a):
        return False

    def map(self, func, tasks):
        idx = list(range(len(tasks)))
        _FakePool.order_rng.shuffle(idx)
        res = [None] * len(tasks)
        for i in idx:
            res[i] = func(tasks[i])
        _FakePool.packs = res
        return res

    # the other Pool methods, with their own order contracts (an implementation that switches to one of them is
    # then aggregated in the order that method really delivers)
    def imap(self, func, tasks, chunksize=1):
        return iter(self.map(func, tasks))

    def imap_unordered(self, func, tasks, chunksize=1):
        idx = list(range(len(tasks)))
        _FakePool.order_rng.shuffle(idx)
        res = [None] * len(tasks)
        out = []
        for i in idx:
            res[i] = func(tasks[i])
            out.append(res[i])
        _FakePool.packs = out          # delivered (= completion) order
        return iter(out)

    def map_async(self, func, tasks, chunksize=None):
        r = self.map(func, tasks)

        class _R:
            def get(self, timeout=None):
                return r
        return _R()

    def starmap(self, func, tasks):
        return self.map(lambda a: func(*a), tasks)


def _opts(rng):
    call = {}
    pf0 = rng.choice([None, {"opt_a": 1}, {"opt_a": 1, "opt_b": "x"}])
    pf1 = rng.choice([None, {"opt_a": 2}, {"opt_c": True}])
    if pf0 is not None:
        call["pf_options"] = pf0
    if pf1 is not None:
        call["pf_options_nminus1"] = pf1
    call.update(rng.choice([{}, {}, {"opt_a": 7}, {"extra": 3}]))
    return call


def _mk(rng, big=False):
    if big:
        net = nets.rand_net(rng, nb=rng.randint(9, 12), chords=3, n_trafo=2, shuffle_index=rng.random() < 0.5, oos=0.1)
        return net, ["line", "trafo"], {"line": {"index": list(net.line.index)}}
    net = c14._mk_stub_net(rng)
    tabs = [t for t in ("line", "trafo", "trafo3w") if len(net[t]) > 0]
    cases = {}
    for t in rng.sample(tabs, len(tabs)):
        if rng.random() < 0.85:
            ids = list(net[t].index)
            cases[t] = {"index": rng.sample(ids, rng.randint(1, min(len(ids), 5)))}
    if not cases:
        cases = {"line": {"index": [net.line.index[0]]}}
    return net, tabs, cases


def _canon(res):
    out = {}
    for el, d in res.items():
        out[el] = {}
        for k, v in d.items():
            out[el][k] = [None if (isinstance(x, float) and math.isnan(x)) else (x if isinstance(x, (str, type(None))) else (bool(x) if isinstance(x, (bool, np.bool_)) else float(x))) for x in list(v)]
    return out


def _fr(x):
    return None if (x is None or (isinstance(x, float) and math.isnan(x))) else Fraction(float(x))


def _corr_case(ctx, rng):
    import pandapower.contingency.contingency_parallel as cp
    net, tabs, cases = _mk(rng)
    _CFG.update(seed=rng.randrange(10 ** 9), raise_p=rng.choice([0.0, 0.2, 0.4]), base=_key(net), sleep=0.0)
    call = _opts(rng)
    _FakePool.order_rng = random.Random(rng.randrange(10 ** 9))
    orig = cp.mp.Pool
    cp.mp.Pool = _FakePool
    try:
        res = cp.run_contingency_parallel(net, cases, contingency_evaluation_function=det_stub, n_procs=2, **call)
    finally:
        cp.mp.Pool = orig
    packs = _FakePool.packs
    limcol = {t: ("max_loading_percent_nminus1" if "max_loading_percent_nminus1" in net[t].columns else "max_loading_percent") for t in tabs}
    lims = {t: [float(x) for x in net[t][limcol[t]].values] for t in tabs}

    def obs(ins, v, lim):
        return "{| o_in := %s; o_val := %s; o_lim := %s |}" % (cq.b(ins), cq.oq(v), cq.oq(lim))

    def pack_term(p, tabsel):
        lab = "(%s, %s)" % (cq.nat(ET[p["case"][0]]), cq.z(p["case"][1]))
        if not p["success"]:
            return "(%s, None)" % lab
        rows = []
        for t in tabsel:
            var = "vm_pu" if t == "bus" else "loading_percent"
            L = lims[t] if t != "bus" else [float("nan")] * len(net.bus)
            ins = p.get("in_service", {}).get(t)
            if ins is None:   # pre-repair pack without the mask: the aggregation used ~isnan only
                ins = [True] * len(L)
            rows += [obs(bool(i), float(v), l) for i, v, l in zip(ins, p["res_vals"][t][var], L)]
        return "(%s, Some %s)" % (lab, cq.lst(rows))

    parts = []
    for t in tabs:
        parts.append("olist oacc (run_par %s %s)" % (cq.nat(len(net[t])), cq.lst([pack_term(p, [t]) for p in packs])))
    parts.append("run_par_out_bus %s %s" % (cq.nat(len(net.bus)), cq.lst([pack_term(p, ["bus"]) for p in packs])))
    all_labels = [(t, int(i)) for t in tabs for i in net[t].index]
    parts.append("olist (fun c => OB (causes_overloading (par_cases %s) c)) %s" % (
        cq.lst([pack_term(p, tabs) for p in packs]), cq.lst(["(%s, %s)" % (cq.nat(ET[t]), cq.z(i)) for t, i in all_labels])))
    term = "OL [" + "; ".join(parts) + "]"
    impl = []
    for t in tabs:
        r = res[t]
        n = len(net[t])
        mxs = r.get("max_loading_percent", [float("nan")] * n)
        mns = r.get("min_loading_percent", [float("nan")] * n)
        rows = []
        for j in range(n):
            ce, ci = r["cause_element"][j], int(r["cause_index"][j])
            cause = None if ce is None else [ET[ce], ci]
            if ce is None and ci != -1:
                cause = ["garbage", ci]
            rows.append([_fr(mxs[j]), _fr(mns[j]), cause])
        impl.append(rows)
    nb = len(net.bus)
    rb = res["bus"]
    impl.append([[_fr(a), _fr(b_), None] for a, b_ in zip(rb.get("max_vm_pu", [float("nan")] * nb), rb.get("min_vm_pu", [float("nan")] * nb))])
    impl.append([bool(res[t]["causes_overloading"][list(net[t].index).index(i)]) for t, i in all_labels])
    # the property itself on this input: sequential run_contingency with the same deterministic evaluation
    from pandapower.contingency import run_contingency
    seq = run_contingency(net, cases, contingency_evaluation_function=det_stub, **call)
    cpar, cseq = _canon(res), _canon(seq)
    desc = {"net": pp.to_json(net), "cases": {t: [int(i) for i in v["index"]] for t, v in cases.items()},
            "stub": {"seed": _CFG["seed"], "raise_p": _CFG["raise_p"]}, "call": {k: repr(v) for k, v in call.items()}}
    nsucc = sum(1 for p in packs if p["success"])
    small = {"tables": {t: [int(i) for i in net[t].index] for t in tabs}, "cases": desc["cases"], "stub": desc["stub"], "n_success": nsucc}
    ctx.case(small, nontrivial=nsucc >= 2, sample={"input": small, "parallel_result": cpar.get("line")} if ctx.evaluations < 2 else None)
    ctx.count("packs_success_%d" % min(nsucc, 6))
    if cpar != cseq:
        diff = [(el, k) for el in cseq for k in cseq[el] if cpar.get(el, {}).get(k) != cseq[el][k]]
        ctx.violation("spec", "run_contingency_parallel (n_procs=2, in-process pool) differs from run_contingency in %s" % diff[:4], desc)
    return term, impl, desc


def _real_pool_case(ctx, rng):
    import pandapower.contingency.contingency_parallel as cp
    from pandapower.contingency import run_contingency
    big = rng.random() < 0.5
    net, tabs, cases = _mk(rng, big=big)
    _CFG.update(seed=rng.randrange(10 ** 9), raise_p=rng.choice([0.0, 0.25]), base=_key(net), sleep=rng.choice([0.0, 0.15]))
    call = _opts(rng)
    js = pp.to_json(net)
    ref = _canon(run_contingency(pp.from_json_string(js), cases, contingency_evaluation_function=det_stub, **call))
    ctx.count("real_pool_tasks_%s" % ("9+" if big else "<9"))
    desc = {"net": js, "cases": {t: [int(i) for i in v["index"]] for t, v in cases.items()}, "stub": {"seed": _CFG["seed"], "raise_p": _CFG["raise_p"], "sleep": _CFG["sleep"]},
            "call": {k: repr(v) for k, v in call.items()}}
    for n_procs in (1, 2, 3):
        n2 = pp.from_json_string(js)
        got = _canon(cp.run_contingency_parallel(n2, cases, contingency_evaluation_function=det_stub, n_procs=n_procs, **call))
        ctx.count("real_pool_nprocs_%d" % n_procs)
        if got != ref:
            diff = [(el, k) for el in ref for k in ref[el] if got.get(el, {}).get(k) != ref[el][k]]
            ctx.violation("spec", "run_contingency_parallel(n_procs=%d) differs from run_contingency in %s" % (n_procs, diff[:4]), dict(desc, n_procs=n_procs))
        for t in tabs:
            if not (n2[t].in_service.values == net[t].in_service.values).all():
                ctx.violation("spec", "in_service of %s changed by run_contingency_parallel(n_procs=%d)" % (t, n_procs), dict(desc, n_procs=n_procs))
    ctx.case({"cases": desc["cases"], "stub": desc["stub"], "real_pool": True}, nontrivial=True)


def _real_runpp_case(ctx, rng):
    """real power flows, n_procs=2 vs sequential"""
    import pandapower.contingency.contingency_parallel as cp
    from pandapower.contingency import run_contingency
    net = nets.rand_net(rng, nb=rng.randint(4, 7), chords=rng.randint(1, 3), n_trafo=2, shuffle_index=rng.random() < 0.5, oos=0.1, sgens=False)
    cases = {"line": {"index": rng.sample(list(net.line.index), rng.randint(1, len(net.line)))}}
    js = pp.to_json(net)
    try:
        ref = _canon(run_contingency(pp.from_json_string(js), cases, numba=False))
    except Exception:
        ctx.count("real_runpp_n0_failed")
        return
    got = _canon(cp.run_contingency_parallel(pp.from_json_string(js), cases, n_procs=2, numba=False))
    ctx.count("real_runpp")
    desc = {"net": js, "cases": {"line": [int(i) for i in cases["line"]["index"]]}}
    ctx.case({"real_runpp": desc["cases"], "nb": len(net.bus)}, nontrivial=True)
    for el in ref:
        for k in ref[el]:
            a, b = ref[el][k], got.get(el, {}).get(k)
            same = b is not None and len(a) == len(b) and all((x is None and y is None) or (x is not None and y is not None and (x == y or (isinstance(x, float) and abs(x - y) < 1e-7))) for x, y in zip(a, b))
            if not same:
                ctx.violation("spec", "real runpp: parallel differs from sequential in %s.%s" % (el, k), desc)
                return


def run(ctx):
    rng = ctx.rng
    terms, impls, descs = [], [], []
    for k in range(ctx.n(120, 2500)):
        t, i, d = _corr_case(ctx, rng)
        terms.append(t)
        impls.append(i)
        descs.append(d)
    model = ctx.coq_eval("c15", "Base.QN C14.Model C15.Model", terms, shard=100)
    for d, i, m in zip(descs, impls, model):
        ctx.corr_checked += 1
        if c14._js(i) != c14._js(m):
            ctx.disagreement("parallel aggregation differs from C15.Model.run_par on the recorded packs: impl=%s model=%s" % (c14._js(i)[:300], c14._js(m)[:300]), d)
    for k in range(ctx.n(8, 150)):
        _real_pool_case(ctx, rng)
    for k in range(ctx.n(4, 80)):
        _real_runpp_case(ctx, rng)


def replay(ctx, rec):
    ctx.notes.append("replay: re-running the generators with the recorded seed reproduces the case")
    run(ctx)
