"""C15 — parallel contingency analysis equals the sequential analysis.
Correspondence: run_contingency_parallel(n_procs=2) with the Pool replaced by an in-process pool that runs the
real worker function in a *shuffled completion order* and returns the packs in task order (the Pool.map
contract); recorded packs -> C15.Model.run_par, compared exactly with the returned dict.
Chunking: run_contingency_parallel through an in-process stand-in that reproduces Pool.map's chunking (chunk size by
CPython's rule or forced, one unpickled copy of the worker function and its net PER CHUNK, chunks started in a shuffled
order on randomly assigned workers, results concatenated in task order); the packs it returns are compared exactly with
C15.Chunk.pool_map_chunked (work_copy) evaluated on the logged evaluation table, and the returned dict with the
sequential run_contingency for every (n_procs, chunk size) tried.
Oracle: the same net through real multiprocessing (n_procs 2,3), n_procs=1 and run_contingency: all keys and
values equal."""
import math, random, hashlib, pickle
import numpy as np, pandas as pd
import pandapower as pp
from fractions import Fraction
from vf import coqrun as cq, nets
from props import c14

RULE = ("deterministic stub evaluation (values are a hash of the in_service pattern; NaN, raising outages, out-of-service "
        "elements, shuffled indices); packs recorded at the worker boundary; non-trivial = at least 2 successful packs and a "
        "masked observation; chunked in-process pool with n_procs in {2,3,4} and chunk sizes {default,1,2,3,5,all} (non-trivial "
        "there = some chunk holds at least 2 tasks); real multiprocessing runs with n_procs in {1,2,3} compared with run_contingency")
ASSUMPTIONS = ["multiprocessing.Pool.map returns results in task order (validated: real pools are run and compared)",
               "the evaluation function is deterministic in the net state (true for runpp; the stub is a hash of the state)"]
TRUSTED = ["in-process replacement of mp.Pool for the correspondence part; real mp.Pool for the oracle part",
           "the chunked stand-in _ChunkPool transcribes CPython's Pool._map_async/_get_tasks/mapstar (chunk size rule, one "
           "unpickled copy of the partial and its net per chunk); that real worker processes share nothing else is validated "
           "only by the real-pool runs"]
ET = c14.ET
_CFG = {"seed": 0, "raise_p": 0.0, "base": None, "sleep": 0.0, "log": None}


def _key(net):
    return tuple(tuple(bool(x) for x in net[t].in_service.values) for t in ("line", "trafo", "trafo3w", "bus"))


def det_stub(net, **kw):
    k = _key(net)
    # the values depend on the net state AND on the options the evaluation receives
    h = int(hashlib.sha1(repr((k, _CFG["seed"], sorted((a, repr(b)) for a, b in kw.items()))).encode()).hexdigest()[:12], 16)
    r = random.Random(h)
    if _CFG["sleep"] and k != _CFG["base"] and h % 4 == 0:
        import time
        time.sleep(_CFG["sleep"])      # makes workers complete out of task order
    log = _CFG.get("log")
    if k != _CFG["base"] and r.random() < _CFG["raise_p"]:
        if log is not None:
            log.append((k, sorted(kw.items(), key=repr), None))
        raise RuntimeError("stub raise")
    allv = []
    for t in ("line", "trafo", "trafo3w"):
        if len(net[t]):
            v = c14._gen_vals(r, net, t)
            allv += v
            net["res_" + t] = pd.DataFrame({"loading_percent": v}, index=net[t].index)
    v = c14._gen_vals(r, net, "bus")
    net["res_bus"] = pd.DataFrame({"vm_pu": v}, index=net.bus.index)
    if log is not None:
        log.append((k, sorted(kw.items(), key=repr), allv + v))


class _FakePool:
    """in-process Pool: runs the tasks in a shuffled (completion) order, returns results in task order"""
    order_rng = None
    packs = None

    def __init__(self, processes=None):
        pass

    def __enter__(self):
        return self

    def __exit__(self, *a):
        return False

    def map(self, func, tasks):
        idx = list(range(len(tasks)))
        _FakePool.order_rng.shuffle(idx)
        res = [None] * len(tasks)
        for i in idx:
            res[i] = func(tasks[i])
        _FakePool.packs = res
        return res

    # the other Pool methods, with their own order contracts (an implementation that switches to one of them is
    # then aggregated in the order that method really delivers)
    def imap(self, func, tasks, chunksize=1):
        return iter(self.map(func, tasks))

    def imap_unordered(self, func, tasks, chunksize=1):
        idx = list(range(len(tasks)))
        _FakePool.order_rng.shuffle(idx)
        res = [None] * len(tasks)
        out = []
        for i in idx:
            res[i] = func(tasks[i])
            out.append(res[i])
        _FakePool.packs = out          # delivered (= completion) order
        return iter(out)

    def map_async(self, func, tasks, chunksize=None):
        r = self.map(func, tasks)

        class _R:
            def get(self, timeout=None):
                return r
        return _R()

    def starmap(self, func, tasks):
        return self.map(lambda a: func(*a), tasks)


class _ChunkPool:
    """in-process stand-in for multiprocessing.Pool that reproduces Pool.map's chunking (CPython Pool._map_async /
    _get_tasks / mapstar): the tasks are cut into consecutive chunks; every chunk is one job whose function object —
    the functools.partial holding the net — is pickled and unpickled once PER CHUNK; a chunk's tasks run in order on
    that copy; chunks are started in a shuffled order on randomly assigned workers; results come back in task order."""
    rng = None
    force_chunksize = None
    record = None

    def __init__(self, processes=None):
        self.processes = processes or 1

    def __enter__(self):
        return self

    def __exit__(self, *a):
        return False

    def map(self, func, tasks, chunksize=None):
        tasks = list(tasks)
        cs = chunksize if chunksize is not None else _ChunkPool.force_chunksize
        if cs is None:
            cs, extra = divmod(len(tasks), self.processes * 4)
            if extra:
                cs += 1
        if len(tasks) == 0:
            cs = 0
        chunks = [tasks[i:i + cs] for i in range(0, len(tasks), cs)] if cs else []
        order = list(range(len(chunks)))
        _ChunkPool.rng.shuffle(order)
        assign = [_ChunkPool.rng.randrange(self.processes) for _ in chunks]
        blob = pickle.dumps(func)
        res = {}
        for ci in order:
            f = pickle.loads(blob)            # what the worker process does with the job it takes from the queue
            res[ci] = [f(t) for t in chunks[ci]]
        out = [p for ci in range(len(chunks)) for p in res[ci]]
        _ChunkPool.record = {"chunksize": cs, "chunks": chunks, "order": order, "assign": assign, "packs": out,
                             "processes": self.processes}
        return out


def _opts(rng):
    call = {}
    pf0 = rng.choice([None, {"opt_a": 1}, {"opt_a": 1, "opt_b": "x"}])
    pf1 = rng.choice([None, {"opt_a": 2}, {"opt_c": True}])
    if pf0 is not None:
        call["pf_options"] = pf0
    if pf1 is not None:
        call["pf_options_nminus1"] = pf1
    call.update(rng.choice([{}, {}, {"opt_a": 7}, {"extra": 3}]))
    return call


def _mk(rng, big=False):
    if big:
        net = nets.rand_net(rng, nb=rng.randint(9, 12), chords=3, n_trafo=2, shuffle_index=rng.random() < 0.5, oos=0.1)
        return net, ["line", "trafo"], {"line": {"index": list(net.line.index)}}
    net = c14._mk_stub_net(rng)
    tabs = [t for t in ("line", "trafo", "trafo3w") if len(net[t]) > 0]
    cases = {}
    for t in rng.sample(tabs, len(tabs)):
        if rng.random() < 0.85:
            ids = list(net[t].index)
            cases[t] = {"index": rng.sample(ids, rng.randint(1, min(len(ids), 5)))}
    if not cases:
        cases = {"line": {"index": [net.line.index[0]]}}
    return net, tabs, cases


def _canon(res):
    out = {}
    for el, d in res.items():
        out[el] = {}
        for k, v in d.items():
            out[el][k] = [None if (isinstance(x, float) and math.isnan(x)) else (x if isinstance(x, (str, type(None))) else (bool(x) if isinstance(x, (bool, np.bool_)) else float(x))) for x in list(v)]
    return out


def _fr(x):
    return None if (x is None or (isinstance(x, float) and math.isnan(x))) else Fraction(float(x))


def _corr_case(ctx, rng):
    import pandapower.contingency.contingency_parallel as cp
    net, tabs, cases = _mk(rng)
    _CFG.update(seed=rng.randrange(10 ** 9), raise_p=rng.choice([0.0, 0.2, 0.4]), base=_key(net), sleep=0.0)
    call = _opts(rng)
    _FakePool.order_rng = random.Random(rng.randrange(10 ** 9))
    orig = cp.mp.Pool
    cp.mp.Pool = _FakePool
    try:
        res = cp.run_contingency_parallel(net, cases, contingency_evaluation_function=det_stub, n_procs=2, **call)
    finally:
        cp.mp.Pool = orig
    packs = _FakePool.packs
    limcol = {t: ("max_loading_percent_nminus1" if "max_loading_percent_nminus1" in net[t].columns else "max_loading_percent") for t in tabs}
    lims = {t: [float(x) for x in net[t][limcol[t]].values] for t in tabs}

    def obs(ins, v, lim):
        return "{| o_in := %s; o_val := %s; o_lim := %s |}" % (cq.b(ins), cq.oq(v), cq.oq(lim))

    def pack_term(p, tabsel):
        lab = "(%s, %s)" % (cq.nat(ET[p["case"][0]]), cq.z(p["case"][1]))
        if not p["success"]:
            return "(%s, None)" % lab
        rows = []
        for t in tabsel:
            var = "vm_pu" if t == "bus" else "loading_percent"
            L = lims[t] if t != "bus" else [float("nan")] * len(net.bus)
            ins = p.get("in_service", {}).get(t)
            if ins is None:   # pre-repair pack without the mask: the aggregation used ~isnan only
                ins = [True] * len(L)
            rows += [obs(bool(i), float(v), l) for i, v, l in zip(ins, p["res_vals"][t][var], L)]
        return "(%s, Some %s)" % (lab, cq.lst(rows))

    parts = []
    for t in tabs:
        parts.append("olist oacc (run_par %s %s)" % (cq.nat(len(net[t])), cq.lst([pack_term(p, [t]) for p in packs])))
    parts.append("run_par_out_bus %s %s" % (cq.nat(len(net.bus)), cq.lst([pack_term(p, ["bus"]) for p in packs])))
    all_labels = [(t, int(i)) for t in tabs for i in net[t].index]
    parts.append("olist (fun c => OB (causes_overloading (par_cases %s) c)) %s" % (
        cq.lst([pack_term(p, tabs) for p in packs]), cq.lst(["(%s, %s)" % (cq.nat(ET[t]), cq.z(i)) for t, i in all_labels])))
    term = "OL [" + "; ".join(parts) + "]"
    impl = []
    for t in tabs:
        r = res[t]
        n = len(net[t])
        mxs = r.get("max_loading_percent", [float("nan")] * n)
        mns = r.get("min_loading_percent", [float("nan")] * n)
        rows = []
        for j in range(n):
            ce, ci = r["cause_element"][j], int(r["cause_index"][j])
            cause = None if ce is None else [ET[ce], ci]
            if ce is None and ci != -1:
                cause = ["garbage", ci]
            rows.append([_fr(mxs[j]), _fr(mns[j]), cause])
        impl.append(rows)
    nb = len(net.bus)
    rb = res["bus"]
    impl.append([[_fr(a), _fr(b_), None] for a, b_ in zip(rb.get("max_vm_pu", [float("nan")] * nb), rb.get("min_vm_pu", [float("nan")] * nb))])
    impl.append([bool(res[t]["causes_overloading"][list(net[t].index).index(i)]) for t, i in all_labels])
    # the property itself on this input: sequential run_contingency with the same deterministic evaluation
    from pandapower.contingency import run_contingency
    seq = run_contingency(net, cases, contingency_evaluation_function=det_stub, **call)
    cpar, cseq = _canon(res), _canon(seq)
    desc = {"net": pp.to_json(net), "cases": {t: [int(i) for i in v["index"]] for t, v in cases.items()},
            "stub": {"seed": _CFG["seed"], "raise_p": _CFG["raise_p"]}, "call": {k: repr(v) for k, v in call.items()}}
    nsucc = sum(1 for p in packs if p["success"])
    small = {"tables": {t: [int(i) for i in net[t].index] for t in tabs}, "cases": desc["cases"], "stub": desc["stub"], "n_success": nsucc}
    ctx.case(small, nontrivial=nsucc >= 2, sample={"input": small, "parallel_result": cpar.get("line")} if ctx.evaluations < 2 else None)
    ctx.count("packs_success_%d" % min(nsucc, 6))
    if cpar != cseq:
        diff = [(el, k) for el in cseq for k in cseq[el] if cpar.get(el, {}).get(k) != cseq[el][k]]
        ctx.violation("spec", "run_contingency_parallel (n_procs=2, in-process pool) differs from run_contingency in %s" % diff[:4], desc)
    return term, impl, desc


_ROWT = ("line", "trafo", "trafo3w", "bus")      # row order of the state vector = order of _key


class _LazyJson:
    """the net as json, produced only when a case is written out"""
    def __init__(self, net):
        self.net = net

    def __str__(self):
        return pp.to_json(self.net)


def _chunk_case(ctx, rng):
    """chunked pool stand-in vs C15.Chunk.pool_map_chunked; the returned dict vs sequential run_contingency"""
    import pandapower.contingency.contingency_parallel as cp
    from pandapower.contingency import run_contingency
    net, tabs, cases = _mk(rng, big=rng.random() < 0.6)
    _CFG.update(seed=rng.randrange(10 ** 9), raise_p=rng.choice([0.0, 0.2, 0.4]), base=_key(net), sleep=0.0, log=None)
    call = _opts(rng)
    import copy
    ref = _canon(run_contingency(copy.deepcopy(net), cases, contingency_evaluation_function=det_stub, **call))
    off, k0 = {}, 0
    for t in _ROWT:
        off[t] = k0
        k0 += len(net[t])
    out = []
    for cfg in range(2):
        n_procs = rng.choice([2, 3, 4])
        n2 = copy.deepcopy(net)
        ntasks = sum(1 for t, v in cases.items() for i in v["index"] if n2[t].at[i, "in_service"])
        _ChunkPool.force_chunksize = rng.choice([None, None, 1, 2, 3, 5, max(1, ntasks)])
        _ChunkPool.rng = random.Random(rng.randrange(10 ** 9))
        _ChunkPool.record = None
        _CFG["log"] = []
        orig = cp.mp.Pool
        cp.mp.Pool = _ChunkPool
        try:
            res = cp.run_contingency_parallel(n2, cases, contingency_evaluation_function=det_stub, n_procs=n_procs, **call)
        finally:
            cp.mp.Pool = orig
            log, _CFG["log"] = _CFG["log"], None
        rec = _ChunkPool.record
        desc = {"net": _LazyJson(net), "cases": {t: [int(i) for i in v["index"]] for t, v in cases.items()}, "n_procs": n_procs,
                "stub": {"seed": _CFG["seed"], "raise_p": _CFG["raise_p"]}, "call": {k: repr(v) for k, v in call.items()},
                "chunksize": rec and rec["chunksize"], "order": rec and rec["order"], "assign": rec and rec["assign"]}
        small = {k: desc[k] for k in ("cases", "n_procs", "chunksize", "order", "assign", "stub")}
        if rec is None:
            ctx.violation("spec", "run_contingency_parallel(n_procs=%d) did not call Pool.map" % n_procs, desc)
            continue
        ctx.case(small, nontrivial=any(len(c) >= 2 for c in rec["chunks"]) and len(rec["chunks"]) >= 2)
        ctx.count("chunk_cfg_size_%s_chunks_%d" % (min(rec["chunksize"], 4), min(len(rec["chunks"]), 6)))
        got = _canon(res)
        if got != ref:
            diff = [(el, k) for el in ref for k in ref[el] if got.get(el, {}).get(k) != ref[el][k]]
            ctx.violation("spec", "run_contingency_parallel (n_procs=%d, chunks of %d, in-process chunked pool) differs from "
                          "run_contingency in %s" % (n_procs, rec["chunksize"], diff[:4]), desc)
        for t in tabs:
            if not (n2[t].in_service.values == net[t].in_service.values).all():
                ctx.violation("spec", "in_service of %s changed by run_contingency_parallel (chunked pool)" % t, desc)
        # ---- model: the evaluation function as the table of everything the real run evaluated with N-1 options
        tasks = [(t, i) for ch in rec["chunks"] for (t, i) in ch]
        nm1kw = log[0][1] if log else None
        tb, seen = [], set()
        for k, kw, vals in log[:-1]:           # the last evaluation is the N-0 one
            if kw == nm1kw and k not in seen:
                seen.add(k)
                flags = [x for part in k for x in part]
                tb.append("(%s, %s)" % (cq.lst([cq.b(x) for x in flags]),
                                        "None" if vals is None else "(Some %s)" % cq.lst([cq.oq(x) for x in vals])))
        st0 = cq.lst([cq.b(x) for part in _key(net) for x in part])
        tterm = cq.lst(["((%s, %s), %s)" % (cq.nat(ET[t]), cq.z(i), cq.nat(off[t] + list(net[t].index).index(i))) for t, i in tasks])
        term = "run_chunked_out (work_copy (ev_table %s)) false %s %s %s %s %s" % (
            cq.lst(tb), st0, cq.nat(rec["chunksize"]), cq.lst([cq.nat(a) for a in rec["assign"]]),
            cq.lst([cq.nat(a) for a in rec["order"]]), tterm)
        impl_packs = []
        for p in rec["packs"]:
            lab = [ET[p["case"][0]], int(p["case"][1])]
            if not p["success"]:
                impl_packs.append([lab, None])
            else:
                fl = [bool(x) for t in _ROWT if t in p.get("in_service", {}) for x in p["in_service"][t]]
                vs = [_fr(float(x)) for t in _ROWT if t in p["res_vals"] for x in p["res_vals"][t]["vm_pu" if t == "bus" else "loading_percent"]]
                impl_packs.append([lab, [fl, vs]])
        impl = [[[int(i) for _, i in ch] for ch in rec["chunks"]], impl_packs]
        out.append((term, impl, desc))
    return out


def _real_pool_case(ctx, rng):
    import pandapower.contingency.contingency_parallel as cp
    from pandapower.contingency import run_contingency
    big = rng.random() < 0.5
    net, tabs, cases = _mk(rng, big=big)
    _CFG.update(seed=rng.randrange(10 ** 9), raise_p=rng.choice([0.0, 0.25]), base=_key(net), sleep=rng.choice([0.0, 0.15]))
    call = _opts(rng)
    js = pp.to_json(net)
    ref = _canon(run_contingency(pp.from_json_string(js), cases, contingency_evaluation_function=det_stub, **call))
    ctx.count("real_pool_tasks_%s" % ("9+" if big else "<9"))
    desc = {"net": js, "cases": {t: [int(i) for i in v["index"]] for t, v in cases.items()}, "stub": {"seed": _CFG["seed"], "raise_p": _CFG["raise_p"], "sleep": _CFG["sleep"]},
            "call": {k: repr(v) for k, v in call.items()}}
    for n_procs in (1, 2, 3):
        n2 = pp.from_json_string(js)
        got = _canon(cp.run_contingency_parallel(n2, cases, contingency_evaluation_function=det_stub, n_procs=n_procs, **call))
        ctx.count("real_pool_nprocs_%d" % n_procs)
        if got != ref:
            diff = [(el, k) for el in ref for k in ref[el] if got.get(el, {}).get(k) != ref[el][k]]
            ctx.violation("spec", "run_contingency_parallel(n_procs=%d) differs from run_contingency in %s" % (n_procs, diff[:4]), dict(desc, n_procs=n_procs))
        for t in tabs:
            if not (n2[t].in_service.values == net[t].in_service.values).all():
                ctx.violation("spec", "in_service of %s changed by run_contingency_parallel(n_procs=%d)" % (t, n_procs), dict(desc, n_procs=n_procs))
    ctx.case({"cases": desc["cases"], "stub": desc["stub"], "real_pool": True}, nontrivial=True)


def _real_runpp_case(ctx, rng):
    """real power flows, n_procs=2 vs sequential"""
    import pandapower.contingency.contingency_parallel as cp
    from pandapower.contingency import run_contingency
    net = nets.rand_net(rng, nb=rng.randint(4, 7), chords=rng.randint(1, 3), n_trafo=2, shuffle_index=rng.random() < 0.5, oos=0.1, sgens=False)
    cases = {"line": {"index": rng.sample(list(net.line.index), rng.randint(1, len(net.line)))}}
    js = pp.to_json(net)
    try:
        ref = _canon(run_contingency(pp.from_json_string(js), cases, numba=False))
    except Exception:
        ctx.count("real_runpp_n0_failed")
        return
    got = _canon(cp.run_contingency_parallel(pp.from_json_string(js), cases, n_procs=2, numba=False))
    ctx.count("real_runpp")
    desc = {"net": js, "cases": {"line": [int(i) for i in cases["line"]["index"]]}}
    ctx.case({"real_runpp": desc["cases"], "nb": len(net.bus)}, nontrivial=True)
    for el in ref:
        for k in ref[el]:
            a, b = ref[el][k], got.get(el, {}).get(k)
            same = b is not None and len(a) == len(b) and all((x is None and y is None) or (x is not None and y is not None and (x == y or (isinstance(x, float) and abs(x - y) < 1e-7))) for x, y in zip(a, b))
            if not same:
                ctx.violation("spec", "real runpp: parallel differs from sequential in %s.%s" % (el, k), desc)
                return


def run(ctx):
    rng = ctx.rng
    terms, impls, descs = [], [], []
    for k in range(ctx.n(120, 2500)):
        t, i, d = _corr_case(ctx, rng)
        terms.append(t)
        impls.append(i)
        descs.append(d)
    chunked = []
    for k in range(ctx.n(30, 700)):
        chunked += _chunk_case(ctx, rng)
    allmodel = ctx.coq_eval("c15", "Base.QN C14.Model C15.Model C15.Chunk", terms + [c[0] for c in chunked], shard=ctx.n(100, 200))
    model, cmodel = allmodel[:len(terms)], allmodel[len(terms):]
    for d, i, m in zip(descs, impls, model):
        ctx.corr_checked += 1
        if c14._js(i) != c14._js(m):
            ctx.disagreement("parallel aggregation differs from C15.Model.run_par on the recorded packs: impl=%s model=%s" % (c14._js(i)[:300], c14._js(m)[:300]), d)
    for (term, impl, d), m in zip(chunked, cmodel):
        ctx.corr_checked += 1
        if c14._js(impl) != c14._js(m):
            what = "chunk split" if not isinstance(m, list) or c14._js(impl[0]) != c14._js(m[0]) else "worker packs"
            ctx.disagreement("chunked Pool.map (%s) differs from C15.Chunk.pool_map_chunked with the per-task-copy worker: impl=%s model=%s" % (
                what, c14._js(impl)[:400], c14._js(m)[:400]), d)
    for k in range(ctx.n(8, 150)):
        _real_pool_case(ctx, rng)
    for k in range(ctx.n(4, 80)):
        _real_runpp_case(ctx, rng)


def replay(ctx, rec):
    ctx.notes.append("replay: re-running the generators with the recorded seed reproduces the case")
    run(ctx)
