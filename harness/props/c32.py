"""C32 — characteristics interpolate through their support points.
Correspondence: Characteristic (numpy.interp) and SplineCharacteristic(interpolator_kind="Pchip") (values and node slopes)
vs C32.Model.interp / pchip / slopes, exact rational model vs float impl within 1e-11.
Oracle: pass-through at every support point (all four kinds incl. quadratic interp1d and LogSpline), results within the
neighbouring support values (linear always; Pchip / LogSpline-Pchip for monotone data), monotone over the whole range
[x_0, x_n] for monotone data (Pchip / LogSpline-Pchip; dense grid straddling every node), identical evaluation and
identical x/y data after a to_json/from_json round trip of the net (file-less string round trip and file)."""
import copy, math, os, tempfile
from fractions import Fraction
import numpy as np
import pandapower as pp
from pandapower.control.util.characteristic import Characteristic, SplineCharacteristic, LogSplineCharacteristic
from vf import coqrun as cq

RULE = ("1-8 support points, strictly increasing x on a 1/8 grid (also negative), y data increasing / decreasing / with flat "
        "segments / arbitrary on a 1/16 grid; evaluation at all support points, midpoints, random points and points beyond both "
        "ends; LogSpline on positive data (powers of 2 times small integers). non-trivial = at least 3 points and non-constant y")
ASSUMPTIONS = ["numpy.interp / scipy PchipInterpolator float rounding is covered by the tolerance 1e-11*max(1,|y|)",
               "log10 and 10** are oracles for LogSplineCharacteristic (only the composition law is proved)"]
TRUSTED = ["scipy.interpolate.interp1d (quadratic) is only checked for pass-through and round trip"]
TOL = 1e-11


def gen_points(rng, nmin=1, positive=False):
    n = rng.randint(nmin, 8)
    x0 = rng.randint(-16, 16)
    xs, x = [], x0
    for _ in range(n):
        x += rng.choice([1, 1, 2, 3, 5, 8, 20])
        xs.append(x / 8.0)
    mode = rng.choice(["inc", "dec", "flat", "any", "any", "const"])
    y = rng.randint(-32, 32)
    ys = []
    for i in range(n):
        if mode == "inc":
            y += rng.choice([1, 2, 5, 16, 40])
        elif mode == "dec":
            y -= rng.choice([1, 2, 5, 16, 40])
        elif mode == "flat":
            y += rng.choice([0, 0, 3, 10])
        elif mode == "any":
            y = rng.randint(-48, 48)
        ys.append(y / 16.0)
    if positive:
        p2 = 2.0 ** rng.randint(-3, 3)
        xs = [p2 * (i + 1) * (i + 2) / 2 for i in range(n)]
        m = min(ys)
        ys = [v - m + rng.choice([0.25, 1.0, 4.0]) for v in ys]
    return xs, ys, mode


def eval_points(rng, xs):
    pts = list(xs)
    pts += [(a + b) / 2 for a, b in zip(xs, xs[1:])]
    pts += [xs[0] - 1.0, xs[0] - 0.125, xs[-1] + 0.125, xs[-1] + 3.0]
    lo, hi = xs[0] - 1, xs[-1] + 1
    pts += [lo + (hi - lo) * rng.randint(0, 64) / 64.0 for _ in range(4)]
    return pts


def pts_term(xs, ys):
    return cq.lst(["(%s, %s)" % (cq.q(x), cq.q(y)) for x, y in zip(xs, ys)])


def close(a, b):
    return abs(float(a) - float(b)) <= TOL * max(1.0, abs(float(b)))


def monotone(ys):
    return all(a <= b for a, b in zip(ys, ys[1:])) or all(a >= b for a, b in zip(ys, ys[1:]))


def within_neighbours(xs, ys, x, v, tol):
    """v within the support values of the segment containing x (beyond the ends: the end value)"""
    if x <= xs[0]:
        lo = hi = ys[0]
    elif x >= xs[-1]:
        lo = hi = ys[-1]
    else:
        i = max(j for j in range(len(xs)) if xs[j] <= x)
        lo, hi = min(ys[i], ys[i + 1]), max(ys[i], ys[i + 1])
    return lo - tol <= v <= hi + tol


def _whole_curve_monotone(ctx, o, xs, ys, ev, scale, what, case, geometric=False):
    """monotone data: the curve is monotone on [x_0, x_n] (whole-curve theorem); checked at the evaluation points and on a
    grid with points just left and right of every node"""
    g = [x for x in ev if xs[0] <= x <= xs[-1]]
    for a, b in zip(xs, xs[1:]):
        for k in (1, 2, 5, 9, 13, 14, 15):
            g.append((a ** (1 - k / 16.0)) * (b ** (k / 16.0)) if geometric else a + (b - a) * k / 16.0)
        g.append(float(np.nextafter(a, b)))
        g.append(float(np.nextafter(b, a)))
    g = sorted(set(x for x in g if xs[0] <= x <= xs[-1]))
    vals = [float(o(x)) for x in g]
    sg = 1.0 if ys[-1] >= ys[0] else -1.0
    tol = 1e-10 * scale
    lo, hi = min(ys), max(ys)
    for (x1, v1), (x2, v2) in zip(zip(g, vals), zip(g[1:], vals[1:])):
        if sg * (v2 - v1) < -tol:
            ctx.violation("spec", "%s is not monotone on monotone data: f(%r) = %r, f(%r) = %r" % (what, x1, v1, x2, v2), case)
            return
    if vals and (min(vals) < lo - tol or max(vals) > hi + tol):
        ctx.violation("spec", "%s leaves the range of the support values on [x_0, x_n]: [%r, %r] vs [%r, %r]" % (
            what, min(vals), max(vals), lo, hi), case)


def _safe_vals(ctx, o, xs, what, rc):
    """evaluate; an exception on valid data is a violation"""
    try:
        return [float(o(x)) for x in xs]
    except Exception as e:
        ctx.violation("spec", "%s: calling the characteristic raises %s: %s" % (what, type(e).__name__, str(e)[:150]), rc)
        return None


def _twin(net, o):
    """a second object with the same data that has never been evaluated (no cached interpolator)"""
    if isinstance(o, LogSplineCharacteristic):
        return LogSplineCharacteristic(net, np.power(10.0, np.asarray(o.x_vals, dtype=float)), np.power(10.0, np.asarray(o.y_vals, dtype=float)),
                                       interpolator_kind=o.interpolator_kind, **dict(o.kwargs))
    if isinstance(o, SplineCharacteristic):
        return SplineCharacteristic(net, o.x_vals, o.y_vals, interpolator_kind=o.interpolator_kind, **dict(o.kwargs))
    return Characteristic(net, o.x_vals, o.y_vals)


def _same_data(o1, o2):
    try:
        return _same_data_raw(o1, o2)
    except Exception:                       # e.g. support data that came back as undecoded dicts
        return False


def _same_data_raw(o1, o2):
    return (np.allclose(np.asarray(o2.x_vals, dtype=float), np.asarray(o1.x_vals, dtype=float), rtol=0, atol=1e-14)
            and np.allclose(np.asarray(o2.y_vals, dtype=float), np.asarray(o1.y_vals, dtype=float), rtol=0, atol=1e-14))


def _roundtrips(ctx, rng, net, objs, it):
    """net-level (string / file) and object-level (Class.from_json(obj.to_json())) round trips of evaluated and of
    never-evaluated objects; the loaded objects are evaluated, saved and loaded once more"""
    entries = []
    for k, o, e in objs:
        kwargs0 = copy.deepcopy(getattr(o, "kwargs", None))
        tw = _twin(net, o)                                   # never evaluated before saving
        rc = {"kind": "roundtrip-" + k, "x": [float(v) for v in np.asarray(o.x_vals)], "y": [float(v) for v in np.asarray(o.y_vals)],
              "kwargs": repr(kwargs0), "eval": e}
        vals0 = _safe_vals(ctx, o, e, "%s before saving" % k, rc)
        if vals0 is None:
            continue
        if kwargs0 is not None and repr(o.kwargs) != repr(kwargs0):
            ctx.violation("spec", "%s: evaluating changed the stored interpolator arguments %r -> %r" % (k, kwargs0, o.kwargs), rc)
        entries.append((k, o, tw, e, vals0, rc))
    if it % 15 == 0:
        fd, path = tempfile.mkstemp(suffix=".json", dir=ctx.workdir); os.close(fd)
        pp.to_json(net, path); net2 = pp.from_json(path); os.remove(path)
    else:
        net2 = pp.from_json_string(pp.to_json(net))
    net3 = None
    ctx.count("roundtrips")
    for k, o, tw, e, vals0, rc in entries:
        for tag, src in (("evaluated", o), ("never evaluated", tw)):
            what = "%s (%s before saving)" % (k, tag)
            # --- net level
            o2 = net2.characteristic.object.at[src.index]
            if type(o2) is not type(src):
                ctx.violation("spec", "%s comes back as %s" % (what, type(o2).__name__), rc)
                continue
            if not _same_data(src, o2):
                ctx.violation("spec", "support data of %s changed by the JSON round trip" % what, rc)
            v2 = _safe_vals(ctx, o2, e, what + " after to_json/from_json", rc)
            if v2 is not None and not np.allclose(v2, vals0, rtol=1e-12, atol=1e-12):
                ctx.violation("spec", "%s evaluates differently after the JSON round trip: %s vs %s" % (what, v2[:4], vals0[:4]), rc)
            # --- object level
            try:
                o3 = type(src).from_json(src.to_json())
            except Exception as ex:
                ctx.violation("spec", "%s: %s.from_json(obj.to_json()) raises %s: %s" % (what, type(src).__name__, type(ex).__name__, str(ex)[:120]), rc)
                continue
            ctx.count("object_level_roundtrips")
            if type(o3) is not type(src) or not _same_data(src, o3):
                ctx.violation("spec", "%s: object-level round trip changes class or support data" % what, rc)
                continue
            v3 = _safe_vals(ctx, o3, e, what + " after obj.to_json/from_json", rc)
            if v3 is not None and not np.allclose(v3, vals0, rtol=1e-12, atol=1e-12):
                ctx.violation("spec", "%s evaluates differently after the object-level round trip: %s vs %s" % (what, v3[:4], vals0[:4]), rc)
    # second generation: the loaded (and now evaluated) objects are saved and loaded again
    if it % 6 == 0 and entries:
        net3 = pp.from_json_string(pp.to_json(net2))
        for k, o, tw, e, vals0, rc in entries:
            o4 = net3.characteristic.object.at[o.index]
            v4 = _safe_vals(ctx, o4, e, "%s after two round trips" % k, rc)
            if v4 is not None and not np.allclose(v4, vals0, rtol=1e-12, atol=1e-12):
                ctx.violation("spec", "%s evaluates differently after a second round trip: %s vs %s" % (k, v4[:4], vals0[:4]), rc)


def _one_case(ctx, rng, net, it, t_lin, k_lin, t_pc, k_pc):
        # ---------------- linear
        xs, ys, mode = gen_points(rng, 1)
        ev = eval_points(rng, xs)
        c = Characteristic(net, xs, ys)
        vals = [float(c(x)) for x in ev]
        case = {"kind": "linear", "x": xs, "y": ys, "eval": ev}
        ctx.case(case, nontrivial=len(xs) >= 3 and len(set(ys)) > 1, sample={"case": case, "impl": vals} if it < 1 else None)
        ctx.count("linear_n%d_%s" % (len(xs), mode))
        for x, y in zip(xs, ys):
            if not close(c(x), y):
                ctx.violation("spec", "Characteristic(%r) = %r, support value %r" % (x, float(c(x)), y), case)
        for x, v in zip(ev, vals):
            if not within_neighbours(xs, ys, x, v, TOL * 50):
                ctx.violation("spec", "Characteristic(%r) = %r leaves the range of the neighbouring support values" % (x, v), case)
        t_lin.append("run_interp %s %s" % (pts_term(xs, ys), cq.lst([cq.q(x) for x in ev])))
        k_lin.append((case, vals))
        # ---------------- Pchip / quadratic / log
        xs, ys, mode = gen_points(rng, 2)
        ev = eval_points(rng, xs)
        sp = SplineCharacteristic(net, xs, ys, interpolator_kind="Pchip")
        vals = [float(sp(x)) for x in ev]
        dn = [float(v) for v in sp.interpolator.derivative()(np.array(xs))]
        case = {"kind": "pchip", "x": xs, "y": ys, "eval": ev}
        ctx.case(case, nontrivial=len(xs) >= 3 and len(set(ys)) > 1)
        ctx.count("pchip_n%d_%s" % (len(xs), mode))
        scale = max(1.0, max(abs(v) for v in ys))
        for x, y in zip(xs, ys):
            if abs(float(sp(x)) - y) > 1e-10 * scale:
                ctx.violation("spec", "Pchip SplineCharacteristic(%r) = %r, support value %r" % (x, float(sp(x)), y), case)
        if monotone(ys):
            for x, v in zip(ev, vals):
                if xs[0] <= x <= xs[-1] and not within_neighbours(xs, ys, x, v, 1e-10 * scale):
                    ctx.violation("spec", "Pchip SplineCharacteristic(%r) = %r leaves the neighbouring support values (monotone data)" % (x, v), case)
        if monotone(ys) and len(xs) >= 2:
            # C32_pchip_monotone_data_monotone_curve on the real interpolator: monotone over the whole range [x_0, x_n]
            # (support points, midpoints, random points and a dense grid that straddles every node)
            _whole_curve_monotone(ctx, sp, xs, ys, ev, scale, "Pchip SplineCharacteristic", case)
            ctx.count("pchip_whole_curve_%s" % ("inc" if ys[-1] >= ys[0] else "dec"))
        if monotone(ys) and len(xs) >= 2:
            # hypotheses of C32_pchip_piece_monotone_range on the real interpolator: node slopes in [0, 3*secant] of both neighbours
            sg = 1.0 if ys[-1] >= ys[0] else -1.0
            sec = [sg * (b - a) / (xb - xa) for a, b, xa, xb in zip(ys, ys[1:], xs, xs[1:])]
            for i, d in enumerate(dn):
                nb = [sec[j] for j in (i - 1, i) if 0 <= j < len(sec)]
                if sg * d < -1e-12 or sg * d > 3 * min(nb) + 1e-9 * max(1.0, max(nb)):
                    ctx.violation("spec", "Pchip node slope %r at x=%r outside the Fritsch-Carlson box [0, 3*min secant]=%r" % (d, xs[i], 3 * min(nb)), case)
        t_pc.append("run_pchip %s %s" % (pts_term(xs, ys), cq.lst([cq.q(x) for x in ev])))
        k_pc.append((case, dn, vals))
        objs = [("linear", c, eval_points(rng, c.x_vals)), ("pchip", sp, ev)]
        if len(xs) >= 3:
            sq = SplineCharacteristic(net, xs, ys)                      # quadratic interp1d
            for x, y in zip(xs, ys):
                if abs(float(sq(x)) - y) > 1e-9 * scale:
                    ctx.violation("spec", "quadratic SplineCharacteristic(%r) = %r, support value %r" % (x, float(sq(x)), y), case)
            objs.append(("quadratic", sq, ev))
            ctx.count("quadratic")
        # log spline on positive data
        lx, ly, lmode = gen_points(rng, 3, positive=True)
        kind = rng.choice(["Pchip", "interp1d"])
        lg = LogSplineCharacteristic(net, np.array(lx), np.array(ly), interpolator_kind=kind)
        lcase = {"kind": "log-" + kind, "x": lx, "y": ly}
        ctx.case(lcase, nontrivial=len(set(ly)) > 1)
        ctx.count("log_" + kind)
        for x, y in zip(lx, ly):
            if abs(float(lg(x)) - y) > 1e-9 * max(1.0, abs(y)):
                ctx.violation("spec", "LogSplineCharacteristic(%r) = %r, support value %r" % (x, float(lg(x)), y), lcase)
        lev = lx + [math.sqrt(a * b) for a, b in zip(lx, lx[1:])]
        if kind == "Pchip" and monotone(ly):
            for x in lev:
                v = float(lg(x))
                if not within_neighbours(lx, ly, x, v, 1e-9 * max(ly)):
                    ctx.violation("spec", "LogSplineCharacteristic(%r) = %r leaves the neighbouring support values" % (x, v), lcase)
            # C32_logspline_pchip_monotone_curve on the real object
            _whole_curve_monotone(ctx, lg, lx, ly, lev, max(ly), "LogSplineCharacteristic(Pchip)", lcase, geometric=True)
            ctx.count("logspline_whole_curve")
        objs.append(("log", lg, lev))
        # non-default interpolator arguments (kept in obj.kwargs and needed again after loading)
        kw_variants = [dict(kind="linear", fill_value=(ys[0], ys[-1])), dict(kind="slinear"), dict(kind="linear", fill_value="extrapolate")]
        if len(xs) >= 4:
            kw_variants.append(dict(kind="cubic"))
        kw = rng.choice(kw_variants)
        skw = SplineCharacteristic(net, xs, ys, **kw)
        objs.append(("spline-%s" % kw["kind"] + ("-fill" if "fill_value" in kw else ""), skw, ev))
        # ---------------- serialisation round trips (every 3rd case)
        if it % 3 == 0:
            _roundtrips(ctx, rng, net, objs, it)


def run(ctx):
    rng = ctx.rng
    t_lin, k_lin, t_pc, k_pc = [], [], [], []
    net0 = pp.create_empty_network()
    n_cases = ctx.n(220, 2500)
    for it in range(n_cases):
        net = pp.create_empty_network() if it % 20 == 0 else net
        try:
            _one_case(ctx, rng, net, it, t_lin, k_lin, t_pc, k_pc)
        except Exception as e:
            import traceback
            tb = traceback.extract_tb(e.__traceback__)
            where = "; ".join("%s:%d" % (os.path.basename(f.filename), f.lineno) for f in tb[-3:])
            ctx.violation("spec", "a characteristic operation on valid data raised %s: %s (%s)" % (type(e).__name__, str(e)[:150], where),
                          {"kind": "exception", "iteration": it})
            net = pp.create_empty_network()
    m_lin = ctx.coq_eval("c32lin", "Base.QN C32.Model", t_lin, shard=80)
    for (case, vals), m in zip(k_lin, m_lin):
        ctx.corr_checked += 1
        if any(v is None for v in m) or not all(close(a, b) for a, b in zip(vals, m)):
            ctx.disagreement("numpy.interp vs model: impl %s model %s" % (vals[:6], [float(v) if v is not None else None for v in m[:6]]), case)
    m_pc = ctx.coq_eval("c32pc", "Base.QN C32.Model", t_pc, shard=40)
    for (case, dn, vals), (ms, mv) in zip(k_pc, m_pc):
        ctx.corr_checked += 1
        scale = max(1.0, max(abs(v) for v in case["y"]))
        if ms is None or len(ms) != len(dn) or not all(abs(float(a) - b) <= 1e-9 * max(1.0, abs(b)) for a, b in zip(ms, dn)):
            ctx.disagreement("Pchip node slopes: impl %s model %s" % (dn, ms and [float(v) for v in ms]), case)
        elif any(v is None for v in mv) or not all(abs(float(a) - b) <= 1e-9 * max(scale, abs(b)) for a, b in zip(mv, vals)):
            ctx.disagreement("Pchip values: impl %s model %s" % (vals[:6], [float(v) if v is not None else None for v in mv[:6]]), case)


def replay(ctx, rec):
    ctx.notes.append("replay: re-running the generators with the recorded seed reproduces the case")
    run(ctx)
