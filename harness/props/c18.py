"""C18 — short-circuit results are consistent with the IEC 60909 relations.

Correspondence: per faulted bus the columns R_EQUIV/X_EQUIV/IKSS1/SKSS/KAPPA/IP/R_EQUIV_OHM/X_EQUIV_OHM of net._ppc
and the ext_grid shunt (GS,BS) against C18.Model (square roots / exp passed as oracles); the diagonal Zbus entry the
impl uses against an exact rational solve of the impl's own Ybus (captured white-box).
The radial chain of C18.ChainModel: the model's Ybus built from the element tables through the per-unit pipeline against
the Ybus of the real run, the ohmic series formula against rk_ohm/xk_ohm, the impl's Zbus column as a solution of the model's Ybus,
the branch currents of a fault (line and transformer) against the model of _calc_branch_currents_complex; 1ph: IKSS1 and the ohmic
columns of both sequences against the model of _calc_ikss_1ph.
Oracle: the IEC relations on res_bus_sc (3ph/2ph/1ph), Kirchhoff's current law on res_line_sc/res_trafo_sc, an independently assembled
zero-sequence network, an independently assembled network of the elements' short-circuit models
(ext_grid, line with end temperature, 2W transformer with K_T, synchronous generator with K_G) for the Thevenin impedance, and metamorphic runs
(sn_mva, inverse_y, bus subsets, 2ph vs 3ph)."""
import copy, json, math, os
from fractions import Fraction as F
import numpy as np
import pandapower as pp
import pandapower.shortcircuit as sc
from vf import coqrun as cq

RULE = ("3-8 bus nets: 110 kV ext_grid (S_sc 500-5000 MVA, R/X 0.1-0.4, zero-sequence ratios x0x/r0x0), 1-2 network transformers 110/20 kV "
        "(vector groups YNyn/YNd/Dyn with vk0/vkr0/mag0/si0 data), 2-6 MV buses joined by a random tree + chords of lines (random r/x/r0/x0/c0/"
        "length/parallel/end temperature), optional second ext_grid at an MV bus, optional 20/0.4 kV transformer (Dyn/Yyn/YNyn) + LV bus, "
        "optional synchronous generator, in 40 % 2-3 current-source sgens at different MV buses; options case min/max, fault 3ph/2ph/1ph, "
        "kappa method B/C, topology auto/radial/meshed, fault impedance, inverse_y, bus subsets, sn_mva 1/100; in 60 % a second run with "
        "branch_results for one faulted bus (Kirchhoff at every bus); plus radial two-voltage-level chains ext_grid-line-transformer-line "
        "(110/20, 110/10, 20/10, 20/0.4 kV, rated transformer voltages unequal to the bus voltages, sn_mva in {0.5,1,10,37,100}); "
        "non-trivial = meshed (a chord or two infeeds) or a fault impedance or an LV bus or a chain")
ASSUMPTIONS = ["sqrt and exp are oracles passed to the rational model (math.sqrt / math.exp), residuals of s3*s3=3, s2*s2=2, zabs^2=r^2+x^2 below 1e-15",
               "numpy/scipy inverse and sparse LU are compared with an exact rational solve of the same Ybus (tolerance 1e-9 per component; for 1ph runs 1e-9 relative to |Zkk|, the zero-sequence network of an isolated MV level being purely capacitive)",
               "40 % of the nets carry 2-3 current-source sgens (sn_mva, k); for case max the ikss/2ph-ratio/1ph relations, stated without current-source contributions, are then checked on the voltage-source column IKSS1 through the model only, and the Kirchhoff check of the branch results is skipped; no motors; the independent zero-sequence network covers the vector groups Dyn, Yyn, YNd, YNyn and nets without generators",
               "branch results of 2ph/1ph faults carry magnitudes only: they are checked at faulted stub buses (one branch, no source)"]
TRUSTED = ["white-box capture of ppci['internal']['Ybus'] (positive and zero sequence) by wrapping pandapower.shortcircuit.calc_sc._calc_ybus and of the zero-sequence bus rows by wrapping _calc_ikss_1ph in the harness process",
           "independent assembly of the short-circuit networks in harness/props/c18.py (numpy complex; zero sequence in siemens with an explicit star node for YNyn)"]
TOL = 1e-8


def rel(a, b):
    return abs(a - b) / max(1e-12, abs(a), abs(b))


# ------------------------------------------------------------------ generator
def sc_net(rng, sn_mva=1.0):
    net = pp.create_empty_network(sn_mva=sn_mva)
    hv = pp.create_bus(net, vn_kv=110.0)
    pp.create_ext_grid(net, hv, s_sc_max_mva=float(rng.choice([500, 1000, 2500, 5000])), s_sc_min_mva=float(rng.choice([300, 400, 450])),
                       rx_max=rng.choice([0.1, 0.25, 0.4]), rx_min=rng.choice([0.1, 0.125, 0.35]),   # never exactly 0.3: the method-B threshold
                       x0x_max=rng.choice([1.0, 1.5, 3.0]), r0x0_max=rng.choice([0.1, 0.25]), x0x_min=rng.choice([1.0, 1.25]),
                       r0x0_min=rng.choice([0.125, 0.35]))
    nmv = rng.randint(2, 6)
    mv = [pp.create_bus(net, vn_kv=20.0) for _ in range(nmv)]
    edges = [(mv[rng.randrange(0, i)], mv[i]) for i in range(1, nmv)]
    for _ in range(rng.choice([0, 0, 1, 2])):
        if nmv > 2:
            a, b = rng.sample(mv, 2)
            if (a, b) not in edges and (b, a) not in edges:
                edges.append((a, b))
    for a, b in edges:
        pp.create_line_from_parameters(net, a, b, length_km=rng.randint(2, 40) / 8, r_ohm_per_km=rng.randint(4, 40) / 64,
                                       x_ohm_per_km=rng.randint(6, 30) / 64, c_nf_per_km=rng.choice([0, 200]), max_i_ka=0.4,
                                       parallel=rng.choice([1, 1, 2]), endtemp_degree=float(rng.choice([20, 80, 160])),
                                       r0_ohm_per_km=rng.randint(8, 80) / 64, x0_ohm_per_km=rng.randint(12, 90) / 64,
                                       c0_nf_per_km=float(rng.choice([50, 100, 150])))
    for t in range(rng.choice([1, 1, 2])):
        i = pp.create_transformer(net, hv, mv[t % nmv], std_type=rng.choice(["25 MVA 110/20 kV", "40 MVA 110/20 kV", "63 MVA 110/20 kV"]),
                                  parallel=rng.choice([1, 1, 2]))
        _zero_seq_trafo(net, rng, i, ["YNyn", "YNd", "YNyn", "Dyn"])
    if rng.random() < 0.3:
        pp.create_ext_grid(net, rng.choice(mv), s_sc_max_mva=float(rng.choice([100, 250])), s_sc_min_mva=float(rng.choice([60, 80])),
                           rx_max=0.35, rx_min=0.4, x0x_max=2.0, r0x0_max=0.2, x0x_min=1.5, r0x0_min=0.25)
    if rng.random() < 0.3:
        lv = pp.create_bus(net, vn_kv=0.4)
        i = pp.create_transformer(net, rng.choice(mv), lv, std_type=rng.choice(["0.4 MVA 20/0.4 kV", "0.63 MVA 20/0.4 kV"]))
        _zero_seq_trafo(net, rng, i, ["Dyn", "Dyn", "Yyn", "YNyn"])
    has_gen = rng.random() < 0.25
    if has_gen:
        pp.create_gen(net, rng.choice(mv), p_mw=2.0, vn_kv=rng.choice([20.0, 21.0]), sn_mva=float(rng.choice([5, 10])),
                      xdss_pu=rng.choice([0.15, 0.2]), rdss_ohm=rng.choice([0.05, 0.2]), cos_phi=0.8, pg_percent=0.0)
    for b in mv:
        if rng.random() < 0.4:
            pp.create_load(net, b, p_mw=1.0, q_mvar=0.2)
    # current sources (full converter sgens with sc data) at several buses
    if rng.random() < 0.4:
        for b in rng.sample(mv, min(len(mv), rng.randint(2, 3))):
            pp.create_sgen(net, b, p_mw=rng.randint(2, 8) * 1.0, sn_mva=float(rng.choice([4, 8, 10])), k=rng.choice([1.1, 1.3, 1.5]),
                           in_service=rng.random() < 0.9)
    meshed = len(edges) > nmv - 1 or len(net.ext_grid) > 1 or len(net.trafo[net.trafo.hv_bus == hv]) > 1 or has_gen
    return net, meshed


def _zero_seq_trafo(net, rng, i, groups):
    """zero-sequence data of transformer i (the std types carry a vector group but not all zero-sequence columns)"""
    net.trafo.loc[i, "vector_group"] = rng.choice(groups)
    net.trafo.loc[i, "vk0_percent"] = float(net.trafo.vk_percent.at[i]) * rng.choice([0.75, 1.0])
    net.trafo.loc[i, "vkr0_percent"] = float(net.trafo.vkr_percent.at[i]) * rng.choice([1.0, 1.5])
    net.trafo.loc[i, "mag0_percent"] = float(rng.choice([10, 50, 100]))
    net.trafo.loc[i, "mag0_rx"] = rng.choice([0.0, 0.25])
    net.trafo.loc[i, "si0_hv_partial"] = rng.choice([0.5, 0.75, 0.9])


def rand_opts(rng):
    o = dict(case=rng.choice(["max", "min"]), fault=rng.choice(["3ph", "3ph", "2ph", "1ph"]), kappa_method=rng.choice(["B", "C"]),
             topology=rng.choice(["auto", "radial", "meshed"]), ip=True, inverse_y=rng.random() < 0.5,
             lv_tol_percent=rng.choice([10, 6]))
    if rng.random() < 0.3:
        o["r_fault_ohm"] = rng.choice([0.0, 0.5])
        o["x_fault_ohm"] = rng.choice([0.0, 0.25])
    return o


# ------------------------------------------------------------------ white-box Ybus capture
def run_sc(net, bus=None, **o):
    import sys as _sys
    m = _sys.modules["pandapower.shortcircuit.calc_sc"]
    orig = m._calc_ybus
    box = {"Y": []}

    def wrap(ppci):
        orig(ppci)
        box["Y"].append(np.asarray(ppci["internal"]["Ybus"].todense() if hasattr(ppci["internal"]["Ybus"], "todense") else ppci["internal"]["Ybus"]))

    orig1 = m._calc_ikss_1ph

    def wrap1(net_, ppci, ppci_0, bus_idx):
        orig1(net_, ppci, ppci_0, bus_idx)
        box["ppci0_bus"] = ppci_0["bus"].copy()
        box["ppci_bus"] = ppci["bus"].copy()     # after a 1ph run net._ppc is the ZERO-sequence ppc (pd2ppc._init_ppc)

    m._calc_ybus = wrap
    m._calc_ikss_1ph = wrap1
    try:
        sc.calc_sc(net, bus=bus, **o)
    finally:
        m._calc_ybus = orig
        m._calc_ikss_1ph = orig1
    return box


def exact_diag(Y):
    """diagonal of Y^-1 by one exact Gauss-Jordan elimination over Q(i) (pairs of Fractions); None if singular"""
    n = Y.shape[0]

    def cmul(a, b):
        return (a[0] * b[0] - a[1] * b[1], a[0] * b[1] + a[1] * b[0])

    def cdiv(a, b):
        d = b[0] * b[0] + b[1] * b[1]
        return ((a[0] * b[0] + a[1] * b[1]) / d, (a[1] * b[0] - a[0] * b[1]) / d)

    def csub(a, b):
        return (a[0] - b[0], a[1] - b[1])

    Z0 = (F(0), F(0))
    A = [[(F(float(Y[i, j].real)), F(float(Y[i, j].imag))) for j in range(n)] + [(F(1 if i == j else 0), F(0)) for j in range(n)]
         for i in range(n)]
    for c in range(n):
        p = max(range(c, n), key=lambda r: abs(float(A[r][c][0])) + abs(float(A[r][c][1])))
        if A[p][c] == Z0:
            return None
        A[c], A[p] = A[p], A[c]
        for r in range(n):
            if r != c and A[r][c] != Z0:
                f = cdiv(A[r][c], A[c][c])
                A[r] = [csub(A[r][j], cmul(f, A[c][j])) if A[c][j] != Z0 else A[r][j] for j in range(2 * n)]
    out = []
    for k in range(n):
        z = cdiv(A[k][n + k], A[k][k])
        out.append(complex(float(z[0]), float(z[1])))
    return out


# ------------------------------------------------------------------ independent network of the sc models
def independent_thevenin(net, case, lv_tol_percent=10):
    """{bus: Zkk in ohm} from element data; None if the net has elements outside the scope"""
    if len(net.gen) > 1 or len(net.trafo3w) or len(net.impedance) or len(net.ward) or len(net.xward) or len(net.motor):
        return None
    sb = 7.0   # any base; deliberately unlike net.sn_mva
    idx = {b: i for i, b in enumerate(net.bus.index)}
    n = len(idx)
    Y = np.zeros((n, n), dtype=complex)
    vn = {b: float(net.bus.vn_kv.at[b]) for b in net.bus.index}

    def cfac(b, which):
        if vn[b] < 1.0:
            return (1.1 if lv_tol_percent == 10 else 1.05) if which == "max" else 0.95
        return 1.1 if which == "max" else 1.0

    for r in net.ext_grid.itertuples():
        if not r.in_service:
            continue
        z = cfac(r.bus, case) * vn[r.bus] ** 2 / getattr(r, "s_sc_%s_mva" % case)
        rx = getattr(r, "rx_%s" % case)
        x = z / math.sqrt(1 + rx * rx)
        zc = complex(rx * x, x) / (vn[r.bus] ** 2 / sb)
        Y[idx[r.bus], idx[r.bus]] += 1 / zc
    for r in net.gen.itertuples():
        # synchronous generator (no power station unit): Z_GK = K_G (R_G + j X''d), K_G = Un/UrG * cmax / (1 + x''d sin(phi))
        if not r.in_service:
            continue
        zg = complex(r.rdss_ohm, r.xdss_pu * r.vn_kv ** 2 / r.sn_mva)
        kg = vn[r.bus] / (r.vn_kv * (1 + (0.0 if r.pg_percent != r.pg_percent else r.pg_percent) / 100)) * cfac(r.bus, "max") / \
            (1 + r.xdss_pu * math.sqrt(max(0.0, 1 - r.cos_phi ** 2)))
        Y[idx[r.bus], idx[r.bus]] += 1 / (kg * zg / (vn[r.bus] ** 2 / sb))
    for r in net.line.itertuples():
        if not r.in_service:
            continue
        rr = r.r_ohm_per_km * r.length_km / r.parallel
        if case == "min":
            rr *= 1 + 0.004 * (r.endtemp_degree - 20)
        zc = complex(rr, r.x_ohm_per_km * r.length_km / r.parallel) / (vn[r.from_bus] ** 2 / sb)
        i, j = idx[r.from_bus], idx[r.to_bus]
        y = 1 / zc
        Y[i, i] += y; Y[j, j] += y; Y[i, j] -= y; Y[j, i] -= y
    for r in net.trafo.itertuples():
        if not r.in_service:
            continue
        zt = r.vk_percent / 100 * r.vn_lv_kv ** 2 / r.sn_mva          # ohm, lv side
        rt = r.vkr_percent / 100 * r.vn_lv_kv ** 2 / r.sn_mva
        xt = math.sqrt(zt * zt - rt * rt)
        xt_rel = math.sqrt(r.vk_percent ** 2 - r.vkr_percent ** 2) / 100
        kt = 0.95 * cfac(r.lv_bus, "max") / (1 + 0.6 * xt_rel)
        zc = complex(rt, xt) * kt / r.parallel / (vn[r.lv_bus] ** 2 / sb)
        ratio = (r.vn_hv_kv / vn[r.hv_bus]) / (r.vn_lv_kv / vn[r.lv_bus])
        y = 1 / zc
        i, j = idx[r.hv_bus], idx[r.lv_bus]
        Y[i, i] += y / ratio ** 2; Y[j, j] += y; Y[i, j] -= y / ratio; Y[j, i] -= y / ratio
    try:
        Z = np.linalg.inv(Y)
    except np.linalg.LinAlgError:
        return None
    return {b: Z[idx[b], idx[b]] * vn[b] ** 2 / sb for b in net.bus.index}


def independent_sources(net, case, lv_tol_percent=10):
    """{bus: admittance in siemens of the voltage sources (ext_grid, generator with K_G) connected to it}"""
    vn = {b: float(net.bus.vn_kv.at[b]) for b in net.bus.index}

    def cfac(b, which):
        if vn[b] < 1.0:
            return (1.1 if lv_tol_percent == 10 else 1.05) if which == "max" else 0.95
        return 1.1 if which == "max" else 1.0

    ys = {b: 0j for b in net.bus.index}
    for r in net.ext_grid.itertuples():
        if r.in_service:
            z = cfac(r.bus, case) * vn[r.bus] ** 2 / getattr(r, "s_sc_%s_mva" % case)
            rx = getattr(r, "rx_%s" % case)
            x = z / math.sqrt(1 + rx * rx)
            ys[r.bus] += 1 / complex(rx * x, x)
    for r in net.gen.itertuples():
        if r.in_service:
            zg = complex(r.rdss_ohm, r.xdss_pu * r.vn_kv ** 2 / r.sn_mva)
            kg = vn[r.bus] / (r.vn_kv * (1 + (0.0 if r.pg_percent != r.pg_percent else r.pg_percent) / 100)) * cfac(r.bus, "max") / \
                (1 + r.xdss_pu * math.sqrt(max(0.0, 1 - r.cos_phi ** 2)))
            ys[r.bus] += 1 / (kg * zg)
    return ys


def independent_thevenin_zero(net, case, lv_tol_percent=10):
    """{bus: zero-sequence Thevenin impedance in ohm}: nodal analysis in SIEMENS referred to the bus voltages, transformers
    as T equivalents with an explicit star node (YNyn), a grounded winding (Dyn / Yyn at lv, YNd at hv); None outside scope"""
    if len(net.gen) or len(net.trafo3w) or len(net.impedance) or len(net.ward) or len(net.xward) or len(net.motor):
        return None
    if not set(net.trafo.vector_group.values) <= {"Dyn", "YNyn", "Yyn", "YNd"}:
        return None
    idx = {b: i for i, b in enumerate(net.bus.index)}
    n = len(idx) + int((net.trafo.vector_group == "YNyn").sum())
    Y = np.zeros((n, n), dtype=complex)
    vn = {b: float(net.bus.vn_kv.at[b]) for b in net.bus.index}
    star = len(idx)

    def cfac(b, which):
        if vn[b] < 1.0:
            return (1.1 if lv_tol_percent == 10 else 1.05) if which == "max" else 0.95
        return 1.1 if which == "max" else 1.0

    def link(i, j, y, ratio=1.0):     # admittance y (on the j side) behind an ideal transformer ratio:1 at i
        Y[i, i] += y / ratio ** 2; Y[j, j] += y; Y[i, j] -= y / ratio; Y[j, i] -= y / ratio

    for r in net.ext_grid.itertuples():
        if not r.in_service:
            continue
        z = cfac(r.bus, case) * vn[r.bus] ** 2 / getattr(r, "s_sc_%s_mva" % case)
        rx = getattr(r, "rx_%s" % case)
        x0 = getattr(r, "x0x_%s" % case) * z / math.sqrt(1 + rx * rx)
        Y[idx[r.bus], idx[r.bus]] += 1 / complex(getattr(r, "r0x0_%s" % case) * x0, x0)
    for r in net.line.itertuples():
        if not r.in_service:
            continue
        rr = r.r0_ohm_per_km * r.length_km / r.parallel
        if case == "min":
            rr *= 1 + 0.004 * (r.endtemp_degree - 20)
        link(idx[r.from_bus], idx[r.to_bus], 1 / complex(rr, r.x0_ohm_per_km * r.length_km / r.parallel))
        bc = 2 * math.pi * net.f_hz * r.c0_nf_per_km * 1e-9 * r.length_km * r.parallel
        Y[idx[r.from_bus], idx[r.from_bus]] += 0.5j * bc
        Y[idx[r.to_bus], idx[r.to_bus]] += 0.5j * bc
    for r in net.trafo.itertuples():
        if not r.in_service:
            continue
        xt_rel = math.sqrt(r.vk_percent ** 2 - r.vkr_percent ** 2) / 100
        kt = 0.95 * cfac(r.lv_bus, "max") / (1 + 0.6 * xt_rel)
        vg = r.vector_group
        side_kv = r.vn_hv_kv if vg == "YNd" else r.vn_lv_kv          # the side the zero-sequence impedance is referred to
        zb = side_kv ** 2 / r.sn_mva
        zk = complex(r.vkr0_percent, math.sqrt(r.vk0_percent ** 2 - r.vkr0_percent ** 2)) / 100 * zb * kt / r.parallel
        zm_abs = r.vk0_percent / 100 * zb * r.mag0_percent            # mag0_percent is the ratio Zm0 / Zk0
        xm = zm_abs / math.sqrt(r.mag0_rx ** 2 + 1)
        zm = complex(xm * r.mag0_rx, xm) / r.parallel
        i, j = idx[r.hv_bus], idx[r.lv_bus]
        if vg == "Dyn":
            Y[j, j] += 1 / zk
        elif vg == "Yyn":
            Y[j, j] += 1 / (zk + zm)
        elif vg == "YNd":
            Y[i, i] += 1 / zk
        else:   # YNyn: hv bus -(ideal)- si0*zk - star - (1-si0)*zk - lv bus, star - zm - ground (lv referred)
            ratio = r.vn_hv_kv / r.vn_lv_kv
            link(i, star, 1 / (r.si0_hv_partial * zk), ratio)
            link(star, j, 1 / ((1 - r.si0_hv_partial) * zk))
            Y[star, star] += 1 / zm
            star += 1
    try:
        Z = np.linalg.inv(Y)
    except np.linalg.LinAlgError:
        return None
    return {b: Z[idx[b], idx[b]] for b in net.bus.index}


def crel(a, b):
    return abs(a - b) / max(1e-12, abs(a), abs(b))


def _bus_1ph(ctx, net, o, b, row, row0, res, thev, thev0, c, c_spec, vn, sn, rf, xf, terms, pend, desc, zkk, zkk0):
    """single-phase fault at bus b: IEC relation on the result table, independent positive- and zero-sequence networks,
    model of _calc_ikss_1ph"""
    from pandapower.pypower.idx_bus_sc import R_EQUIV, X_EQUIV, IKSS1, IKSS2, R_EQUIV_OHM, X_EQUIV_OHM
    s3 = math.sqrt(3.0)
    ik, rk, xk, rk0, xk0 = (float(res.at[b, x]) for x in ("ikss_ka", "rk_ohm", "xk_ohm", "rk0_ohm", "xk0_ohm"))
    cs = o["case"] == "max" and bool(len(net.sgen)) and bool(net.sgen.in_service.any())
    z1, z0 = complex(rk, xk), complex(rk0, xk0)
    bad = []
    if not (math.isfinite(rk0) and math.isfinite(xk0)):
        ctx.count("1ph_infinite_z0")
        return
    exp_ik = s3 * c_spec * vn / abs(2 * z1 + z0)
    if not cs and rel(ik, exp_ik) > TOL:
        bad.append("1ph ikss_ka=%r but sqrt3*c*Un/|2 Zk + Z0k| = %r" % (ik, exp_ik))
    if thev is not None:
        zi = thev[b] + complex(rf, xf)
        if crel(zi, z1) > 1e-7:
            bad.append("1ph: positive-sequence Thevenin impedance %r ohm, independently assembled network gives %r" % (z1, zi))
        else:
            ctx.count("independent_thevenin_ok")
    if thev0 is not None:
        zi0 = thev0[b] + complex(rf, xf)
        if crel(zi0, z0) > 1e-7:
            bad.append("1ph: zero-sequence Thevenin impedance %r ohm, independently assembled network gives %r" % (z0, zi0))
        else:
            ctx.count("independent_zero_sequence_ok")
    for w in bad:
        ctx.violation("spec", "bus %d: %s" % (b, w), desc)
    if row0 is not None:
        a1 = complex(float(row[R_EQUIV]), float(row[X_EQUIV]))
        a0 = complex(float(row0[R_EQUIV]), float(row0[X_EQUIV]))
        terms.append("run_1ph %s (mkC %s %s) (mkC %s %s) %s %s %s %s" % (
            cq.q(c), cq.q(a1.real), cq.q(a1.imag), cq.q(a0.real), cq.q(a0.imag), cq.q(abs(2 * a1 + a0)), cq.q(vn), cq.q(sn), cq.q(s3)))
        pend.append(("1ph bus columns", [float(row0[IKSS1]), [float(row[R_EQUIV_OHM]), float(row[X_EQUIV_OHM])],
                                         [float(row0[R_EQUIV_OHM]), float(row0[X_EQUIV_OHM])]], desc))
        for what, zz, aa in (("positive", zkk, a1), ("zero", zkk0, a0)):
            if zz is not None:
                terms.append("run_rx %s %s %s %s %s %s" % (cq.q(zz.real), cq.q(zz.imag), cq.q(rf), cq.q(xf), cq.q(vn), cq.q(sn)))
                # tolerance relative to |Zkk| (a capacitively grounded zero-sequence network has |R| << |X|)
                pend.append(("1ph %s-sequence R_EQUIV/X_EQUIV from the exact inverse of the impl's Ybus" % what, [aa.real, aa.imag], desc,
                             1e-9 * abs(aa)))



# ------------------------------------------------------------------ radial two-voltage-level chain (C18/ChainModel.v)
def chain_net(rng, sn_mva):
    """ext_grid - line - transformer (K_T) - line; dyadic data, rated transformer voltages unequal to the bus voltages"""
    vhv = rng.choice([110.0, 20.0])
    vlv = rng.choice([20.0, 10.0]) if vhv == 110.0 else rng.choice([10.0, 0.4])
    net = pp.create_empty_network(sn_mva=sn_mva)
    b = [pp.create_bus(net, vn_kv=v) for v in (vhv, vhv, vlv, vlv)]
    pp.create_ext_grid(net, b[0], s_sc_max_mva=float(rng.choice([250, 1000, 4000])), s_sc_min_mva=float(rng.choice([100, 200])),
                       rx_max=rng.choice([0.125, 0.25, 0.75]), rx_min=rng.choice([0.25, 0.5]))
    for f, t in ((0, 1), (2, 3)):
        pp.create_line_from_parameters(net, b[f], b[t], length_km=rng.randint(2, 40) / 8, r_ohm_per_km=rng.randint(4, 40) / 64,
                                       x_ohm_per_km=rng.randint(6, 30) / 64, c_nf_per_km=rng.choice([0, 200]), max_i_ka=0.4,
                                       parallel=rng.choice([1, 1, 2]), endtemp_degree=float(rng.choice([20, 80, 160])))
    pp.create_transformer_from_parameters(net, b[1], b[2], sn_mva=float(rng.choice([0.63, 16, 25, 40])),
                                          vn_hv_kv=vhv * rng.choice([1.0, 1.0, 1.05, 0.975]), vn_lv_kv=vlv * rng.choice([1.0, 1.05, 1.025]),
                                          vk_percent=rng.choice([6.0, 10.0, 12.5]), vkr_percent=rng.choice([0.25, 0.5, 1.0]),
                                          pfe_kw=10.0, i0_percent=0.1, parallel=rng.choice([1, 1, 2]))
    return net


def chain_terms(net, o, ppc):
    """Gallina terms of the chain (element data + oracles) for the base ppc['baseMVA']"""
    from pandapower.pypower.idx_bus_sc import C_MAX, C_MIN
    bl = net._pd2ppc_lookups["bus"]

    def dq(x):       # decimal inputs (1.1, 115.5, 0.63 ...) as short rationals; the float differs by < 1e-15 relative
        return cq.q(F(repr(round(float(x), 12))))

    def oq(x):       # square-root oracles rounded to 40 bits (relative error 1e-12)
        return cq.q(x, bits=40)

    sn = float(ppc["baseMVA"])
    case = o["case"]
    eg = net.ext_grid.iloc[0]
    c = float(ppc["bus"][bl[eg.bus], C_MAX if case == "max" else C_MIN])
    rx = float(eg["rx_%s" % case])

    def line(i):
        r = net.line.iloc[i]
        kt = 1 + 0.004 * (float(r.endtemp_degree) - 20) if case == "min" else 1.0
        return "{| l_r := %s; l_x := %s; l_len := %s; l_par := %s; l_ktemp := %s |}" % (
            dq(float(r.r_ohm_per_km)), dq(float(r.x_ohm_per_km)), dq(float(r.length_km)), dq(float(r.parallel)), dq(kt))

    t = net.trafo.iloc[0]
    vhv, vlv = float(net.bus.vn_kv.iloc[0]), float(net.bus.vn_kv.iloc[3])
    cmax = float(ppc["bus"][bl[t.lv_bus], C_MAX])
    tap_lv = (float(t.vn_lv_kv) / vlv) ** 2 * sn
    z_sc = float(t.vk_percent) / 100. / float(t.sn_mva) * tap_lv
    r_sc = float(t.vkr_percent) / 100. / float(t.sn_mva) * tap_lv
    zt, rt = float(t.vk_percent) / 100 / float(t.sn_mva), float(t.vkr_percent) / 100 / float(t.sn_mva)
    orc = "{| o_sq := %s; o_xsc := %s; o_xt := %s |}" % (oq(math.sqrt(rx * rx + 1)), oq(math.sqrt(z_sc ** 2 - r_sc ** 2)),
                                                      oq(math.sqrt(zt ** 2 - rt ** 2)))
    n = ("{| ch_eg := {| eg_c := %s; eg_ssc := %s; eg_rx := %s |}; ch_l1 := %s; "
         "ch_t := {| t_sn := %s; t_vnh := %s; t_vnl := %s; t_vk := %s; t_vkr := %s; t_par := %s; t_cmax := %s |}; ch_l2 := %s; "
         "ch_vhv := %s; ch_vlv := %s |}") % (
        dq(c), dq(float(eg["s_sc_%s_mva" % case])), dq(rx), line(0), dq(float(t.sn_mva)), dq(float(t.vn_hv_kv)),
        dq(float(t.vn_lv_kv)), dq(float(t.vk_percent)), dq(float(t.vkr_percent)), dq(float(t.parallel)), dq(cmax), line(1),
        dq(vhv), dq(vlv))
    xk = math.sqrt(float(t.vk_percent) ** 2 - float(t.vkr_percent) ** 2)
    return n, orc, sn, oq(math.sqrt(rx * rx + 1)), oq(xk)


def chain_case(ctx, rng, terms, pend):
    """correspondence of C18.ChainModel: the model's Ybus (from the element data through the per-unit pipeline) against the
    Ybus of the real run, the ohmic series formula against rk_ohm/xk_ohm, the residual of the impl's Zbus column against the
    model's Ybus; oracle: the results for a second net.sn_mva"""
    sn1 = float(rng.choice([1, 1, 10, 100, 0.5, 37]))
    net = chain_net(rng, sn1)
    o = dict(case=rng.choice(["max", "min"]), fault="3ph", inverse_y=rng.random() < 0.5, lv_tol_percent=rng.choice([10, 6]),
             branch_results=True)
    desc = {"net": pp.to_json(net), "opts": o, "chain": True}
    net2 = copy.deepcopy(net)
    box = run_sc(net, **o)
    ctx.count("chain_case_%s" % o["case"])
    ppc = net._ppc
    bl = net._pd2ppc_lookups["bus"]
    perm = [int(bl[b]) for b in net.bus.index]
    n, orc, sn, sq, xk = chain_terms(net, o, ppc)
    Y = box["Y"][0][np.ix_(perm, perm)]
    terms.append("run_chain_ybus %s %s %s" % (n, cq.q(sn), orc))
    pend.append(("chain Ybus", [[[float(Y[i, j].real), float(Y[i, j].imag)] for j in range(4)] for i in range(4)], desc))
    terms.append("run_chain_spec %s %s %s" % (n, sq, xk))
    pend.append(("chain rk_ohm/xk_ohm vs the ohmic series formula",
                 [[float(net.res_bus_sc.rk_ohm.at[b]), float(net.res_bus_sc.xk_ohm.at[b])] for b in net.bus.index], desc))
    k = rng.randrange(4)
    zcol = np.linalg.solve(box["Y"][0], np.eye(4)[:, perm[k]])[perm]
    if "Zbus" in ppc["internal"] and o["inverse_y"]:
        zcol = np.asarray(ppc["internal"]["Zbus"])[:, perm[k]][perm]
    terms.append("run_chain_residual %s %s %s %d%%nat %s" % (n, cq.q(sn), orc, k, cq.lst(
        ["(mkC %s %s)" % (cq.q(float(z.real), bits=48), cq.q(float(z.imag), bits=48)) for z in zcol])))
    pend.append(("chain residual Ybus(model) * Zbus[:,k](impl) - e_k", [[0.0, 0.0]] * 4, desc, 1e-8))
    # Kirchhoff at the end bus (C18_chain_line2_current): res_line_sc of a fault at bus 3 alone
    n3 = copy.deepcopy(net2)
    box3 = run_sc(n3, bus=int(net.bus.index[3]), **o)
    il, ib = float(n3.res_line_sc.ikss_to_ka.iloc[1]), float(n3.res_bus_sc.ikss_ka.iloc[0])
    # model of _calc_branch_currents_complex for the last line and the transformer (white-box inputs: the branch row, the
    # Zbus column of the faulted bus from the captured Ybus, ikss1 = c / z_equiv)
    from pandapower.pypower.idx_brch import BR_R, BR_X, TAP, F_BUS, T_BUS
    from pandapower.pypower.idx_bus import BASE_KV
    from pandapower.pypower.idx_bus_sc import R_EQUIV, X_EQUIV, C_MAX, C_MIN
    p3 = n3._ppc
    bl3 = n3._pd2ppc_lookups["bus"]
    kf = int(bl3[net.bus.index[3]])
    z3 = np.linalg.solve(box3["Y"][0], np.eye(4)[:, kf])
    cc = float(p3["bus"][kf, C_MAX if o["case"] == "max" else C_MIN])
    ik1 = cc / complex(float(p3["bus"][kf, R_EQUIV]), float(p3["bus"][kf, X_EQUIV]))
    valid_v = not bool(np.any(p3["branch"][:, TAP].real != 1))
    s3 = math.sqrt(3.0)
    for (el, i, tab, cf, ct) in (("line", 1, n3.res_line_sc, "ikss_from", "ikss_to"), ("trafo", 0, n3.res_trafo_sc, "ikss_hv", "ikss_lv")):
        f0, _ = n3._pd2ppc_lookups["branch"][el]
        br = p3["branch"][f0 + i]
        fb, tb = int(br[F_BUS].real), int(br[T_BUS].real)
        mk = lambda z: "(mkC %s %s)" % (cq.q(float(z.real)), cq.q(float(z.imag)))
        terms.append("run_branch_i %s %s %s %s %s %s %s" % (mk(complex(br[BR_R].real, br[BR_X].real)), cq.q(float(br[TAP].real)),
                                                          cq.b(valid_v), mk(complex(cc, 0)), mk(ik1), mk(z3[fb]), mk(z3[tb])))
        exp = []
        for col, bb in ((cf, fb), (ct, tb)):
            base_i = float(p3["bus"][bb, BASE_KV]) * s3 / sn          # kA = p.u. / baseI
            mag, deg = float(tab[col + "_ka"].iloc[i]), float(tab[col + "_degree"].iloc[i])
            exp.append([mag * math.cos(math.radians(deg)) * base_i, mag * math.sin(math.radians(deg)) * base_i])
        pend.append(("chain %s current (p.u.) of a fault at the end bus" % el, exp, desc, 1e-9))
    if rel(il, ib) > TOL or rel(float(n3.res_trafo_sc.ikss_lv_ka.iloc[0]), ib) > TOL:
        ctx.violation("spec", "chain: fault at the end bus: ikss_ka=%r but the last line carries %r" % (ib, il), desc)
    # the same net with another sn_mva: same results (oracle for C18_chain_thevenin_sn_invariant)
    net2.sn_mva = float(rng.choice([x for x in (1, 10, 100, 3) if x != sn1]))
    sc.calc_sc(net2, **o)
    for col in ("ikss_ka", "rk_ohm", "xk_ohm", "skss_mw"):
        for b in net.bus.index:
            a, bb = float(net.res_bus_sc.at[b, col]), float(net2.res_bus_sc.at[b, col])
            if rel(a, bb) > 1e-7:
                ctx.violation("spec", "chain bus %d: %s changes from %r to %r when sn_mva goes from %r to %r" % (b, col, a, bb, sn1, net2.sn_mva), desc)
    ctx.case(desc, nontrivial=True)



# ------------------------------------------------------------------ branch results: Kirchhoff at the buses
def branch_kcl(ctx, rng, net0, o, res, desc, has_cs):
    """res_line_sc / res_trafo_sc of a fault at ONE bus k: the branch currents entering k plus the currents of the voltage
    sources at k (c Un / (sqrt3 Z_source), independent of the impl) add up to ikss_ka of k; at every other bus without a
    source they add up to zero (3ph: complex sums).  2ph / 1ph (magnitudes only): at a faulted bus with a single branch
    and no source the branch carries the bus current."""
    if has_cs:
        ctx.count("branch_results_skipped_current_sources")
        return
    fault = o["fault"]
    net = copy.deepcopy(net0)
    ysrc = independent_sources(net, o["case"], o["lv_tol_percent"])
    buses = list(net.bus.index)
    inc = {b: [] for b in buses}
    for r in net.line.itertuples():
        if r.in_service:
            inc[r.from_bus].append(("line", r.Index, "from")); inc[r.to_bus].append(("line", r.Index, "to"))
    for r in net.trafo.itertuples():
        if r.in_service:
            inc[r.hv_bus].append(("trafo", r.Index, "hv")); inc[r.lv_bus].append(("trafo", r.Index, "lv"))
    if fault == "3ph":
        k = rng.choice(buses)
    else:
        leaves = [b for b in buses if len(inc[b]) == 1 and ysrc[b] == 0]
        if not leaves:
            ctx.count("branch_results_no_leaf_bus")
            return
        k = rng.choice(leaves)
    o2 = dict(o)
    o2["branch_results"] = True
    try:
        sc.calc_sc(net, bus=k, **o2)
    except Exception as e:
        ctx.violation("spec", "calc_sc(bus=%d, branch_results=True) raises %s: %s" % (k, type(e).__name__, e), desc)
        return
    ctx.count("branch_results_%s" % fault)
    ik = float(net.res_bus_sc.ikss_ka.at[k])
    if rel(ik, float(res.at[k, "ikss_ka"])) > 1e-7:
        ctx.violation("spec", "bus %d: ikss_ka=%r when faulted alone with branch results, %r in the all-bus run" % (k, ik, float(res.at[k, "ikss_ka"])), desc)
    vn = float(net.bus.vn_kv.at[k])
    c = ((1.1 if o["lv_tol_percent"] == 10 else 1.05) if o["case"] == "max" else 0.95) if vn < 1 else (1.1 if o["case"] == "max" else 1.0)

    def cur(tab, i, side):
        col = {"from": "ikss_from", "to": "ikss_to", "hv": "ikss_hv", "lv": "ikss_lv"}[side]
        mag = float(tab.at[i, col + "_ka"])
        deg = float(tab.at[i, col + "_degree"]) if fault == "3ph" else 0.0
        return mag * complex(math.cos(math.radians(deg)), math.sin(math.radians(deg)))

    tabs = {"line": net.res_line_sc, "trafo": net.res_trafo_sc}
    if fault != "3ph":
        el, i, side = inc[k][0]
        ib = abs(cur(tabs[el], i, side))
        if rel(ib, ik) > 1e-6:
            ctx.violation("spec", "%s fault at the stub bus %d: ikss_ka=%r but its only branch (%s %d) carries %r" % (fault, k, ik, el, i, ib), desc)
        else:
            ctx.count("branch_kcl_ok")
        return
    rf, xf = o.get("r_fault_ohm", 0.0), o.get("x_fault_ohm", 0.0)
    for b in buses:
        into = -sum((cur(tabs[el], i, side) for el, i, side in inc[b]), 0j)
        if b == k:
            if ysrc[b] != 0 and (rf > 0 or xf > 0):
                continue
            tot = abs(into + c * vn / math.sqrt(3.0) * ysrc[b])
            if rel(tot, ik) > 1e-6:
                ctx.violation("spec", "fault at bus %d: branch currents into the bus + source currents = %r kA but ikss_ka = %r" % (k, tot, ik), desc)
            else:
                ctx.count("branch_kcl_ok")
        elif ysrc[b] == 0:
            if abs(into) > 1e-6 * max(1.0, ik):
                ctx.violation("spec", "fault at bus %d: branch currents at the source-free bus %d add up to %r kA" % (k, b, abs(into)), desc)
            else:
                ctx.count("branch_kcl_ok")


# ------------------------------------------------------------------ one case
def one_case(ctx, rng, k, terms, pend, fixed=None):
    from pandapower.pypower.idx_bus_sc import R_EQUIV, X_EQUIV, IKSS1, IKSS2, KAPPA, IP, SKSS, C_MAX, C_MIN, R_EQUIV_OHM, X_EQUIV_OHM
    from pandapower.pypower.idx_bus import BASE_KV, GS, BS
    if fixed is None:
        net, meshed = sc_net(rng)
        o = rand_opts(rng)
    else:
        net, meshed, o = pp.from_json_string(fixed["net"]), True, dict(fixed["opts"])
    desc = {"net": pp.to_json(net), "opts": o}
    net0 = copy.deepcopy(net)        # the untouched input for the metamorphic / branch-result runs
    net1 = copy.deepcopy(net)
    nontriv = meshed or o.get("r_fault_ohm", 0) > 0 or o.get("x_fault_ohm", 0) > 0 or bool((net.bus.vn_kv < 1).any())
    try:
        box = run_sc(net, **o)
    except Exception as e:
        ctx.count("calc_sc_raises:" + type(e).__name__)
        ctx.case(desc, nontrivial=False)
        return
    ctx.count("case_%s_%s" % (o["case"], o["fault"]))
    ctx.count("kappa_%s_%s" % (o["kappa_method"], o["topology"]))
    res = net.res_bus_sc.copy()
    ppc = net._ppc
    sn = float(ppc["baseMVA"])
    bl = net._pd2ppc_lookups["bus"]
    ph2 = o["fault"] == "2ph"
    ph1 = o["fault"] == "1ph"
    thev0 = independent_thevenin_zero(net, o["case"], o["lv_tol_percent"]) if ph1 else None
    bus0 = box.get("ppci0_bus")
    if ph1 and thev0 is not None:
        ctx.count("independent_zero_sequence_nets")
    for vg in (net.trafo.vector_group.values if ph1 else []):
        ctx.count("1ph_vector_group_" + vg)
    s3, s2 = math.sqrt(3.0), math.sqrt(2.0)
    rf, xf = o.get("r_fault_ohm", 0.0), o.get("x_fault_ohm", 0.0)
    thev = independent_thevenin(net, o["case"], o["lv_tol_percent"])
    if thev is not None:
        ctx.count("independent_thevenin_nets")
    Y = box["Y"][0] if len(box["Y"]) in (1, 2) else None
    zdiag = exact_diag(Y) if (Y is not None and Y.shape[0] <= 9) else None
    zdiag0 = exact_diag(box["Y"][1]) if (ph1 and len(box["Y"]) == 2 and box["Y"][1].shape[0] <= 9) else None
    bus1 = box["ppci_bus"] if ph1 else ppc["bus"]        # positive-sequence bus rows
    for b in net.bus.index:
        row = bus1[bl[b]]
        vn = float(net.bus.vn_kv.at[b])
        c = float(row[C_MAX] if o["case"] == "max" else row[C_MIN])
        c_spec = ((1.1 if o["lv_tol_percent"] == 10 else 1.05) if o["case"] == "max" else 0.95) if vn < 1 else (1.1 if o["case"] == "max" else 1.0)
        if ph1:
            _bus_1ph(ctx, net, o, b, row, bus0[bl[b]] if bus0 is not None else None, res, thev, thev0, c, c_spec, vn, sn, rf, xf,
                     terms, pend, desc, zdiag[int(bl[b])] if zdiag is not None else None,
                     zdiag0[int(bl[b])] if zdiag0 is not None else None)
            continue
        ik, sk, ipk, rk, xk = (float(res.at[b, x]) for x in ("ikss_ka", "skss_mw", "ip_ka", "rk_ohm", "xk_ohm"))
        zk = math.hypot(rk, xk)
        bad = []
        # current sources contribute (case max, in-service sgens): the relations of the property that are stated
        # "without current-source contributions" are then checked on the voltage-source part only (model side)
        cs = o["case"] == "max" and bool(len(net.sgen)) and bool(net.sgen.in_service.any())
        # ---- spec relations on the result table
        exp_ik = c_spec * vn / (s3 * zk) * (s3 / 2 if ph2 else 1.0)
        if not cs and rel(ik, exp_ik) > TOL:
            bad.append("ikss_ka=%r but c*Un/(sqrt3*|Zk|)%s = %r" % (ik, "*sqrt3/2" if ph2 else "", exp_ik))
        exp_sk = (ik * vn / s3) if ph2 else (s3 * vn * ik)
        if rel(sk, exp_sk) > TOL:
            bad.append("skss_mw=%r, expected %r" % (sk, exp_sk))
        kap = ipk / (s2 * ik)
        if not ((1.0 if cs else 1.02) - 1e-9 <= kap <= 2 + 1e-9):
            bad.append("ip/(sqrt2*ikss) = kappa = %r outside [1.02, 2]" % kap)
        if thev is not None:
            zi = thev[b] + complex(rf, xf)
            if rel(zi.real, rk) > 1e-7 and abs(zi.real - rk) > 1e-9 or rel(zi.imag, xk) > 1e-7:
                bad.append("Thevenin impedance %r+j%r ohm, independently assembled network gives %r+j%r" % (rk, xk, zi.real, zi.imag))
            else:
                ctx.count("independent_thevenin_ok")
        for w in bad:
            ctx.violation("spec", "bus %d: %s" % (b, w), desc)
        # ---- correspondence with the model
        zr, zx = float(row[R_EQUIV]), float(row[X_EQUIV])
        zabs = math.hypot(zr, zx)
        kappa = float(row[KAPPA])
        terms.append("run_bus %s %s %s %s %s %s %s %s %s %s %s" % (cq.q(c), cq.q(zr), cq.q(zx), cq.q(zabs), cq.q(vn), cq.q(sn),
                                                                 cq.q(s3), cq.q(s2), cq.q(kappa), cq.q(float(row[IKSS2])), cq.b(ph2)))
        pend.append(("bus columns", [float(row[IKSS1]), float(row[SKSS]), float(row[IP]), float(row[R_EQUIV_OHM]), float(row[X_EQUIV_OHM])], desc))
        if o["topology"] == "radial" or (o["kappa_method"] == "B" and o["topology"] == "meshed"):
            e = math.exp(-3 * zr / zx)
            if o["topology"] == "radial":
                terms.append("run_kappa %s" % cq.q(e))
            else:
                terms.append("run_kappa_b %s %s %s" % (cq.q(1.15), cq.q(e), cq.q(vn)))
            pend.append(("kappa", kappa, desc))
        # exact diagonal entry of the inverse of the impl's own Ybus
        if zdiag is not None:
            zkk = zdiag[int(bl[b])]
            if True:
                terms.append("run_rx %s %s %s %s %s %s" % (cq.q(zkk.real), cq.q(zkk.imag), cq.q(rf), cq.q(xf), cq.q(vn), cq.q(sn)))
                pend.append(("R_EQUIV/X_EQUIV from the exact inverse of the impl's Ybus", [zr, zx], desc))
    # ext_grid shunts (only buses whose GS/BS come from ext_grids alone)
    for r in net.ext_grid.itertuples():
        others = (net.gen.bus == r.bus).any() or (net.ext_grid.bus == r.bus).sum() > 1
        if others:
            continue
        row = bus1[bl[r.bus]]
        c = float(row[C_MAX] if o["case"] == "max" else row[C_MIN])
        rx = float(getattr(r, "rx_%s" % o["case"]))
        terms.append("run_eg %s %s %s %s %s" % (cq.q(c), cq.q(float(getattr(r, "s_sc_%s_mva" % o["case"]))), cq.q(rx), cq.q(sn),
                                               cq.q(math.sqrt(rx * rx + 1))))
        pend.append(("ext_grid GS/BS", [float(row[GS]), float(row[BS])], desc))
    # ---- metamorphic runs
    has_cs = o["case"] == "max" and bool(len(net.sgen)) and bool(net.sgen.in_service.any())
    meta = rng.choice(["sn_mva", "inverse_y", "inverse_y", "subset"] if (has_cs or ph1) else ["sn_mva", "inverse_y", "subset", "2ph"]) \
        if fixed is None else fixed.get("meta", "sn_mva")
    if has_cs:
        ctx.count("current_sources_%s" % o["fault"])
    desc["meta"] = meta
    ctx.count("metamorphic_" + meta)
    n2 = net0
    o2 = dict(o)
    bus_arg = None
    if meta == "sn_mva":
        n2.sn_mva = 100.0
    elif meta == "inverse_y":
        o2["inverse_y"] = not o["inverse_y"]
    elif meta == "subset":
        bus_arg = sorted(rng.sample(list(net.bus.index), rng.randint(1, max(1, len(net.bus) - 1))))
    else:
        o2["fault"] = "2ph" if o["fault"] == "3ph" else "3ph"
    try:
        sc.calc_sc(n2, bus=bus_arg, **o2)
    except Exception as e:
        ctx.violation("spec", "metamorphic run (%s) raises %s" % (meta, type(e).__name__), desc)
        ctx.case(desc, nontrivial=nontriv)
        return
    r2 = n2.res_bus_sc
    for b in r2.index:
        for col in (("ikss_ka", "rk_ohm", "xk_ohm", "rk0_ohm", "xk0_ohm") if ph1 else ("ikss_ka", "ip_ka", "rk_ohm", "xk_ohm", "skss_mw")):
            a, bb = float(res.at[b, col]), float(r2.at[b, col])
            if not (math.isfinite(a) or math.isfinite(bb)):
                continue
            if ph1 and col in ("rk_ohm", "xk_ohm", "rk0_ohm", "xk0_ohm"):
                # 1ph: the impedances are compared as complex numbers (|dZ| <= 1e-7 |Z|): the zero-sequence network of an
                # isolated MV level is capacitive, |R0| << |X0|, and the two solvers differ by 1e-11 |Z0| in R0
                cr, cx = ("rk_ohm", "xk_ohm") if col in ("rk_ohm", "xk_ohm") else ("rk0_ohm", "xk0_ohm")
                za = complex(float(res.at[b, cr]), float(res.at[b, cx]))
                zb = complex(float(r2.at[b, cr]), float(r2.at[b, cx]))
                if math.isfinite(abs(za)) and math.isfinite(abs(zb)) and crel(za, zb) > 1e-7:
                    ctx.violation("spec", "bus %d: %s+j%s changes from %r to %r under %s" % (b, cr, cx, za, zb, meta), desc)
                    break
                continue
            if meta == "2ph":
                if col in ("rk_ohm", "xk_ohm"):
                    fac = 1.0
                elif col == "skss_mw":
                    continue
                else:
                    fac = (s3 / 2) if o["fault"] == "3ph" else (2 / s3)
                a = a * fac
            if rel(a, bb) > 1e-7 and abs(a - bb) > 1e-10:
                kind = "spec"
                ctx.violation(kind, "bus %d: %s changes from %r to %r under %s" % (b, col, a, bb, meta), desc)
                break
    if fixed is None and rng.random() < 0.6:
        branch_kcl(ctx, rng, net1, o, res, desc, has_cs)
    ctx.case(desc, nontrivial=nontriv, sample={"opts": o, "res_bus_sc": json.loads(res.to_json())} if k < 3 else None)


def run(ctx):
    rng = ctx.rng
    terms, pend = [], []
    d = os.path.join(cq.VERIF, "corpus", "C18")
    if os.path.isdir(d):
        for f in sorted(os.listdir(d)):
            if f.endswith(".json"):
                one_case(ctx, rng, 99, terms, pend, fixed=json.load(open(os.path.join(d, f))))
                ctx.count("corpus_cases")
    for k in range(ctx.n(80, 1200)):
        one_case(ctx, rng, k, terms, pend)
        if k % 5 == 0:          # 16 / 240 chains, spread over the shards (their terms are the heaviest)
            chain_case(ctx, rng, terms, pend)
    model = ctx.coq_eval("c18", "Base.QN Base.QC C18.Model C18.ChainModel", terms, shard=150)
    _compare(ctx, pend, model)


def _flat(x):
    if isinstance(x, (list, tuple)):
        return [z for y in x for z in _flat(y)]
    return [x]


def _compare(ctx, pend, model):
    for pe, mod in zip(pend, model):
        what, impl, desc = pe[0], pe[1], pe[2]
        atol = pe[3] if len(pe) > 3 else 1e-12
        ctx.corr_checked += 1
        im = _flat(impl)
        mo = _flat(mod)
        if len(im) != len(mo) or any(rel(float(a), float(b)) > 1e-9 and abs(float(a) - float(b)) > atol for a, b in zip(im, mo)):
            ctx.disagreement("%s: impl=%s model=%s" % (what, im, [float(x) for x in mo]), desc)


def replay(ctx, rec):
    case = rec.get("case", rec)
    if case.get("chain"):
        run(ctx)
    elif "net" in case and "opts" in case:
        terms, pend = [], []
        one_case(ctx, ctx.rng, 0, terms, pend, fixed=case)
        model = ctx.coq_eval("c18", "Base.QN Base.QC C18.Model C18.ChainModel", terms, shard=150)
        _compare(ctx, pend, model)
    else:
        run(ctx)
