"""C18 — short-circuit results are consistent with the IEC 60909 relations.

Correspondence: per faulted bus the columns R_EQUIV/X_EQUIV/IKSS1/SKSS/KAPPA/IP/R_EQUIV_OHM/X_EQUIV_OHM of net._ppc
and the ext_grid shunt (GS,BS) against C18.Model (square roots / exp passed as oracles); the diagonal Zbus entry the
impl uses against an exact rational solve of the impl's own Ybus (captured white-box).
Oracle: the IEC relations on res_bus_sc, an independently assembled network of the elements' short-circuit models
(ext_grid, line with end temperature, 2W transformer with K_T, synchronous generator with K_G) for the Thevenin impedance, and metamorphic runs
(sn_mva, inverse_y, bus subsets, 2ph vs 3ph)."""
import copy, json, math, os
from fractions import Fraction as F
import numpy as np
import pandapower as pp
import pandapower.shortcircuit as sc
from vf import coqrun as cq

RULE = ("3-8 bus nets: 110 kV ext_grid (S_sc 500-5000 MVA, R/X 0.1-0.4), 1-2 network transformers 110/20 kV, 2-6 MV buses "
        "joined by a random tree + chords of lines (random r/x/length/parallel/end temperature), optional second ext_grid at an "
        "MV bus, optional 20/0.4 kV transformer + LV bus, optional synchronous generator, in 40 % 2-3 current-source sgens at different MV buses; options case min/max, fault 3ph/2ph, "
        "kappa method B/C, topology auto/radial/meshed, fault impedance, inverse_y, bus subsets, sn_mva 1/100; "
        "non-trivial = meshed (a chord or two infeeds) or a fault impedance or an LV bus")
ASSUMPTIONS = ["sqrt and exp are oracles passed to the rational model (math.sqrt / math.exp), residuals of s3*s3=3, s2*s2=2, zabs^2=r^2+x^2 below 1e-15",
               "numpy/scipy inverse and sparse LU are compared with an exact rational solve of the same Ybus (tolerance 1e-9)",
               "40 % of the nets carry 2-3 current-source sgens (sn_mva, k); for case max the ikss/2ph-ratio relations, stated without current-source contributions, are then checked on the voltage-source column IKSS1 through the model only; no motors; 1ph faults are not generated"]
TRUSTED = ["white-box capture of ppci['internal']['Ybus'] by wrapping pandapower.shortcircuit.calc_sc._calc_ybus in the harness process",
           "independent assembly of the short-circuit network in harness/props/c18.py (numpy complex)"]
TOL = 1e-8


def rel(a, b):
    return abs(a - b) / max(1e-12, abs(a), abs(b))


# ------------------------------------------------------------------ generator
def sc_net(rng, sn_mva=1.0):
    net = pp.create_empty_network(sn_mva=sn_mva)
    hv = pp.create_bus(net, vn_kv=110.0)
    pp.create_ext_grid(net, hv, s_sc_max_mva=float(rng.choice([500, 1000, 2500, 5000])), s_sc_min_mva=float(rng.choice([300, 400, 450])),
                       rx_max=rng.choice([0.1, 0.25, 0.4]), rx_min=rng.choice([0.1, 0.125, 0.35]))   # never exactly 0.3: the method-B threshold
    nmv = rng.randint(2, 6)
    mv = [pp.create_bus(net, vn_kv=20.0) for _ in range(nmv)]
    edges = [(mv[rng.randrange(0, i)], mv[i]) for i in range(1, nmv)]
    for _ in range(rng.choice([0, 0, 1, 2])):
        if nmv > 2:
            a, b = rng.sample(mv, 2)
            if (a, b) not in edges and (b, a) not in edges:
                edges.append((a, b))
    for a, b in edges:
        pp.create_line_from_parameters(net, a, b, length_km=rng.randint(2, 40) / 8, r_ohm_per_km=rng.randint(4, 40) / 64,
                                       x_ohm_per_km=rng.randint(6, 30) / 64, c_nf_per_km=rng.choice([0, 200]), max_i_ka=0.4,
                                       parallel=rng.choice([1, 1, 2]), endtemp_degree=float(rng.choice([20, 80, 160])))
    for t in range(rng.choice([1, 1, 2])):
        pp.create_transformer(net, hv, mv[t % nmv], std_type=rng.choice(["25 MVA 110/20 kV", "40 MVA 110/20 kV", "63 MVA 110/20 kV"]),
                              parallel=rng.choice([1, 1, 2]))
    if rng.random() < 0.3:
        pp.create_ext_grid(net, rng.choice(mv), s_sc_max_mva=float(rng.choice([100, 250])), s_sc_min_mva=float(rng.choice([60, 80])),
                           rx_max=0.35, rx_min=0.4)
    if rng.random() < 0.3:
        lv = pp.create_bus(net, vn_kv=0.4)
        pp.create_transformer(net, rng.choice(mv), lv, std_type=rng.choice(["0.4 MVA 20/0.4 kV", "0.63 MVA 20/0.4 kV"]))
    has_gen = rng.random() < 0.25
    if has_gen:
        pp.create_gen(net, rng.choice(mv), p_mw=2.0, vn_kv=rng.choice([20.0, 21.0]), sn_mva=float(rng.choice([5, 10])),
                      xdss_pu=rng.choice([0.15, 0.2]), rdss_ohm=rng.choice([0.05, 0.2]), cos_phi=0.8, pg_percent=0.0)
    for b in mv:
        if rng.random() < 0.4:
            pp.create_load(net, b, p_mw=1.0, q_mvar=0.2)
    # current sources (full converter sgens with sc data) at several buses
    if rng.random() < 0.4:
        for b in rng.sample(mv, min(len(mv), rng.randint(2, 3))):
            pp.create_sgen(net, b, p_mw=rng.randint(2, 8) * 1.0, sn_mva=float(rng.choice([4, 8, 10])), k=rng.choice([1.1, 1.3, 1.5]),
                           in_service=rng.random() < 0.9)
    meshed = len(edges) > nmv - 1 or len(net.ext_grid) > 1 or len(net.trafo[net.trafo.hv_bus == hv]) > 1 or has_gen
    return net, meshed


def rand_opts(rng):
    o = dict(case=rng.choice(["max", "min"]), fault=rng.choice(["3ph", "3ph", "2ph"]), kappa_method=rng.choice(["B", "C"]),
             topology=rng.choice(["auto", "radial", "meshed"]), ip=True, inverse_y=rng.random() < 0.5,
             lv_tol_percent=rng.choice([10, 6]))
    if rng.random() < 0.3:
        o["r_fault_ohm"] = rng.choice([0.0, 0.5])
        o["x_fault_ohm"] = rng.choice([0.0, 0.25])
    return o


# ------------------------------------------------------------------ white-box Ybus capture
def run_sc(net, bus=None, **o):
    import sys as _sys
    m = _sys.modules["pandapower.shortcircuit.calc_sc"]
    orig = m._calc_ybus
    box = {"Y": []}

    def wrap(ppci):
        orig(ppci)
        box["Y"].append(np.asarray(ppci["internal"]["Ybus"].todense() if hasattr(ppci["internal"]["Ybus"], "todense") else ppci["internal"]["Ybus"]))

    m._calc_ybus = wrap
    try:
        sc.calc_sc(net, bus=bus, **o)
    finally:
        m._calc_ybus = orig
    return box


def exact_diag(Y):
    """diagonal of Y^-1 by one exact Gauss-Jordan elimination over Q(i) (pairs of Fractions); None if singular"""
    n = Y.shape[0]

    def cmul(a, b):
        return (a[0] * b[0] - a[1] * b[1], a[0] * b[1] + a[1] * b[0])

    def cdiv(a, b):
        d = b[0] * b[0] + b[1] * b[1]
        return ((a[0] * b[0] + a[1] * b[1]) / d, (a[1] * b[0] - a[0] * b[1]) / d)

    def csub(a, b):
        return (a[0] - b[0], a[1] - b[1])

    Z0 = (F(0), F(0))
    A = [[(F(float(Y[i, j].real)), F(float(Y[i, j].imag))) for j in range(n)] + [(F(1 if i == j else 0), F(0)) for j in range(n)]
         for i in range(n)]
    for c in range(n):
        p = max(range(c, n), key=lambda r: abs(float(A[r][c][0])) + abs(float(A[r][c][1])))
        if A[p][c] == Z0:
            return None
        A[c], A[p] = A[p], A[c]
        for r in range(n):
            if r != c and A[r][c] != Z0:
                f = cdiv(A[r][c], A[c][c])
                A[r] = [csub(A[r][j], cmul(f, A[c][j])) if A[c][j] != Z0 else A[r][j] for j in range(2 * n)]
    out = []
    for k in range(n):
        z = cdiv(A[k][n + k], A[k][k])
        out.append(complex(float(z[0]), float(z[1])))
    return out


# ------------------------------------------------------------------ independent network of the sc models
def independent_thevenin(net, case, lv_tol_percent=10):
    """{bus: Zkk in ohm} from element data; None if the net has elements outside the scope"""
    if len(net.gen) > 1 or len(net.trafo3w) or len(net.impedance) or len(net.ward) or len(net.xward) or len(net.motor):
        return None
    sb = 7.0   # any base; deliberately unlike net.sn_mva
    idx = {b: i for i, b in enumerate(net.bus.index)}
    n = len(idx)
    Y = np.zeros((n, n), dtype=complex)
    vn = {b: float(net.bus.vn_kv.at[b]) for b in net.bus.index}

    def cfac(b, which):
        if vn[b] < 1.0:
            return (1.1 if lv_tol_percent == 10 else 1.05) if which == "max" else 0.95
        return 1.1 if which == "max" else 1.0

    for r in net.ext_grid.itertuples():
        if not r.in_service:
            continue
        z = cfac(r.bus, case) * vn[r.bus] ** 2 / getattr(r, "s_sc_%s_mva" % case)
        rx = getattr(r, "rx_%s" % case)
        x = z / math.sqrt(1 + rx * rx)
        zc = complex(rx * x, x) / (vn[r.bus] ** 2 / sb)
        Y[idx[r.bus], idx[r.bus]] += 1 / zc
    for r in net.gen.itertuples():
        # synchronous generator (no power station unit): Z_GK = K_G (R_G + j X''d), K_G = Un/UrG * cmax / (1 + x''d sin(phi))
        if not r.in_service:
            continue
        zg = complex(r.rdss_ohm, r.xdss_pu * r.vn_kv ** 2 / r.sn_mva)
        kg = vn[r.bus] / (r.vn_kv * (1 + (0.0 if r.pg_percent != r.pg_percent else r.pg_percent) / 100)) * cfac(r.bus, "max") / \
            (1 + r.xdss_pu * math.sqrt(max(0.0, 1 - r.cos_phi ** 2)))
        Y[idx[r.bus], idx[r.bus]] += 1 / (kg * zg / (vn[r.bus] ** 2 / sb))
    for r in net.line.itertuples():
        if not r.in_service:
            continue
        rr = r.r_ohm_per_km * r.length_km / r.parallel
        if case == "min":
            rr *= 1 + 0.004 * (r.endtemp_degree - 20)
        zc = complex(rr, r.x_ohm_per_km * r.length_km / r.parallel) / (vn[r.from_bus] ** 2 / sb)
        i, j = idx[r.from_bus], idx[r.to_bus]
        y = 1 / zc
        Y[i, i] += y; Y[j, j] += y; Y[i, j] -= y; Y[j, i] -= y
    for r in net.trafo.itertuples():
        if not r.in_service:
            continue
        zt = r.vk_percent / 100 * r.vn_lv_kv ** 2 / r.sn_mva          # ohm, lv side
        rt = r.vkr_percent / 100 * r.vn_lv_kv ** 2 / r.sn_mva
        xt = math.sqrt(zt * zt - rt * rt)
        xt_rel = math.sqrt(r.vk_percent ** 2 - r.vkr_percent ** 2) / 100
        kt = 0.95 * cfac(r.lv_bus, "max") / (1 + 0.6 * xt_rel)
        zc = complex(rt, xt) * kt / r.parallel / (vn[r.lv_bus] ** 2 / sb)
        ratio = (r.vn_hv_kv / vn[r.hv_bus]) / (r.vn_lv_kv / vn[r.lv_bus])
        y = 1 / zc
        i, j = idx[r.hv_bus], idx[r.lv_bus]
        Y[i, i] += y / ratio ** 2; Y[j, j] += y; Y[i, j] -= y / ratio; Y[j, i] -= y / ratio
    try:
        Z = np.linalg.inv(Y)
    except np.linalg.LinAlgError:
        return None
    return {b: Z[idx[b], idx[b]] * vn[b] ** 2 / sb for b in net.bus.index}


# ------------------------------------------------------------------ one case
def one_case(ctx, rng, k, terms, pend, fixed=None):
    from pandapower.pypower.idx_bus_sc import R_EQUIV, X_EQUIV, IKSS1, IKSS2, KAPPA, IP, SKSS, C_MAX, C_MIN, R_EQUIV_OHM, X_EQUIV_OHM
    from pandapower.pypower.idx_bus import BASE_KV, GS, BS
    if fixed is None:
        net, meshed = sc_net(rng)
        o = rand_opts(rng)
    else:
        net, meshed, o = pp.from_json_string(fixed["net"]), True, dict(fixed["opts"])
    desc = {"net": pp.to_json(net), "opts": o}
    nontriv = meshed or o.get("r_fault_ohm", 0) > 0 or o.get("x_fault_ohm", 0) > 0 or bool((net.bus.vn_kv < 1).any())
    try:
        box = run_sc(net, **o)
    except Exception as e:
        ctx.count("calc_sc_raises:" + type(e).__name__)
        ctx.case(desc, nontrivial=False)
        return
    ctx.count("case_%s_%s" % (o["case"], o["fault"]))
    ctx.count("kappa_%s_%s" % (o["kappa_method"], o["topology"]))
    res = net.res_bus_sc.copy()
    ppc = net._ppc
    sn = float(ppc["baseMVA"])
    bl = net._pd2ppc_lookups["bus"]
    ph2 = o["fault"] == "2ph"
    s3, s2 = math.sqrt(3.0), math.sqrt(2.0)
    rf, xf = o.get("r_fault_ohm", 0.0), o.get("x_fault_ohm", 0.0)
    thev = independent_thevenin(net, o["case"], o["lv_tol_percent"])
    if thev is not None:
        ctx.count("independent_thevenin_nets")
    Y = box["Y"][0] if len(box["Y"]) == 1 else None
    zdiag = exact_diag(Y) if (Y is not None and Y.shape[0] <= 9) else None
    for b in net.bus.index:
        row = ppc["bus"][bl[b]]
        vn = float(net.bus.vn_kv.at[b])
        c = float(row[C_MAX] if o["case"] == "max" else row[C_MIN])
        c_spec = ((1.1 if o["lv_tol_percent"] == 10 else 1.05) if o["case"] == "max" else 0.95) if vn < 1 else (1.1 if o["case"] == "max" else 1.0)
        ik, sk, ipk, rk, xk = (float(res.at[b, x]) for x in ("ikss_ka", "skss_mw", "ip_ka", "rk_ohm", "xk_ohm"))
        zk = math.hypot(rk, xk)
        bad = []
        # current sources contribute (case max, in-service sgens): the relations of the property that are stated
        # "without current-source contributions" are then checked on the voltage-source part only (model side)
        cs = o["case"] == "max" and bool(len(net.sgen)) and bool(net.sgen.in_service.any())
        # ---- spec relations on the result table
        exp_ik = c_spec * vn / (s3 * zk) * (s3 / 2 if ph2 else 1.0)
        if not cs and rel(ik, exp_ik) > TOL:
            bad.append("ikss_ka=%r but c*Un/(sqrt3*|Zk|)%s = %r" % (ik, "*sqrt3/2" if ph2 else "", exp_ik))
        exp_sk = (ik * vn / s3) if ph2 else (s3 * vn * ik)
        if rel(sk, exp_sk) > TOL:
            bad.append("skss_mw=%r, expected %r" % (sk, exp_sk))
        kap = ipk / (s2 * ik)
        if not ((1.0 if cs else 1.02) - 1e-9 <= kap <= 2 + 1e-9):
            bad.append("ip/(sqrt2*ikss) = kappa = %r outside [1.02, 2]" % kap)
        if thev is not None:
            zi = thev[b] + complex(rf, xf)
            if rel(zi.real, rk) > 1e-7 and abs(zi.real - rk) > 1e-9 or rel(zi.imag, xk) > 1e-7:
                bad.append("Thevenin impedance %r+j%r ohm, independently assembled network gives %r+j%r" % (rk, xk, zi.real, zi.imag))
            else:
                ctx.count("independent_thevenin_ok")
        for w in bad:
            ctx.violation("spec", "bus %d: %s" % (b, w), desc)
        # ---- correspondence with the model
        zr, zx = float(row[R_EQUIV]), float(row[X_EQUIV])
        zabs = math.hypot(zr, zx)
        kappa = float(row[KAPPA])
        terms.append("run_bus %s %s %s %s %s %s %s %s %s %s %s" % (cq.q(c), cq.q(zr), cq.q(zx), cq.q(zabs), cq.q(vn), cq.q(sn),
                                                                 cq.q(s3), cq.q(s2), cq.q(kappa), cq.q(float(row[IKSS2])), cq.b(ph2)))
        pend.append(("bus columns", [float(row[IKSS1]), float(row[SKSS]), float(row[IP]), float(row[R_EQUIV_OHM]), float(row[X_EQUIV_OHM])], desc))
        if o["topology"] == "radial" or (o["kappa_method"] == "B" and o["topology"] == "meshed"):
            e = math.exp(-3 * zr / zx)
            if o["topology"] == "radial":
                terms.append("run_kappa %s" % cq.q(e))
            else:
                terms.append("run_kappa_b %s %s %s" % (cq.q(1.15), cq.q(e), cq.q(vn)))
            pend.append(("kappa", kappa, desc))
        # exact diagonal entry of the inverse of the impl's own Ybus
        if zdiag is not None:
            zkk = zdiag[int(bl[b])]
            if True:
                terms.append("run_rx %s %s %s %s %s %s" % (cq.q(zkk.real), cq.q(zkk.imag), cq.q(rf), cq.q(xf), cq.q(vn), cq.q(sn)))
                pend.append(("R_EQUIV/X_EQUIV from the exact inverse of the impl's Ybus", [zr, zx], desc))
    # ext_grid shunts (only buses whose GS/BS come from ext_grids alone)
    for r in net.ext_grid.itertuples():
        others = (net.gen.bus == r.bus).any() or (net.ext_grid.bus == r.bus).sum() > 1
        if others:
            continue
        row = ppc["bus"][bl[r.bus]]
        c = float(row[C_MAX] if o["case"] == "max" else row[C_MIN])
        rx = float(getattr(r, "rx_%s" % o["case"]))
        terms.append("run_eg %s %s %s %s %s" % (cq.q(c), cq.q(float(getattr(r, "s_sc_%s_mva" % o["case"]))), cq.q(rx), cq.q(sn),
                                               cq.q(math.sqrt(rx * rx + 1))))
        pend.append(("ext_grid GS/BS", [float(row[GS]), float(row[BS])], desc))
    # ---- metamorphic runs
    has_cs = o["case"] == "max" and bool(len(net.sgen)) and bool(net.sgen.in_service.any())
    meta = rng.choice(["sn_mva", "inverse_y", "inverse_y", "subset"] if has_cs else ["sn_mva", "inverse_y", "subset", "2ph"]) \
        if fixed is None else fixed.get("meta", "sn_mva")
    if has_cs:
        ctx.count("current_sources_%s" % o["fault"])
    desc["meta"] = meta
    ctx.count("metamorphic_" + meta)
    n2 = pp.from_json_string(desc["net"])
    o2 = dict(o)
    bus_arg = None
    if meta == "sn_mva":
        n2.sn_mva = 100.0
    elif meta == "inverse_y":
        o2["inverse_y"] = not o["inverse_y"]
    elif meta == "subset":
        bus_arg = sorted(rng.sample(list(net.bus.index), rng.randint(1, max(1, len(net.bus) - 1))))
    else:
        o2["fault"] = "2ph" if o["fault"] == "3ph" else "3ph"
    try:
        sc.calc_sc(n2, bus=bus_arg, **o2)
    except Exception as e:
        ctx.violation("spec", "metamorphic run (%s) raises %s" % (meta, type(e).__name__), desc)
        ctx.case(desc, nontrivial=nontriv)
        return
    r2 = n2.res_bus_sc
    for b in r2.index:
        for col in ("ikss_ka", "ip_ka", "rk_ohm", "xk_ohm", "skss_mw"):
            a, bb = float(res.at[b, col]), float(r2.at[b, col])
            if meta == "2ph":
                if col in ("rk_ohm", "xk_ohm"):
                    fac = 1.0
                elif col == "skss_mw":
                    continue
                else:
                    fac = (s3 / 2) if o["fault"] == "3ph" else (2 / s3)
                a = a * fac
            if rel(a, bb) > 1e-7 and abs(a - bb) > 1e-10:
                kind = "spec"
                ctx.violation(kind, "bus %d: %s changes from %r to %r under %s" % (b, col, a, bb, meta), desc)
                break
    ctx.case(desc, nontrivial=nontriv, sample={"opts": o, "res_bus_sc": json.loads(res.to_json())} if k < 3 else None)


def run(ctx):
    rng = ctx.rng
    terms, pend = [], []
    d = os.path.join(cq.VERIF, "corpus", "C18")
    if os.path.isdir(d):
        for f in sorted(os.listdir(d)):
            if f.endswith(".json"):
                one_case(ctx, rng, 99, terms, pend, fixed=json.load(open(os.path.join(d, f))))
                ctx.count("corpus_cases")
    for k in range(ctx.n(90, 1200)):
        one_case(ctx, rng, k, terms, pend)
    model = ctx.coq_eval("c18", "Base.QN C18.Model", terms, shard=500)
    _compare(ctx, pend, model)


def _compare(ctx, pend, model):
    for (what, impl, desc), mod in zip(pend, model):
        ctx.corr_checked += 1
        im = impl if isinstance(impl, list) else [impl]
        mo = mod if isinstance(mod, list) else [mod]
        if len(im) != len(mo) or any(rel(float(a), float(b)) > 1e-9 and abs(float(a) - float(b)) > 1e-12 for a, b in zip(im, mo)):
            ctx.disagreement("%s: impl=%s model=%s" % (what, im, [float(x) for x in mo]), desc)


def replay(ctx, rec):
    case = rec.get("case", rec)
    if "net" in case and "opts" in case:
        terms, pend = [], []
        one_case(ctx, ctx.rng, 0, terms, pend, fixed=case)
        model = ctx.coq_eval("c18", "Base.QN C18.Model", terms, shard=500)
        _compare(ctx, pend, model)
    else:
        run(ctx)
