"""C07 — unsupplied <=> NaN <=> topology.
Correspondence: net._isolated_buses (ppc rows, captured at _check_connectivity), the bus -> root-bus fusing lookup,
the NaN set of res_bus and topology.unsupplied_buses(net) vs C07.Model on random switching / in_service states.
Oracle: the property's own spec (python BFS over in-service branches / closed switches between in-service buses from
in-service slacks) vs the real runpp results and the real topology module; zero power at dead elements."""
import math
from fractions import Fraction
import numpy as np
import pandapower as pp
import pandapower.topology as top
from vf import coqrun as cq
from vf import c07_gen as g

RULE = ("random 3-10 bus nets (shuffled/gapped indices) with lines, trafos, trafo3w, impedances, xward, optional dcline, "
        "switches of all four kinds (open/closed, z_ohm>0), 1-3 slacks (ext_grid / slack gen), random in_service flags on "
        "everything; non-trivial = at least one in-service bus is unsupplied and at least one is supplied, or buses are fused")
ASSUMPTIONS = ["no FACTS / VSC / DC-bus elements (tcsc, ssc, svc, vsc, line_dc) — their rows of _check_connectivity are empty",
               "trafo3w terminals are three distinct buses; element indices are unique; switches name existing elements",
               "scipy.sparse.csgraph.breadth_first_order(directed=False) returns exactly the undirected-reachable rows",
               "networkx.connected_components returns the undirected path classes",
               "convergence of the Newton iteration on the supplied part is not proved (loads are small; non-converged runs "
               "with a correct connectivity result are counted, not judged)"]
TRUSTED = ["observation wrapper around pandapower.pd2ppc._check_connectivity installed in the harness process (no source hook)",
           "python twin of the guard G07 and of the spec Supplied in harness/vf/c07_gen.py"]

_cap = {}


def _install():
    import pandapower.pd2ppc as m
    if getattr(m._check_connectivity, "_c07", False):
        return
    orig = m._check_connectivity

    def wrapped(ppc):
        r = orig(ppc)
        net = _cap.get("net")
        if net is not None:
            _cap["iso"] = [int(x) for x in r[0]]
            _cap["lookup"] = np.array(net._pd2ppc_lookups["bus"]).copy()
            _cap["nrows"] = int(ppc["bus"].shape[0])
            from pandapower.pypower.idx_brch import F_BUS, T_BUS
            _cap["branch_ft"] = [(int(r[F_BUS].real), int(r[T_BUS].real)) for r in ppc["branch"]]
        return r

    wrapped._c07 = True
    m._check_connectivity = wrapped


def spec_supplied_pf(net):
    """python twin of SuppliedPF (what _check_connectivity really walks): like the spec, but trafo / trafo3w /
    impedance branches also conduct through out-of-service buses, and a line conducts unless exactly one end is oos"""
    isb = set(int(i) for i in net.bus.index[net.bus.in_service.values.astype(bool)])
    known = set(int(i) for i in net.bus.index)
    sw = net.switch
    opn = ~sw.closed.values.astype(bool)
    open_l = set(sw.element.values[opn & (sw.et.values == "l")])
    open_t = set(sw.element.values[opn & (sw.et.values == "t")])
    open_t3 = set(zip(sw.element.values[opn & (sw.et.values == "t3")], sw.bus.values[opn & (sw.et.values == "t3")]))
    links = []
    for i, r in net.line.iterrows():
        f, t = int(r.from_bus), int(r.to_bus)
        oos_f, oos_t = (f in known and f not in isb), (t in known and t not in isb)
        if r.in_service and i not in open_l and oos_f == oos_t:
            links.append((f, t))
    for i, r in net.trafo.iterrows():
        if r.in_service and i not in open_t:
            links.append((int(r.hv_bus), int(r.lv_bus)))
    for i, r in net.impedance.iterrows():
        if r.in_service:
            links.append((int(r.from_bus), int(r.to_bus)))
    for i, r in net.trafo3w.iterrows():
        if r.in_service:
            closed = [bq for bq in (int(r.hv_bus), int(r.mv_bus), int(r.lv_bus)) if (i, bq) not in open_t3]
            links += [(closed[a], closed[c]) for a in range(len(closed)) for c in range(a + 1, len(closed))]
    for a, e, k, c in zip(sw.bus.values, sw.element.values, sw.et.values, sw.closed.values):
        if k == "b" and c and int(a) in isb and int(e) in isb:
            links.append((int(a), int(e)))
    adj = {}
    for u, v in links:
        adj.setdefault(u, []).append(v)
        adj.setdefault(v, []).append(u)
    start = set(int(bq) for bq, s in zip(net.ext_grid.bus.values, net.ext_grid.in_service.values) if s)
    start |= set(int(bq) for bq, s, sl in zip(net.gen.bus.values, net.gen.in_service.values, net.gen.slack.values) if s and sl)
    start &= isb
    seen, todo = set(start), list(start)
    while todo:
        u = todo.pop()
        for v in adj.get(u, []):
            if v not in seen:
                seen.add(v)
                todo.append(v)
    return seen


def _observe(net, numba):
    """run the impl; returns dict of observations"""
    _install()
    _cap.clear()
    _cap["net"] = net
    obs = {"converged": False, "raised": None}
    try:
        pp.runpp(net, numba=numba)
        obs["converged"] = True
    except Exception as e:
        obs["raised"] = type(e).__name__
    _cap["net"] = None
    obs["iso"] = sorted(_cap.get("iso", [])) if "iso" in _cap else None
    obs["lookup"] = _cap.get("lookup")
    obs["nrows"] = _cap.get("nrows")
    obs["branch_ft"] = _cap.get("branch_ft")
    obs["eg"] = []
    if obs["converged"]:
        obs["nan"] = sorted(int(b) for b, v in zip(net.bus.index, net.res_bus.vm_pu.values) if v != v)
        if len(net.ext_grid):
            from pandapower.pypower.idx_gen import PG
            ism = net._is_elements["ext_grid"]
            lk = net._pd2ppc_lookups["ext_grid"]
            for pos, i in enumerate(net.ext_grid.index):
                pg = float(net._ppc["gen"][lk[i], PG]) if ism[pos] else 0.0
                obs["eg"].append((bool(net.ext_grid.in_service.values[pos]), bool(ism[pos]), pg,
                                  float(net.res_ext_grid.p_mw.values[pos])))
    try:
        obs["topo"] = sorted(int(b) for b in top.unsupplied_buses(net))
    except Exception as e:
        obs["topo"] = "raise:" + type(e).__name__
    return obs


def _zero_power_checks(net):
    """elements at NaN / out-of-service buses and out-of-service elements report zero power; other buses finite"""
    bad = []
    vm = dict(zip((int(i) for i in net.bus.index), net.res_bus.vm_pu.values))
    bis = dict(zip((int(i) for i in net.bus.index), net.bus.in_service.values))
    dead_bus = {b for b in vm if vm[b] != vm[b] or not bis[b]}
    for b in vm:
        if b not in dead_bus and not (math.isfinite(vm[b]) and math.isfinite(net.res_bus.va_degree.at[b])):
            bad.append("bus %d supplied but voltage not finite" % b)
    for tab in ("load", "sgen", "gen", "ext_grid", "shunt", "ward", "xward", "storage", "motor"):
        if len(net[tab]) == 0 or "res_" + tab not in net or len(net["res_" + tab]) != len(net[tab]):
            continue
        for i in net[tab].index:
            dead = (not net[tab].at[i, "in_service"]) or int(net[tab].at[i, "bus"]) in dead_bus
            p, q = net["res_" + tab].at[i, "p_mw"], net["res_" + tab].at[i, "q_mvar"]
            if dead and not (p == 0 and q == 0):
                what = "%s %d is out of service or at a dead bus but reports p=%r q=%r" % (tab, i, p, q)
                bad.append(what)
            if not dead and not (math.isfinite(p) and math.isfinite(q)):
                bad.append("%s %d at a supplied bus reports non-finite power" % (tab, i))
    for tab, cols, pc in (("line", ("from_bus", "to_bus"), ("p_from_mw", "q_from_mvar", "p_to_mw", "q_to_mvar")),
                          ("trafo", ("hv_bus", "lv_bus"), ("p_hv_mw", "q_hv_mvar", "p_lv_mw", "q_lv_mvar")),
                          ("impedance", ("from_bus", "to_bus"), ("p_from_mw", "q_from_mvar", "p_to_mw", "q_to_mvar"))):
        if len(net[tab]) == 0:
            continue
        for i in net[tab].index:
            dead = (not net[tab].at[i, "in_service"]) or all(int(net[tab].at[i, c]) in dead_bus for c in cols)
            if dead:
                vals = [net["res_" + tab].at[i, c] for c in pc]
                if not all(v == 0 for v in vals):
                    bad.append("%s %d is out of service or between dead buses but reports power %r" % (tab, i, vals))
    return bad


def _check_rows(ctx, net, obs, m_rows, js):
    """row numbers (F_BUS, T_BUS at _check_connectivity) of the in-service line / trafo / trafo3w / xward branches vs the
    positions of C07.Model's row names in all_nodes: ties the auxiliary-row numbering that C07_row_of_* and
    C07_*_row_isolated_iff speak about to the real ppc"""
    lk = net._pd2ppc_lookups["branch"]
    ft = obs["branch_ft"]
    m_l, m_t, m_t3, m_x = m_rows
    bad = []
    n_aux = 0
    nb = len(net.bus)

    def cmp(what, pos, impl_row, model_pair):
        nonlocal n_aux
        if list(impl_row) != list(model_pair):
            bad.append("%s %d: impl rows %s model %s" % (what, pos, list(impl_row), list(model_pair)))
        n_aux += sum(1 for r in impl_row if r >= nb)
    if "line" in lk:
        f = lk["line"][0]
        for pos, ins in enumerate(net.line.in_service.values):
            if ins:
                cmp("line", pos, ft[f + pos], m_l[pos])
    if "trafo" in lk:
        f = lk["trafo"][0]
        for pos, ins in enumerate(net.trafo.in_service.values):
            if ins:
                cmp("trafo", pos, ft[f + pos], m_t[pos])
    if "trafo3w" in lk:
        f = lk["trafo3w"][0]
        n3 = len(net.trafo3w)
        for pos, ins in enumerate(net.trafo3w.in_service.values):
            if ins:
                for side in range(3):
                    cmp("trafo3w side %d" % side, pos, ft[f + side * n3 + pos], m_t3[pos][side])
    if "xward" in lk:
        f = lk["xward"][0]
        for pos, ins in enumerate(net.xward.in_service.values):
            if ins and bool(net.bus.in_service.at[net.xward.bus.values[pos]]):
                cmp("xward", pos, ft[f + pos], m_x[pos])
    ctx.corr_checked += 1
    if bad:
        ctx.disagreement("ppc row numbers of branch ends: " + "; ".join(bad[:4]), js)
    ctx.count("aux_row_ends_%s" % ("0" if n_aux == 0 else "1-3" if n_aux <= 3 else "4+"))


def _check_case(ctx, net, numba, desc, model):
    """correspondence + oracle for one observed case; `model` is the parsed run_c07 output"""
    obs = desc["_obs"]
    js = {k: v for k, v in desc.items() if not k.startswith("_")}
    isb = set(int(i) for i in net.bus.index[net.bus.in_service.values.astype(bool)])
    allb = [int(i) for i in net.bus.index]
    model_ok = True
    model, m_eg, m_rows = model
    if numba and obs.get("branch_ft") is not None and obs["iso"] is not None:
        _check_rows(ctx, net, obs, m_rows, js)
    if isinstance(model, cq.Err):
        ctx.corr_checked += 1
        ctx.disagreement("model says the impl raises (%s) but the generator only builds well-formed nets" % model.s, js)
        return
    m_iso, m_bus, m_topo, m_g07, m_nrows = model
    if obs["eg"]:
        ctx.corr_checked += 1
        impl_eg = [None if e[3] != e[3] else Fraction(e[3]) for e in obs["eg"]]
        desc["_eg_ok"] = (impl_eg == m_eg)
        if impl_eg != m_eg:
            ctx.disagreement("res_ext_grid.p_mw: impl %s model %s" % (impl_eg, m_eg), js)
    m_rep = {b: r for b, r, _ in m_bus}
    m_nan = sorted(b for b, _, n in m_bus if n)
    # ---- correspondence
    if obs["iso"] is not None:
        ctx.corr_checked += 1
        lk = obs["lookup"]
        idx = list(net.bus.index)
        impl_root = {int(b): (int(idx[lk[b]]) if lk[b] < len(idx) else -1) for b in allb}
        impl_pf_unsup = sorted(b for b in allb if b in isb and int(lk[b]) in set(obs["iso"]))
        model_pf_unsup = sorted(b for b in m_nan if b in isb)
        if numba:
            if obs["nrows"] != m_nrows:
                model_ok = False
                ctx.disagreement("number of ppc rows at _check_connectivity: impl %s model %s" % (obs["nrows"], m_nrows), js)
            elif obs["iso"] != sorted(m_iso):
                model_ok = False
                ctx.disagreement("net._isolated_buses: impl %s model %s" % (obs["iso"], sorted(m_iso)), js)
            elif impl_root != m_rep:
                model_ok = False
                ctx.disagreement("bus fusing lookup (root bus per bus): impl %s model %s" % (impl_root, m_rep), js)
        else:
            # numpy variant of the lookup: another representative per fused class — compare the partition
            part_i = sorted(sorted(b for b in allb if impl_root[b] == r) for r in set(impl_root.values()))
            part_m = sorted(sorted(b for b in allb if m_rep[b] == r) for r in set(m_rep.values()))
            if part_i != part_m:
                model_ok = False
                ctx.disagreement("fused-bus partition (numba=False): impl %s model %s" % (part_i, part_m), js)
        if impl_pf_unsup != model_pf_unsup:
            model_ok = False
            ctx.disagreement("in-service buses isolated by the power flow: impl %s model %s" % (impl_pf_unsup, model_pf_unsup), js)
    else:
        impl_pf_unsup = None
    if obs["converged"]:
        ctx.corr_checked += 1
        if obs["nan"] != m_nan:
            model_ok = False
            ctx.disagreement("NaN set of res_bus: impl %s model %s" % (obs["nan"], m_nan), js)
    ctx.corr_checked += 1
    if obs["topo"] != sorted(m_topo):
        model_ok = False
        ctx.disagreement("topology.unsupplied_buses: impl %s model %s" % (obs["topo"], sorted(m_topo)), js)
    gw = g.guard_g07(net)
    if bool(m_g07) != (gw == []):
        ctx.disagreement("guard G07: python twin %s, Coq %s" % (gw, m_g07), js)
    # ---- oracle: the spec on the impl's real results
    S = g.spec_supplied(net)
    want_unsup = sorted(isb - S)
    if isinstance(obs["topo"], str):
        ctx.violation("spec", "topology.unsupplied_buses raised %s" % obs["topo"], js)
    elif obs["topo"] != want_unsup:
        Sd = g.spec_supplied(net, dcline=True)
        kind = "spec"
        if "dcline" in gw and obs["topo"] == sorted(isb - Sd) and model_ok:
            kind = "C07-dcline-topology"
        ctx.violation(kind, "unsupplied_buses(net) = %s but the in-service buses without a path to an in-service slack are %s"
                      % (obs["topo"], want_unsup), js)
    if impl_pf_unsup is not None and impl_pf_unsup != want_unsup:
        kind = "spec"
        ctx.violation(kind, "power flow isolates the in-service buses %s but the unsupplied ones are %s (runpp %s)"
                      % (impl_pf_unsup, want_unsup, "converged" if obs["converged"] else "raised " + str(obs["raised"])), js)
    if obs["converged"]:
        want_nan = sorted((set(allb) - isb) | set(want_unsup))
        if obs["nan"] != want_nan and impl_pf_unsup == want_unsup:
            ctx.violation("spec", "NaN voltages at %s, expected exactly the out-of-service and unsupplied buses %s" % (obs["nan"], want_nan), js)
        for w in _zero_power_checks(net)[:2]:
            if isinstance(w, tuple):
                ctx.violation(w[0] if desc.get("_eg_ok", True) else "spec", w[1], js)
            else:
                ctx.violation("spec", w, js)
    else:
        ctx.count("runpp_raised_" + str(obs["raised"]))
        if impl_pf_unsup == want_unsup and obs["raised"] == "LoadflowNotConverged":
            ctx.count("nonconverged_with_correct_connectivity")
    nontriv = (len(want_unsup) > 0 and len(S) > 0) or len(set(m_rep.values())) < len(allb)
    ctx.case(js, nontrivial=nontriv, sample={"input": js, "impl": {k: obs[k] for k in ("iso", "topo", "converged")}} if desc["_k"] < 2 else None)
    ctx.count("guard_" + ("ok" if not gw else "+".join(gw)))
    ctx.count("unsupplied_%d" % min(len(want_unsup), 4))
    ctx.count("fused_classes_%d" % min(len(allb) - len(set(m_rep.values())), 3))


def _corpus():
    """witnesses of the two recorded findings, replayed first"""
    out = []
    # bus fed only through a dcline
    net = pp.create_empty_network()
    b = [pp.create_bus(net, 20.0) for _ in range(3)]
    pp.create_ext_grid(net, b[0])
    pp.create_line_from_parameters(net, b[0], b[1], 1.0, 0.25, 0.125, 0.0, 0.5)
    pp.create_dcline(net, b[1], b[2], p_mw=0.05, loss_percent=1.0, loss_mw=0.0, vm_from_pu=1.0, vm_to_pu=1.0)
    pp.create_load(net, b[2], 0.01)
    out.append(("dcline-only-feed", net))
    # in-service bus behind an out-of-service bus, joined by two impedances (repaired: must pass)
    net = pp.create_empty_network()
    b = [pp.create_bus(net, 20.0) for _ in range(4)]
    pp.create_ext_grid(net, b[0])
    pp.create_line_from_parameters(net, b[0], b[1], 1.0, 0.25, 0.125, 0.0, 0.5)
    pp.create_impedance(net, b[1], b[2], 0.01, 0.01, 10.0)
    pp.create_impedance(net, b[2], b[3], 0.01, 0.01, 10.0)
    net.bus.at[b[2], "in_service"] = False
    out.append(("oos-bus-bridge", net))
    # out-of-service ext_grid next to an in-service slack gen (repaired: must pass)
    net = pp.create_empty_network()
    b = [pp.create_bus(net, 20.0) for _ in range(2)]
    pp.create_ext_grid(net, b[0], in_service=False)
    pp.create_gen(net, b[1], p_mw=0.0, vm_pu=1.0, slack=True)
    pp.create_line_from_parameters(net, b[0], b[1], 1.0, 0.25, 0.125, 0.0, 0.5)
    pp.create_load(net, b[0], 0.01)
    out.append(("oos-ext-grid-nan", net))
    return out


def _term(net_term, obs):
    eg = cq.lst(["(%s, %s, %s)" % (cq.b(a), cq.b(b_), cq.q(pg)) for a, b_, pg, _ in obs["eg"]])
    return "let n_ := %s in OL [run_c07 n_; run_c07_eg %s; run_c07_rows n_]" % (net_term, eg)


def run(ctx):
    rng = ctx.rng
    nets, descs, terms = [], [], []
    k = 0
    for name, net in _corpus():
        term = g.net_term(net)
        js = pp.to_json(net)
        obs = _observe(net, True)
        nets.append((net, True))
        descs.append({"corpus": name, "net": js, "numba": True, "_obs": obs, "_k": 99})
        terms.append(_term(term, obs))
        ctx.count("corpus")
    for k in range(ctx.n(126, 2500)):
        r = rng.random()
        net = g.rand_topo_net(rng, allow_bridge=(r < 0.5), dcline=(None if r < 0.8 else False))
        if k % 6 == 5:
            net = g.enrich(net, rng)
            ctx.count("enriched")
        numba = rng.random() < 0.7
        term = g.net_term(net)
        js = pp.to_json(net)
        obs = _observe(net, numba)
        nets.append((net, numba))
        descs.append({"net": js, "numba": numba, "_obs": obs, "_k": k})
        terms.append(_term(term, obs))
    model = ctx.coq_eval("c07", "C07.Model", terms, shard=40, timeout=280)
    for (net, numba), desc, m in zip(nets, descs, model):
        _check_case(ctx, net, numba, desc, m)


def replay(ctx, rec):
    case = rec["case"]
    net = pp.from_json_string(case["net"])
    numba = case.get("numba", True)
    term = g.net_term(net)
    obs = _observe(net, numba)
    model = ctx.coq_eval("c07r", "C07.Model", [_term(term, obs)], shard=10)
    _check_case(ctx, net, numba, {"net": case["net"], "numba": numba, "_obs": obs, "_k": 0}, model[0])
